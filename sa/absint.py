"""Finite-domain abstract interpretation of straight-line encoder/decoder bodies.

A function body is interpreted over: concrete constants (folded), tri-valued
optional attributes (None / falsy / truthy, fixed by a valuation), and opaque
symbols.  Conditions on opaque symbols fork (both outcomes explored by
re-interpretation with a decision prefix).  The interpreter records *events*
(calls to wire writers/readers, raises); it never touches driver objects.
"""
import ast

from .core import AnalysisError, chain, src
from .fold import Folder, Unfoldable
from .guards import NONE, FALSY, TRUTHY


class Sym(object):
    __slots__ = ('text',)

    def __init__(self, text):
        self.text = text

    def __repr__(self):
        return 'Sym(%s)' % self.text

    def __eq__(self, o):
        return isinstance(o, Sym) and o.text == self.text

    def __hash__(self):
        return hash(self.text)


class TriVal(object):
    __slots__ = ('text', 'state')

    def __init__(self, text, state):
        self.text = text
        self.state = state

    def __repr__(self):
        return 'Tri(%s=%s)' % (self.text, self.state)


class _Raise(Exception):
    def __init__(self, name, node):
        self.name = name
        self.node = node


class _Return(Exception):
    def __init__(self, value):
        self.value = value


class _Break(Exception):
    pass


class _Continue(Exception):
    pass


UNKNOWN = object()


def text_of(v):
    if isinstance(v, (Sym, TriVal)):
        return v.text
    return repr(v)


class Outcome(object):
    def __init__(self, kind, events, exc=None, choices=(), node=None, value=None):
        self.kind = kind          # 'ok' | 'raise'
        self.events = events
        self.exc = exc
        self.choices = choices    # ((cond text, bool), ...)
        self.node = node
        self.value = value

    def __repr__(self):
        return '<%s %s %s>' % (self.kind, self.exc or '', self.events)


class Interp(object):
    """interprets methods of classes in `mod` (and base classes found in `mod`)."""

    def __init__(self, mod, folder=None, valuation=None, effect=None, max_forks=64, method_resolver=None):
        self.mod = mod
        self.folder = folder or Folder(mod)
        self.valuation = valuation or {}
        self.effect = effect            # effect(interp, call node, callee chain, args values) -> value | NotImplemented
        self.max_forks = max_forks
        self.method_resolver = method_resolver

    # -- driver
    def run_all(self, func, args, cls=None):
        """all outcomes of func under the valuation; forks on unknown conditions."""
        results = []
        pending = [()]
        n = 0
        while pending:
            prefix = pending.pop()
            n += 1
            if n > self.max_forks:
                raise AnalysisError('too many forks interpreting %s' % func.name)
            self.events = []
            self.choices = []
            self.prefix = list(prefix)
            self.depth = 0
            try:
                val = self.call_func(func, args, cls)
                results.append(Outcome('ok', self.events, choices=tuple(self.choices), value=val))
            except _Raise as r:
                results.append(Outcome('raise', self.events, exc=r.name, choices=tuple(self.choices), node=r.node))
            # schedule the alternatives of every choice made beyond the prefix
            for i in range(len(prefix), len(self.choices)):
                alt = tuple(c[1] for c in self.choices[:i]) + (not self.choices[i][1],)
                pending.append(alt)
        return results

    def call_func(self, func, args, cls):
        self.depth += 1
        if self.depth > 12:
            raise AnalysisError('interpretation too deep at %s' % func.name)
        env = dict(args)
        env['__cls__'] = cls
        try:
            self.block(func.body, env)
            return None
        except _Return as r:
            return r.value
        finally:
            self.depth -= 1

    # -- statements
    def block(self, stmts, env):
        for st in stmts:
            self.stmt(st, env)

    def stmt(self, st, env):
        if isinstance(st, ast.Expr):
            if isinstance(st.value, ast.Constant):
                return
            self.eval(st.value, env)
        elif isinstance(st, ast.Assign):
            v = self.eval(st.value, env)
            for t in st.targets:
                self.assign(t, v, env)
        elif isinstance(st, ast.AugAssign):
            cur = self.eval(ast.Name(id=st.target.id, ctx=ast.Load()), env) if isinstance(st.target, ast.Name) \
                else Sym(src(st.target))
            rhs = self.eval(st.value, env)
            self.assign(st.target, self.binop(st.op, cur, rhs, st), env)
        elif isinstance(st, ast.If):
            if self.truth(self.eval_cond(st.test, env), st.test):
                self.block(st.body, env)
            else:
                self.block(st.orelse, env)
        elif isinstance(st, ast.For) and isinstance(st.iter, (ast.Tuple, ast.List)) and isinstance(st.target, ast.Name) and not st.orelse \
                and not any(isinstance(e, ast.Starred) for e in st.iter.elts):
            # a loop over a literal sequence is its unrolling: the body once per element, in order
            for e in st.iter.elts:
                self.assign(st.target, self.eval(e, env), env)
                try:
                    self.block(st.body, env)
                except _Continue:
                    continue
                except _Break:
                    break
        elif isinstance(st, ast.For):
            it = self.eval(st.iter, env)
            if getattr(self, 'concrete_loops', False) and isinstance(it, (list, tuple)) and len(it) <= 64 and not st.orelse and \
                    all(isinstance(x, (int, str, bytes, float, type(None), Sym)) or
                        (isinstance(x, tuple) and all(isinstance(y, (int, str, bytes, float, type(None), Sym)) for y in x)) for x in it):
                # the iterable folded to concrete constants: the loop is its unrolling
                for x in it:
                    self.assign(st.target, x, env)
                    try:
                        self.block(st.body, env)
                    except _Continue:
                        continue
                    except _Break:
                        break
                return
            if isinstance(it, TriVal):
                if it.state == NONE:
                    raise _Raise('TypeError', st)
                if it.state == FALSY:
                    self.events.append(('loop', it.text))
                    self.events.append(('endloop', 'empty'))
                    return
            if isinstance(it, (list, tuple, dict, set, frozenset)) and len(it) == 0 and isinstance(st.iter, (ast.BoolOp, ast.List, ast.Tuple, ast.IfExp)):
                self.events.append(('loop', src(st.iter)))
                self.events.append(('endloop', 'empty'))
                return
            self.events.append(('loop', text_of(it) if not isinstance(it, (list, tuple)) else src(st.iter)))
            self.bind_syms(st.target, env)
            try:
                self.block(st.body, env)
            except (_Break, _Continue):
                pass
            finally:
                self.events.append(('endloop',))
        elif isinstance(st, ast.While):
            # one symbolic iteration when the test may hold
            self.events.append(('loop', src(st.test)))
            try:
                if self.truth(self.eval_cond(st.test, env), st.test):
                    self.block(st.body, env)
            except (_Break, _Continue):
                pass
            finally:
                self.events.append(('endloop',))
        elif isinstance(st, ast.Break):
            raise _Break()
        elif isinstance(st, ast.Continue):
            raise _Continue()
        elif isinstance(st, ast.Raise):
            name = None
            if st.exc is not None:
                e = st.exc.func if isinstance(st.exc, ast.Call) else st.exc
                c = chain(e)
                name = c[-1] if c else None
            raise _Raise(name or 'Exception', st)
        elif isinstance(st, ast.Return):
            raise _Return(self.eval(st.value, env) if st.value is not None else None)
        elif isinstance(st, ast.Pass):
            return
        elif isinstance(st, (ast.With,)):
            self.block(st.body, env)
        elif isinstance(st, ast.Try):
            # only the protected body is interpreted; a handler is entered only for explicit raises matched by name
            try:
                self.block(st.body, env)
            except _Raise as r:
                for h in st.handlers:
                    names = None
                    if h.type is not None:
                        names = [(chain(e) or ('?',))[-1] for e in (h.type.elts if isinstance(h.type, ast.Tuple) else [h.type])]
                    if names is None or r.name in names or 'Exception' in names:
                        self.block(h.body, env)
                        break
                else:
                    raise
            else:
                self.block(st.orelse, env)
            self.block(st.finalbody, env)
        elif isinstance(st, (ast.FunctionDef, ast.ClassDef)):
            env[st.name] = Sym(st.name)
        elif isinstance(st, ast.Assert):
            return
        else:
            raise AnalysisError('absint: unsupported statement %s at line %d' % (type(st).__name__, st.lineno))

    def bind_syms(self, target, env):
        if isinstance(target, ast.Name):
            env[target.id] = Sym(target.id)
        elif isinstance(target, (ast.Tuple, ast.List)):
            for e in target.elts:
                self.bind_syms(e, env)

    def assign(self, t, v, env):
        if isinstance(t, ast.Name):
            env[t.id] = v
        elif isinstance(t, (ast.Tuple, ast.List)):
            if isinstance(v, (tuple, list)) and len(v) == len(t.elts):
                for te, ve in zip(t.elts, v):
                    self.assign(te, ve, env)
            else:
                self.bind_syms(t, env)
        elif isinstance(t, ast.Attribute):
            c = chain(t)
            if c:
                env['.'.join(c)] = v
            self.events.append(('setattr', src(t), text_of(v)))
        elif isinstance(t, ast.Subscript):
            k = self.eval(t.slice, env) if not isinstance(t.slice, ast.Slice) else UNKNOWN
            ktxt = src(t.slice) if (isinstance(k, (Sym, TriVal)) or k is UNKNOWN) else repr(k)
            self.events.append(('setitem', src(t.value), ktxt, text_of(v)))

    # -- expressions
    def truth(self, v, node):
        """python truthiness of an abstract value; forks when unknown."""
        if isinstance(v, TriVal):
            return v.state == TRUTHY
        if isinstance(v, Sym) or v is UNKNOWN:
            text = src(node)
            i = len(self.choices)
            if i < len(self.prefix):
                c = self.prefix[i]
            else:
                c = True
            self.choices.append((text, c))
            self.events.append(('assume', text, c))
            return c
        return bool(v)

    def eval_cond(self, e, env):
        """evaluates a condition to a concrete bool, TriVal, Sym or UNKNOWN without forking on sub-terms
        unless needed for short-circuiting."""
        if isinstance(e, ast.BoolOp):
            if isinstance(e.op, ast.And):
                v = True
                for x in e.values:
                    v = self.eval_cond(x, env)
                    if not self.truth(v, x):
                        return False
                return True
            for x in e.values:
                v = self.eval_cond(x, env)
                if self.truth(v, x):
                    return True
            return False
        if isinstance(e, ast.UnaryOp) and isinstance(e.op, ast.Not):
            return not self.truth(self.eval_cond(e.operand, env), e.operand)
        return self.eval(e, env)

    _OPSYM = {ast.Add: '+', ast.Sub: '-', ast.Mult: '*', ast.FloorDiv: '//', ast.Mod: '%', ast.Pow: '**', ast.LShift: '<<',
              ast.RShift: '>>', ast.BitOr: '|', ast.BitAnd: '&', ast.BitXor: '^', ast.Div: '/'}

    def binop(self, op, a, b, node):
        if isinstance(a, (Sym, TriVal)) or isinstance(b, (Sym, TriVal)) or a is UNKNOWN or b is UNKNOWN:
            if a is UNKNOWN or b is UNKNOWN or type(op) not in self._OPSYM:
                return Sym(src(node))
            # built from the operand *values* so that constants folded on the way stay visible
            return Sym('(%s %s %s)' % (text_of(a), self._OPSYM[type(op)], text_of(b)))
        from .fold import _BIN
        try:
            return _BIN[type(op)](a, b)
        except Exception:
            return Sym(src(node))

    def eval(self, e, env):
        if isinstance(e, ast.Constant):
            return e.value
        if isinstance(e, ast.Name):
            if e.id in env:
                return env[e.id]
            try:
                return self.folder.module_const(e.id, self.mod)
            except Unfoldable:
                return Sym(e.id)
        if isinstance(e, ast.Attribute):
            t = src(e)
            c = chain(e)
            if c and '.'.join(c) in env:
                return env['.'.join(c)]
            if t in self.valuation:
                return TriVal(t, self.valuation[t])
            if c and len(c) == 2 and c[0] == 'self' and env.get('__cls__') is not None:
                pm, powner = self.resolve_method(env['__cls__'], c[1])
                if pm is not None and any(isinstance(d, ast.Name) and d.id == 'property' for d in pm.decorator_list):
                    return self.invoke(pm, powner, env['__cls__'], [], {}, 'self', env)
            if c and len(c) == 2 and c[0][:1].isupper():
                try:
                    return self.folder.class_const(c[0], c[1], self.mod)
                except Unfoldable:
                    pass
            if c and len(c) == 2 and (c[0] == 'cls' or (c[0] == 'self' and c[1].upper() == c[1])) and env.get('__cls__') is not None:
                try:
                    return self.folder.class_const(env['__cls__'].name, c[1], self.mod)
                except Unfoldable:
                    pass
            if c and len(c) >= 3 and self.mod.has('.'.join(c[:-1])) and isinstance(self.mod.get('.'.join(c[:-1])), ast.ClassDef):
                try:
                    return self.folder.class_const('.'.join(c[:-1]), c[-1], self.mod)
                except Unfoldable:
                    pass
            if c is None:
                base = self.eval(e.value, env)
                return Sym('%s.%s' % (text_of(base), e.attr))
            # attribute of a bound symbol keeps the symbol's text
            if c[0] in env and isinstance(env[c[0]], Sym) and env[c[0]].text != c[0]:
                return Sym('.'.join((env[c[0]].text,) + c[1:]))
            return Sym(t)
        if isinstance(e, ast.BoolOp):
            # python semantics: the value of the deciding operand
            v = None
            for x in e.values:
                v = self.eval(x, env)
                t = self.truth(v, x)
                if isinstance(e.op, ast.Or) and t:
                    return v
                if isinstance(e.op, ast.And) and not t:
                    return v
            return v
        if isinstance(e, ast.UnaryOp) and isinstance(e.op, ast.Not):
            return self.eval_cond(e, env)
        if isinstance(e, ast.UnaryOp):
            v = self.eval(e.operand, env)
            if isinstance(v, (int, float)) and not isinstance(v, bool):
                return -v if isinstance(e.op, ast.USub) else (~v if isinstance(e.op, ast.Invert) else v)
            return Sym(src(e))
        if isinstance(e, ast.BinOp):
            return self.binop(e.op, self.eval(e.left, env), self.eval(e.right, env), e)
        if isinstance(e, ast.Compare):
            return self.compare(e, env)
        if isinstance(e, ast.IfExp):
            if self.truth(self.eval_cond(e.test, env), e.test):
                return self.eval(e.body, env)
            return self.eval(e.orelse, env)
        if isinstance(e, ast.Call):
            return self.call(e, env)
        if isinstance(e, (ast.Tuple, ast.List)):
            return tuple(self.eval(x, env) for x in e.elts)
        if isinstance(e, ast.Subscript):
            base = self.eval(e.value, env)
            idx = self.eval(e.slice, env) if not isinstance(e.slice, ast.Slice) else UNKNOWN
            if isinstance(base, (tuple, list, dict)) and not isinstance(idx, (Sym, TriVal)) and idx is not UNKNOWN:
                try:
                    return base[idx]
                except KeyError:
                    raise _Raise('KeyError', e)
                except IndexError:
                    raise _Raise('IndexError', e)
                except Exception:
                    pass
            return Sym(src(e))
        if isinstance(e, (ast.ListComp, ast.GeneratorExp, ast.SetComp, ast.DictComp)):
            return self.comprehension(e, env)
        if isinstance(e, ast.Starred):
            self.eval(e.value, env)
            return Sym(src(e))
        if isinstance(e, ast.JoinedStr):
            return Sym(src(e))
        if isinstance(e, ast.Dict):
            vals = []
            for k, v in zip(e.keys, e.values):
                if k is not None:
                    self.eval(k, env)
                vals.append(self.eval(v, env))
            if getattr(self, 'eval_dicts', False) and all(isinstance(k, ast.Constant) and isinstance(k.value, str) for k in e.keys):
                return dict((k.value, v) for k, v in zip(e.keys, vals))     # a record with constant field names keeps its field values
            return Sym(src(e))
        if isinstance(e, ast.Lambda):
            return Sym(src(e))
        return Sym(src(e))

    def comprehension(self, e, env):
        """a comprehension is a loop whose body's events are recorded once; the first iterable is
        evaluated before the loop starts (as Python does)."""
        env2 = dict(env)
        first = self.eval(e.generators[0].iter, env2)
        self.events.append(('loop', text_of(first) if isinstance(first, (Sym, TriVal)) else src(e.generators[0].iter)))
        for i, g in enumerate(e.generators):
            if i:
                self.eval(g.iter, env2)
            self.bind_syms(g.target, env2)
        try:
            if isinstance(e, ast.DictComp):
                self.eval(e.key, env2)
                self.eval(e.value, env2)
            else:
                self.eval(e.elt, env2)
        finally:
            self.events.append(('endloop',))
        return Sym(src(e))

    _CMPSYM = {ast.Eq: '==', ast.NotEq: '!=', ast.Lt: '<', ast.LtE: '<=', ast.Gt: '>', ast.GtE: '>=', ast.Is: 'is', ast.IsNot: 'is not',
               ast.In: 'in', ast.NotIn: 'not in'}

    def compare(self, e, env):
        left = self.eval(e.left, env)
        res = True
        for op, r in zip(e.ops, e.comparators):
            right = self.eval(r, env)
            v = self.cmp1(op, left, right, e)
            if v is UNKNOWN:
                if len(e.ops) == 1 and not isinstance(left, (tuple, list, dict)) and not isinstance(right, (tuple, list, dict)):
                    return Sym('(%s %s %s)' % (text_of(left), self._CMPSYM[type(op)], text_of(right)))
                return Sym(src(e))
            if not v:
                return False
            left = right
        return res

    def cmp1(self, op, a, b, node):
        from .fold import _CMP
        if isinstance(op, (ast.Is, ast.IsNot)) and b is None:
            if isinstance(a, TriVal):
                r = a.state == NONE
            elif isinstance(a, Sym) or a is UNKNOWN:
                return UNKNOWN
            else:
                r = a is None
            return r if isinstance(op, ast.Is) else not r
        if isinstance(a, (Sym, TriVal)) or isinstance(b, (Sym, TriVal)) or a is UNKNOWN or b is UNKNOWN:
            return UNKNOWN
        try:
            return _CMP[type(op)](a, b)
        except Exception:
            return UNKNOWN

    def resolve_method(self, clsnode, name, after=None):
        """method `name` in clsnode's MRO (single inheritance chain inside the module);
        after=ClassDef: start after that class (super())."""
        c = clsnode
        started = after is None
        guard = 0
        while c is not None and guard < 20:
            guard += 1
            if started:
                for st in c.body:
                    if isinstance(st, (ast.FunctionDef, ast.AsyncFunctionDef)) and st.name == name:
                        return st, c
            if not started and c is after:
                started = True
            nxt = None
            for b in c.bases:
                bc = chain(b)
                if bc and self.mod.has(bc[-1]) and isinstance(self.mod.get(bc[-1]), ast.ClassDef):
                    nxt = self.mod.get(bc[-1])
                    break
            c = nxt
        return None, None

    def call(self, e, env):
        c = chain(e.func)
        args = [self.eval(a, env) for a in e.args]
        kwargs = dict((k.arg, self.eval(k.value, env)) for k in e.keywords if k.arg)
        if self.effect is not None:
            r = self.effect(self, e, c, args, kwargs, env)
            if r is not NotImplemented:
                return r
        cls = env.get('__cls__')
        # self.method(...) / cls.method(...)
        if c and len(c) == 2 and c[0] in ('self', 'cls') and cls is not None:
            m, owner = self.resolve_method(cls, c[1])
            if m is not None:
                return self.invoke(m, owner, cls, args, kwargs, c[0], env)
        # super(X, self).method(...) / super().method(...)
        if isinstance(e.func, ast.Attribute) and isinstance(e.func.value, ast.Call) and \
                isinstance(e.func.value.func, ast.Name) and e.func.value.func.id == 'super' and cls is not None:
            sargs = e.func.value.args
            if sargs:
                after = self.mod.get(sargs[0].id) if isinstance(sargs[0], ast.Name) and self.mod.has(sargs[0].id) else None
            else:
                after = env.get('__owner__')
            if after is not None:
                m, owner = self.resolve_method(cls, e.func.attr, after=after)
                if m is not None:
                    return self.invoke(m, owner, cls, args, kwargs, 'self', env)
        # ClassName.method(...) on a class in this module (classmethods/staticmethods with foldable bodies)
        if c and len(c) == 2 and self.mod.has(c[0]) and isinstance(self.mod.get(c[0]), ast.ClassDef):
            target = self.mod.get(c[0])
            m, owner = self.resolve_method(target, c[1])
            if m is not None:
                return self.invoke(m, owner, target, args, kwargs, 'cls', env)
        if c and len(c) == 1:
            if c[0] == 'len' and len(args) == 1:
                a = args[0]
                if isinstance(a, (tuple, list, str, bytes, dict)):
                    return len(a)
                return Sym('len(%s)' % text_of(a))
            if c[0] == 'bool' and len(args) == 1 and not isinstance(args[0], (Sym, TriVal)) and args[0] is not UNKNOWN:
                return bool(args[0])
            if c[0] in ('min', 'max') and args and all(isinstance(a, (int, float)) for a in args):
                return {'min': min, 'max': max}[c[0]](*args)
            if c[0] == 'isinstance' or c[0] == 'getattr' or c[0] == 'hasattr':
                return Sym(src(e))
            if c[0] == 'range':
                return Sym(src(e))
        # opaque call: the text is built from the *values* of receiver and arguments so that dataflow is kept
        if isinstance(e.func, ast.Attribute):
            recv = self.eval(e.func.value, env)
            ftxt = '%s.%s' % (text_of(recv) if isinstance(recv, (Sym, TriVal)) else src(e.func.value), e.func.attr)
        else:
            ftxt = src(e.func)
        atxt = [text_of(a) for a in args] + ['%s=%s' % (k, text_of(v)) for k, v in sorted(kwargs.items())]
        t = '%s(%s)' % (ftxt, ', '.join(atxt))
        return Sym(t if len(t) < 160 else t[:157] + '...')

    def invoke(self, m, owner, cls, args, kwargs, selfname, env):
        params = [a.arg for a in m.args.args]
        decs = [chain(d.func if isinstance(d, ast.Call) else d) for d in m.decorator_list]
        decs = [d[-1] for d in decs if d]
        newenv = {}
        if 'staticmethod' not in decs:
            newenv[params[0]] = Sym(params[0])
            params = params[1:]
        defaults = m.args.defaults
        for i, p in enumerate(params):
            if i < len(args):
                newenv[p] = args[i]
            elif p in kwargs:
                newenv[p] = kwargs[p]
            else:
                di = i - (len(params) - len(defaults))
                newenv[p] = self.eval(defaults[di], {}) if di >= 0 else Sym(p)
        newenv['__owner__'] = owner
        for k, v in env.items():
            if k.startswith('self.') and k not in newenv:
                newenv[k] = v
        return self.call_func(m, newenv, cls)
