"""Statement-level control-flow graph, forward dataflow over finite state sets,
bounded path enumeration.  Pure syntax: nothing is executed."""
import ast

from .core import AnalysisError, src, chain, walk_no_nested, assigned_targets


class N(object):
    __slots__ = ('id', 'kind', 'ast', 'succ', 'note')

    def __init__(self, nid, kind, node=None, note=None):
        self.id = nid
        self.kind = kind        # entry exit raise stmt test return raise_stmt handler with_enter with_exit for_iter join
        self.ast = node
        self.succ = []          # [(N, label)]  label: None | ('T',expr) | ('F',expr) | ('exc',name) | ('iter',) | ('done',)
        self.note = note

    def line(self):
        return getattr(self.ast, 'lineno', 0)

    def __repr__(self):
        return '<%s#%d L%s %s>' % (self.kind, self.id, self.line(),
                                  src(self.ast)[:40].replace('\n', ' ') if self.ast is not None and self.kind in ('stmt', 'test', 'return', 'raise_stmt') else '')


class _Frame(object):
    """one enclosing try (handlers) or finally/with-exit region."""

    def __init__(self, builder, handlers=None, final_body=None, final_ctx=None, with_node=None):
        self.b = builder
        self.handlers = handlers      # [(names|None, N)]
        self.final_body = final_body  # list of stmts or None
        self.final_ctx = final_ctx
        self.with_node = with_node
        self._copies = {}

    def has_final(self):
        return self.final_body is not None or self.with_node is not None

    def final_to(self, target):
        """a copy of the finally body (or with-exit) continuing to `target`."""
        k = target.id
        if k not in self._copies:
            if self.with_node is not None:
                n = self.b.new('with_exit', self.with_node)
                n.succ.append((target, None))
                self._copies[k] = n
            else:
                self._copies[k] = self.b.seq(self.final_body, target, self.final_ctx)
        return self._copies[k]


class _Ctx(object):
    __slots__ = ('frames', 'loop')

    def __init__(self, frames=(), loop=None):
        self.frames = frames      # inner -> outer
        self.loop = loop          # (break_target, continue_target, nframes at loop)

    def push(self, frame):
        return _Ctx((frame,) + self.frames, self.loop)

    def with_loop(self, brk, cont):
        return _Ctx(self.frames, (brk, cont, len(self.frames)))


_CATCH_ALL = ('Exception', 'BaseException')


class CFG(object):
    """CFG of one function.

    may_raise(node) -> list of exception class names a statement/test may raise
    (besides explicit `raise`), default none.  exc_hier: core.ExcHierarchy or None.
    """

    def __init__(self, func, may_raise=None, exc_hier=None):
        self.func = func
        self.nodes = []
        self.may_raise = may_raise
        self.hier = exc_hier
        self.exit = self.new('exit')
        self.raise_exit = self.new('raise')
        self.entry = self.new('entry')
        body = self.seq(func.body, self.exit, _Ctx())
        self.entry.succ.append((body, None))
        self._preds = None

    # -- construction
    def new(self, kind, node=None, note=None):
        n = N(len(self.nodes), kind, node, note)
        self.nodes.append(n)
        return n

    def seq(self, stmts, nxt, ctx):
        for st in reversed(stmts):
            nxt = self.stmt(st, nxt, ctx)
        return nxt

    def _match(self, name, names):
        if names is None:
            return True
        if name is None:
            return True if any(n in _CATCH_ALL for n in names) else None
        res = False
        for n in names:
            if n in _CATCH_ALL or n == name:
                return True
            if self.hier is not None:
                m = self.hier.is_sub(name, n)
                if m is True:
                    return True
                if m is None:
                    res = None
            else:
                res = None
        return res

    def exc_targets(self, frames, name):
        if not frames:
            return [self.raise_exit]
        fr, rest = frames[0], frames[1:]
        targets = []
        passes = True
        if fr.handlers:
            for names, hnode in fr.handlers:
                m = self._match(name, names)
                if m is True:
                    targets.append(hnode)
                    passes = False
                    break
                if m is None:
                    targets.append(hnode)
        if passes:
            outer = self.exc_targets(rest, name)
            if fr.has_final():
                targets.extend(fr.final_to(t) for t in outer)
            else:
                targets.extend(outer)
        return targets

    def _through(self, frames, upto, target):
        """run the finally bodies of frames[0:len(frames)-upto] (inner first), then go to target."""
        n = len(frames) - upto
        for fr in reversed(frames[:n]):   # build outermost first so inner copies continue to it
            if fr.has_final():
                target = fr.final_to(target)
        return target

    def _add_exc(self, node, astnode, ctx):
        if self.may_raise is None:
            return
        names = self.may_raise(astnode)
        for name in names or ():
            for t in self.exc_targets(ctx.frames, name):
                node.succ.append((t, ('exc', name)))

    def cond(self, expr, t, f, ctx):
        if isinstance(expr, ast.UnaryOp) and isinstance(expr.op, ast.Not):
            return self.cond(expr.operand, f, t, ctx)
        if isinstance(expr, ast.BoolOp):
            vals = expr.values
            if isinstance(expr.op, ast.And):
                nxt = t
                for v in reversed(vals):
                    nxt = self.cond(v, nxt, f, ctx)
                return nxt
            nxt = f
            for v in reversed(vals):
                nxt = self.cond(v, t, nxt, ctx)
            return nxt
        if isinstance(expr, ast.Constant):
            return t if expr.value else f
        n = self.new('test', expr)
        n.succ.append((t, ('T', expr)))
        n.succ.append((f, ('F', expr)))
        self._add_exc(n, expr, ctx)
        return n

    def stmt(self, st, nxt, ctx):
        if isinstance(st, ast.If):
            t = self.seq(st.body, nxt, ctx)
            f = self.seq(st.orelse, nxt, ctx)
            return self.cond(st.test, t, f, ctx)
        if isinstance(st, ast.While):
            head = self.new('join', st)
            after = self.seq(st.orelse, nxt, ctx)
            body = self.seq(st.body, head, ctx.with_loop(nxt, head))
            test = self.cond(st.test, body, after, ctx)
            head.succ.append((test, None))
            return head
        if isinstance(st, (ast.For, ast.AsyncFor)):
            head = self.new('for_iter', st)
            after = self.seq(st.orelse, nxt, ctx)
            body = self.seq(st.body, head, ctx.with_loop(nxt, head))
            head.succ.append((body, ('iter',)))
            head.succ.append((after, ('done',)))
            self._add_exc(head, st.iter, ctx)
            return head
        if isinstance(st, (ast.Try, getattr(ast, 'TryStar', ast.Try))):
            octx = ctx
            if st.finalbody:
                ffr = _Frame(self, final_body=st.finalbody, final_ctx=ctx)
                ctx = ctx.push(ffr)
                after = ffr.final_to(nxt)
            else:
                after = nxt
            handlers = []
            for h in st.handlers:
                hn = self.new('handler', h)
                hn.succ.append((self.seq(h.body, after, ctx), None))
                if h.type is None:
                    names = None
                elif isinstance(h.type, ast.Tuple):
                    names = [(chain(e) or ('?',))[-1] for e in h.type.elts]
                else:
                    names = [(chain(h.type) or ('?',))[-1]]
                handlers.append((names, hn))
            els = self.seq(st.orelse, after, ctx)
            bctx = ctx.push(_Frame(self, handlers=handlers)) if handlers else ctx
            return self.seq(st.body, els, bctx)
        if isinstance(st, (ast.With, ast.AsyncWith)):
            wfr = _Frame(self, with_node=st)
            ictx = ctx.push(wfr)
            body = self.seq(st.body, wfr.final_to(nxt), ictx)
            n = self.new('with_enter', st)
            n.succ.append((body, None))
            for it in st.items:
                self._add_exc(n, it.context_expr, ctx)
            return n
        if isinstance(st, ast.Return):
            n = self.new('return', st)
            n.succ.append((self._through(ctx.frames, 0, self.exit), None))
            if st.value is not None:
                self._add_exc(n, st.value, ctx)
            return n
        if isinstance(st, ast.Raise):
            n = self.new('raise_stmt', st)
            name = None
            if st.exc is not None:
                e = st.exc.func if isinstance(st.exc, ast.Call) else st.exc
                c = chain(e)
                if c and c[-1][:1].isupper():
                    name = c[-1]
            for t in self.exc_targets(ctx.frames, name):
                n.succ.append((t, ('exc', name)))
            return n
        if isinstance(st, ast.Break):
            if ctx.loop is None:
                raise AnalysisError('break outside loop')
            n = self.new('stmt', st)
            n.succ.append((self._through(ctx.frames, ctx.loop[2], ctx.loop[0]), None))
            return n
        if isinstance(st, ast.Continue):
            if ctx.loop is None:
                raise AnalysisError('continue outside loop')
            n = self.new('stmt', st)
            n.succ.append((self._through(ctx.frames, ctx.loop[2], ctx.loop[1]), None))
            return n
        if isinstance(st, getattr(ast, 'Match', ())):
            raise AnalysisError('match statement not supported by the CFG builder (line %d)' % st.lineno)
        n = self.new('stmt', st)
        n.succ.append((nxt, None))
        self._add_exc(n, st, ctx)
        return n

    # -- queries
    def preds(self):
        if self._preds is None:
            p = dict((n.id, []) for n in self.nodes)
            for n in self.nodes:
                for s, lab in n.succ:
                    p[s.id].append((n, lab))
            self._preds = p
        return self._preds

    def reachable(self):
        seen = set()
        work = [self.entry]
        while work:
            n = work.pop()
            if n.id in seen:
                continue
            seen.add(n.id)
            work.extend(s for s, _ in n.succ)
        return seen

    def dominates(self, a, b):
        """every path from the entry to b passes through a (b is not reached when a is cut out)"""
        if a is b:
            return True
        seen = set()
        work = [self.entry]
        while work:
            n = work.pop()
            if n.id in seen or n is a:
                continue
            if n is b:
                return False
            seen.add(n.id)
            work.extend(s for s, _ in n.succ)
        return True

    def stmt_nodes(self):
        r = self.reachable()
        return [n for n in self.nodes if n.id in r and n.ast is not None]


# ----------------------------------------------------------------------------
# path facts: branch conditions remembered along a path, killed on reassignment


def _killed_by(stmt_ast):
    """set of chains (tuples) assigned by this statement node (shallow)."""
    out = set()
    if stmt_ast is None:
        return out
    nodes = [stmt_ast]
    if isinstance(stmt_ast, (ast.With, ast.AsyncWith, ast.For, ast.AsyncFor)):
        nodes = [stmt_ast]
    for t in assigned_targets(stmt_ast) if isinstance(stmt_ast, ast.stmt) else ():
        c = chain(t)
        if c:
            out.add(c)
        elif isinstance(t, ast.Subscript):
            c = chain(t.value)
            if c:
                out.add(c)
    # walrus
    for n in walk_no_nested(stmt_ast) if isinstance(stmt_ast, ast.AST) else ():
        if isinstance(n, ast.NamedExpr):
            out.add((n.target.id,))
        elif isinstance(n, ast.Delete):
            for t in n.targets:
                c = chain(t)
                if c:
                    out.add(c)
    return out


def _expr_chains(expr):
    out = set()
    for n in ast.walk(expr):
        c = chain(n) if isinstance(n, (ast.Attribute, ast.Name)) else None
        if c:
            out.add(c)
    return out


def _is_const_value(v):
    return isinstance(v, (ast.Constant, ast.JoinedStr)) or (isinstance(v, (ast.List, ast.Tuple, ast.Dict, ast.Set)) and not getattr(v, 'elts', getattr(v, 'keys', None)))


def _informative_ifexp(e):
    if isinstance(e, ast.IfExp):
        return any(_is_const_value(x) or _informative_ifexp(x) for x in (e.body, e.orelse))
    return False


def _ifexp_arms(facts, e):
    """[(facts with the outcome of the tests, leaf value)] for the arms of a (nested) conditional expression; infeasible arms dropped"""
    if not isinstance(e, ast.IfExp):
        return [(facts, e)]
    out = []
    for pol, arm in ((True, e.body), (False, e.orelse)):
        f = facts.assume_deep(e.test, pol)
        if f is not None:
            out.extend(_ifexp_arms(f, arm))
    return out


def _value_facts(facts2, target, value):
    """what a plain assignment `target = value` says about target (the facts about the old value are already dropped)"""
    none_test = ast.Compare(left=target, ops=[ast.Is()], comparators=[ast.Constant(value=None)])
    f_ = None
    if isinstance(value, ast.Constant) and isinstance(value.value, bool):
        # constant propagation of boolean flags: `flag = True` / `flag = False` is a fact about `flag`
        f_ = facts2.assume(target, value.value)
    elif isinstance(value, (ast.BoolOp, ast.UnaryOp, ast.Compare)) and _pure_bool(value):
        # `t = <and/or/not/comparison over names>` : t stands for that expression until one of them is assigned again
        return facts2.define(target.id, value)
    elif isinstance(value, ast.Constant) and value.value is None:
        f_ = facts2.assume(none_test, True)
    if f_ is not None:
        facts2 = f_
    if isinstance(value, (ast.Constant, ast.JoinedStr, ast.List, ast.Tuple, ast.Dict, ast.Set, ast.ListComp, ast.DictComp, ast.SetComp)) \
            and not (isinstance(value, ast.Constant) and value.value is None):
        # `name = <constant / display other than None>` : `name is None` is false
        f_ = facts2.assume(none_test, False)
        if f_ is not None:
            facts2 = f_
    return facts2


def _pure_bool(e):
    """and / or / not / comparisons over names, attributes and constants only (no calls, no subscripts): safe to re-read later"""
    for n in ast.walk(e):
        if not isinstance(n, (ast.BoolOp, ast.UnaryOp, ast.Compare, ast.Name, ast.Attribute, ast.Constant, ast.And, ast.Or, ast.Not, ast.Load,
                              ast.cmpop)):
            return False
    return True


class Facts(object):
    """immutable set of (condition text, polarity) known on the current path."""
    __slots__ = ('items',)

    def __init__(self, items=frozenset()):
        self.items = items

    def __hash__(self):
        return hash(self.items)

    def __eq__(self, o):
        return isinstance(o, Facts) and o.items == self.items

    def assume(self, expr, pol):
        """returns new Facts, or None if contradictory."""
        from .guards import normalise_atom
        key, flip = normalise_atom(expr)
        p = pol != flip
        if (key, not p) in self.items:
            return None
        # `x` truthy and `x is None` cannot both hold: such a path is infeasible
        if p:
            if key.endswith(' is None') and (key[:-8], True) in self.items:
                return None
            if (key + ' is None', True) in self.items:
                return None
        return Facts(self.items | frozenset([(key, p)]))

    # --- boolean temporaries: `t = a or b` is remembered as the item ('(t := a or b)', True) until t, a or b is assigned again
    @staticmethod
    def _parsed(key, cache={}):
        try:
            return cache[key]
        except KeyError:
            try:
                e = ast.parse(key, mode='eval').body
            except SyntaxError:
                e = None
            cache[key] = e
            return e

    def definition(self, name):
        """the expression a boolean temporary currently stands for, or None"""
        pre = '(%s := ' % name
        for k, p in self.items:
            if k.startswith(pre):
                e = self._parsed(k)
                if isinstance(e, ast.NamedExpr):
                    return e.value
        return None

    def define(self, name, expr):
        if any(c == (name,) for c in _expr_chains(expr)):
            return self
        return Facts(self.items | frozenset([('(%s := %s)' % (name, src(expr)), True)]))

    def assume_deep(self, expr, pol, depth=4):
        """assume, and also what follows for the parts: a conjunction that holds / a disjunction that fails fixes every operand; a temporary stands for its definition"""
        f = self.assume(expr, pol)
        if f is None or depth == 0:
            return f
        e = expr
        while isinstance(e, ast.UnaryOp) and isinstance(e.op, ast.Not):
            e, pol = e.operand, not pol
        if isinstance(e, ast.Name):
            d = f.definition(e.id)
            if d is not None:
                return f.assume_deep(d, pol, depth - 1)
        elif isinstance(e, ast.BoolOp) and isinstance(e.op, ast.And if pol else ast.Or):
            for v in e.values:
                f = f.assume_deep(v, pol, depth - 1)
                if f is None:
                    return None
        return f

    def value(self, text, depth=4):
        """three-valued: what the facts say about a boolean expression built from known atoms with and / or / not, or about a temporary defined as one"""
        k = self.knows(text)
        if k is not None or depth == 0:
            return k
        e = self._parsed(text)
        if e is None:
            return None
        if isinstance(e, ast.UnaryOp) and isinstance(e.op, ast.Not):
            v = self.value(src(e.operand), depth - 1)
            return None if v is None else not v
        if isinstance(e, ast.BoolOp):
            vs = [self.value(src(v), depth - 1) for v in e.values]
            if isinstance(e.op, ast.And):
                return False if any(v is False for v in vs) else (True if all(v is True for v in vs) else None)
            return True if any(v is True for v in vs) else (False if all(v is False for v in vs) else None)
        if isinstance(e, ast.Name):
            d = self.definition(e.id)
            if d is not None:
                return self.value(src(d), depth - 1)
            return None
        # a temporary defined as exactly this expression, or as its negation
        for key, p in self.items:
            if key.startswith('(') and ' := ' in key:
                ne = self._parsed(key)
                if not isinstance(ne, ast.NamedExpr):
                    continue
                d, neg = ne.value, False
                while isinstance(d, ast.UnaryOp) and isinstance(d.op, ast.Not):
                    d, neg = d.operand, not neg
                if src(d) == src(e):
                    kk = self.knows(ne.target.id)
                    if kk is not None:
                        return kk != neg
        return None

    def kill(self, killed, texts_cache={}):
        if not killed or not self.items:
            return self
        keep = []
        for key, p in self.items:
            try:
                e = texts_cache[key]
            except KeyError:
                try:
                    e = texts_cache[key] = _expr_chains(ast.parse(key, mode='eval').body)
                except SyntaxError:
                    e = texts_cache[key] = set()
            dead = False
            for k in killed:
                for c in e:
                    if c[:len(k)] == k:
                        dead = True
                        break
                if dead:
                    break
            if not dead:
                keep.append((key, p))
        return Facts(frozenset(keep))

    def knows(self, text):
        for k, p in self.items:
            if k == text:
                return p
        # the query may be written in any equivalent form (`a <= 0`, `x is not None`, `not f`)
        try:
            from .guards import normalise_atom
            k2, flip = normalise_atom(ast.parse(text, mode="eval").body)
        except SyntaxError:
            return None
        for k, p in self.items:
            if k == k2:
                return p != flip
        return None

    def __repr__(self):
        return '{%s}' % ', '.join(('' if p else 'not ') + k for k, p in sorted(self.items))


# ----------------------------------------------------------------------------
# dataflow


class Flow(object):
    """Forward analysis where the abstract value at a node is a *set* of small
    states (facts, custom); transfer is applied per state.  Finite because the
    fact universe is the function's own branch conditions and `custom` is drawn
    from a finite set chosen by the rule."""

    def __init__(self, cfg, init, step, use_facts=True, edge=None, max_states=20000, volatile=None):
        """step(node, custom) -> custom | list of customs (effect of executing node)
        edge(node, succ, label, custom) -> custom | None  (optional refinement per edge)
        volatile(fact text) -> bool: facts about state shared with other threads; they are forgotten whenever a
        lock is (re)acquired (`with` entry, .acquire()), because another thread may have changed them meanwhile"""
        self.cfg = cfg
        self.step = step
        self.edge = edge
        self.use_facts = use_facts
        self.inn = dict((n.id, set()) for n in cfg.nodes)
        self.origin = {}
        start = (Facts(), init)
        self.inn[cfg.entry.id].add(start)
        work = [(cfg.entry, start)]
        count = 0
        while work:
            node, st = work.pop()
            count += 1
            if count > max_states * 10:
                raise AnalysisError('dataflow did not converge on %s' % getattr(cfg.func, 'name', '?'))
            facts, cust = st
            outs = self.step(node, cust)
            if not isinstance(outs, list):
                outs = [outs]
            if use_facts and node.ast is not None and node.kind in ('stmt', 'with_enter', 'for_iter', 'return', 'handler'):
                facts2 = facts.kill(_killed_by(node.ast if node.kind != 'handler' else None))
                a = node.ast
                split = None
                if node.kind == 'stmt' and isinstance(a, ast.Assign) and len(a.targets) == 1 and isinstance(a.targets[0], ast.Name):
                    if isinstance(a.value, ast.IfExp) and _informative_ifexp(a.value) and \
                            not any(isinstance(x, ast.Name) and x.id == a.targets[0].id for x in ast.walk(a.value)):
                        # `x = A if c else B` with a constant arm: one state per arm, each with the test's outcome and what the arm says about x
                        split = [_value_facts(f_, a.targets[0], v_) for f_, v_ in _ifexp_arms(facts2, a.value)]
                    else:
                        facts2 = _value_facts(facts2, a.targets[0], a.value)
            else:
                facts2 = facts
                split = None
            if volatile is not None and use_facts and node.ast is not None and (
                    node.kind == 'with_enter' or (node.kind == 'stmt' and isinstance(node.ast, ast.Expr) and isinstance(node.ast.value, ast.Call)
                                                  and isinstance(node.ast.value.func, ast.Attribute) and node.ast.value.func.attr == 'acquire')):
                facts2 = Facts(frozenset((k, p) for k, p in facts2.items if not volatile(k)))
            for c, facts2 in [(c_, f_) for c_ in outs for f_ in (split if (use_facts and node.ast is not None and node.kind == 'stmt' and split) else [facts2])]:
                if c is None:
                    continue
                for s, lab in node.succ:
                    f3 = facts2
                    if use_facts and lab is not None and lab[0] in ('T', 'F'):
                        f3 = facts2.assume_deep(lab[1], lab[0] == 'T')
                        if f3 is None:
                            continue
                    c2 = c
                    if self.edge is not None:
                        c2 = self.edge(node, s, lab, c)
                        if c2 is None:
                            continue
                    ns = (f3, c2)
                    if ns not in self.inn[s.id]:
                        self.inn[s.id].add(ns)
                        if (s.id, ns) not in self.origin:
                            self.origin[(s.id, ns)] = (node, st, lab)
                        work.append((s, ns))

    def at(self, node):
        return self.inn[node.id]

    def customs_at(self, node):
        return set(c for _f, c in self.inn[node.id])

    def witness(self, node, state, limit=60):
        """a path (list of (line, text)) from entry to (node,state)."""
        path = []
        cur = (node.id, state)
        guard = 0
        while cur in self.origin and guard < 2000:
            guard += 1
            pn, pst, lab = self.origin[cur]
            if pn.ast is not None and pn.kind in ('stmt', 'test', 'return', 'raise_stmt', 'with_enter', 'for_iter', 'handler'):
                t = src(pn.ast).split('\n')[0][:90]
                if lab is not None and lab[0] in ('T', 'F'):
                    t = '%s  [%s]' % (t, 'true' if lab[0] == 'T' else 'false')
                elif lab is not None and lab[0] == 'exc':
                    t = '%s  [raises %s]' % (t, lab[1])
                path.append('L%d: %s' % (pn.line(), t))
            cur = (pn.id, pst)
        path.reverse()
        if len(path) > limit:
            path = path[:limit // 2] + ['...'] + path[-limit // 2:]
        return path


# ----------------------------------------------------------------------------
# path enumeration for decision tables (F7)


class Path(object):
    __slots__ = ('conds', 'nodes', 'end')

    def __init__(self, conds, nodes, end):
        self.conds = conds   # [(expr, bool)]
        self.nodes = nodes   # visited N (stmt-like)
        self.end = end       # terminal N: return / exit / raise / raise_stmt

    def cond_text(self):
        return ' and '.join(('' if p else 'not ') + '(' + src(e) + ')' for e, p in self.conds) or 'True'


def enumerate_paths(cfg, max_visits=1, max_paths=20000, feasible=True):
    """all entry->exit paths visiting each node at most max_visits times.
    Paths with syntactically contradictory conditions are dropped."""
    out = []
    from .guards import normalise_atom

    def rec(node, conds, facts, nodes, visits):
        if len(out) > max_paths:
            raise AnalysisError('too many paths in %s' % getattr(cfg.func, 'name', '?'))
        if node.kind in ('exit', 'raise'):
            term = None
            for n in nodes:
                if n.kind in ('return', 'raise_stmt'):
                    term = n
                elif n.kind == 'handler':
                    term = None
            out.append(Path(conds, nodes, term if term is not None else node))
            return
        v = visits.get(node.id, 0)
        if v >= max_visits:
            return
        visits = dict(visits)
        visits[node.id] = v + 1
        nn = nodes + [node] if node.ast is not None else nodes
        if feasible and node.ast is not None and node.kind in ('stmt', 'with_enter', 'for_iter'):
            k = _killed_by(node.ast)
            if k:
                facts = Facts(frozenset(facts)).kill(k).items
        for s, lab in node.succ:
            c2, f2 = conds, facts
            if lab is not None and lab[0] in ('T', 'F'):
                pol = lab[0] == 'T'
                if feasible:
                    key, flip = normalise_atom(lab[1])
                    p = pol != flip
                    if (key, not p) in facts:
                        continue
                    f2 = facts | frozenset([(key, p)])
                c2 = conds + [(lab[1], pol)]
            rec(s, c2, f2, nn, visits)
    rec(cfg.entry, [], frozenset(), [], {})
    return out
