"""Semantic helpers shared by the rules: questions about a function are answered from its CFG and the branch facts
known on the paths that reach a statement, never from the nesting shape of the source (so `if c: A else: B`,
`if not c: B; return` + A, a hoisted condition or a merged `and` give the same answer)."""
import ast

from .core import src, walk_no_nested, AnalysisError
from .cfg import CFG, Flow

_CACHE = {}


def flow_of(func, may_raise=None):
    """(CFG, Flow) of a function with branch facts and no custom state; cached per function node"""
    key = (id(func), None if may_raise is None else id(may_raise))
    if key not in _CACHE:
        g = CFG(func, may_raise=may_raise) if may_raise is not None else CFG(func)
        _CACHE[key] = (func, g, Flow(g, 0, lambda n, c: c))
    return _CACHE[key][1], _CACHE[key][2]


def node_of(g, astnode):
    """the CFG node whose statement / test contains astnode"""
    best = None
    for n in g.stmt_nodes():
        if n.ast is astnode:
            return n
    for n in g.stmt_nodes():
        if n.kind in ('stmt', 'test', 'return', 'raise_stmt', 'with_enter', 'for_iter') and n.ast is not None:
            for x in walk_no_nested(n.ast) if isinstance(n.ast, ast.stmt) and not isinstance(n.ast, (ast.If, ast.While, ast.For, ast.Try, ast.With)) else ast.walk(n.ast) if not isinstance(n.ast, ast.stmt) else ():
                if x is astnode:
                    best = n
                    break
        if best:
            break
    if best is None:
        # compound statements: the test / iter / items are separate nodes whose .ast is the expression
        for n in g.stmt_nodes():
            a = n.ast
            if isinstance(a, ast.expr):
                if any(x is astnode for x in ast.walk(a)):
                    return n
    return best


def facts_true_at(fl, node):
    """fact keys that hold (True) / do not hold (False) on every path reaching node -> dict key -> bool"""
    states = list(fl.at(node))
    if not states:
        return {}
    common = None
    for f, _c in states:
        d = dict(f.items)
        if common is None:
            common = d
        else:
            common = dict((k, v) for k, v in common.items() if d.get(k, None) is v)
    return common or {}


def knows_all(fl, node, text):
    """True / False when every path reaching node knows the atom with that polarity, else None"""
    vals = set(f.knows(text) for f, _c in fl.at(node))
    if len(vals) == 1:
        return vals.pop()
    return None


def reachable(fl, node):
    return bool(fl.at(node))


def isinstance_classes(key):
    """'isinstance(x, (A, B))' -> ('x', ('A', 'B')) ; else None"""
    try:
        e = ast.parse(key, mode='eval').body
    except SyntaxError:
        return None
    if isinstance(e, ast.Call) and isinstance(e.func, ast.Name) and e.func.id == 'isinstance' and len(e.args) == 2:
        t = e.args[1]
        cls = tuple(src(x) for x in t.elts) if isinstance(t, ast.Tuple) else (src(t),)
        return src(e.args[0]), cls
    return None


def eq_const(key):
    """'a == K' -> ('a', 'K'); else None"""
    try:
        e = ast.parse(key, mode='eval').body
    except SyntaxError:
        return None
    if isinstance(e, ast.Compare) and len(e.ops) == 1 and isinstance(e.ops[0], ast.Eq):
        return src(e.left), src(e.comparators[0])
    return None


def dispatch_table(func, subject, kind='eq'):
    """statements of func grouped by the value of `subject` known on every path reaching them.
    kind 'eq': facts `subject == K` (either operand order) -> {K: [stmt nodes]}
    kind 'isinstance': facts isinstance(subject, C) -> {classes tuple: [stmt nodes]}
    A statement is listed under K when K is the *innermost distinguishing* fact: it holds there and the statement is
    not reachable when it does not hold."""
    g, fl = flow_of(func)
    table = {}
    for n in g.stmt_nodes():
        if n.kind not in ('stmt', 'return', 'raise_stmt'):
            continue
        for k, v in facts_true_at(fl, n).items():
            if not v:
                continue
            if kind == 'eq':
                p = eq_const(k)
                if p and subject in p:
                    other = p[1] if p[0] == subject else p[0]
                    table.setdefault(other, []).append(n)
            else:
                p = isinstance_classes(k)
                if p and p[0] == subject:
                    table.setdefault(p[1], []).append(n)
    return table


def calls_in_nodes(nodes, pred):
    out = []
    for n in nodes:
        a = n.ast
        if a is None:
            continue
        for x in (walk_no_nested(a) if isinstance(a, ast.stmt) else ast.walk(a)):
            if isinstance(x, ast.Call) and pred(x):
                out.append(x)
    return out


def try_body_may_raise(func):
    """may_raise function for CFG(): a statement or test that contains a call, a subscript or an attribute access on a
    non-self name and sits in the body of a `try` may raise what the handlers of that `try` catch - so every handler is
    reachable from every such statement of its `try` body (sound for must-analyses over exits: handlers are never ignored)"""
    from .core import parent

    def enclosing_tries(node):
        out = []
        cur = node
        while cur is not None and cur is not func:
            p = parent(cur)
            if isinstance(p, ast.Try) and any(cur is x for x in p.body):
                out.append(p)
            cur = p
        return out

    def mr(astnode):
        if astnode is None:
            return ()
        risky = any(isinstance(x, (ast.Call, ast.Subscript)) for x in ast.walk(astnode))
        if not risky:
            return ()
        names = []
        for t in enclosing_tries(astnode):
            for h in t.handlers:
                if h.type is None:
                    names.append('BaseException')
                elif isinstance(h.type, ast.Tuple):
                    names.extend(src(e).split('.')[-1] for e in h.type.elts)
                else:
                    names.append(src(h.type).split('.')[-1])
        return tuple(dict.fromkeys(names))
    return mr


def resolve(func, expr, depth=6, loops=False, keep=()):
    """copy of expr in which every local that func assigns exactly once (plain `name = value`, outside loops, not a
    parameter) is replaced by its (resolved) value - the expression the code computes, whatever temporaries it names"""
    import copy
    from .core import parent
    params = set(a.arg for a in func.args.args + func.args.kwonlyargs) | set(x.arg for x in (func.args.vararg, func.args.kwarg) if x)
    stores = {}
    for n in walk_no_nested(func):
        if isinstance(n, ast.Name) and isinstance(n.ctx, (ast.Store, ast.Del)):
            stores.setdefault(n.id, []).append(n)
    defs = {}
    for name, ss in stores.items():
        if len(ss) != 1 or name in params or name in keep:
            continue
        st = parent(ss[0])
        if not (isinstance(st, ast.Assign) and len(st.targets) == 1 and st.targets[0] is ss[0]):
            continue
        p, in_loop = parent(st), False
        while p is not None and p is not func:
            if isinstance(p, (ast.For, ast.While, ast.AsyncFor)):
                in_loop = True
            p = parent(p)
        if not in_loop or (loops and getattr(st, 'lineno', 0) < getattr(expr, 'lineno', 0)):
            # loops=True: a name assigned once inside a loop, textually before the expression that reads it in the same function
            defs[name] = st.value

    class R(ast.NodeTransformer):
        def __init__(self, d):
            self.d = d

        def visit_Name(self, n):
            if isinstance(n.ctx, ast.Load) and n.id in defs and self.d > 0:
                return R(self.d - 1).visit(copy.deepcopy(defs[n.id]))
            return n
    return R(depth).visit(copy.deepcopy(expr))


_EMPTY_CTORS = {'list': 'list', 'dict': 'dict', 'OrderedDict': 'dict', 'collections.OrderedDict': 'dict'}


def _placeholders(target, exprs):
    """texts of exprs with the names bound by the loop/comprehension target renamed _e0, _e1, ... in binding order"""
    import copy
    names = [n.id for n in ast.walk(target) if isinstance(n, ast.Name)]
    mp = dict((nm, '_e%d' % i) for i, nm in enumerate(dict.fromkeys(names)))

    class S(ast.NodeTransformer):
        def visit_Name(self, n):
            return ast.copy_location(ast.Name(id=mp.get(n.id, n.id), ctx=n.ctx), n)
    return tuple(src(S().visit(copy.deepcopy(e))) for e in exprs)


def _comp_descr(value):
    """descriptor of an expression that builds a list / dict element by element from one iterable, or None:
    ('list', iter text, elt text) / ('dict', iter text, (key text, value text)); bound names appear as _e0, _e1 ..."""
    v = value
    kind = None
    if isinstance(v, ast.Call) and not v.keywords and len(v.args) == 1 and src(v.func) in ('list', 'tuple', 'dict', 'OrderedDict', 'collections.OrderedDict') \
            and isinstance(v.args[0], (ast.GeneratorExp, ast.ListComp)):
        kind = 'dict' if 'ict' in src(v.func) else 'list'
        v = v.args[0]
    elif isinstance(v, ast.ListComp):
        kind = 'list'
    elif isinstance(v, ast.DictComp):
        kind = 'dict'
    if kind is None or len(v.generators) != 1 or v.generators[0].ifs or v.generators[0].is_async:
        return None
    gen = v.generators[0]
    if isinstance(v, ast.DictComp):
        return ('dict', src(gen.iter), _placeholders(gen.target, [v.key, v.value]))
    if kind == 'dict':
        if not (isinstance(v.elt, ast.Tuple) and len(v.elt.elts) == 2):
            return None
        return ('dict', src(gen.iter), _placeholders(gen.target, v.elt.elts))
    return ('list', src(gen.iter), _placeholders(gen.target, [v.elt])[0])


def elementwise(func):
    """{name: [(descriptor, site statement)]} for the locals of func that are built element by element from one iterable,
    either by a comprehension (`n = [E for v in X]`, `dict((K, V) for v in X)`, `{K: V for v in X}`) or by an empty
    container filled in a loop (`n = []` ... `for v in X: n.append(E)` / `n[K] = V`, the fill being an unconditional
    statement of the loop body and the only change to n between the two).  See _comp_descr for the descriptor."""
    out = {}

    def lists(node):
        for fld in ('body', 'orelse', 'finalbody'):
            b = getattr(node, fld, None)
            if isinstance(b, list) and b and isinstance(b[0], ast.stmt):
                yield b
                for st in b:
                    if not isinstance(st, (ast.FunctionDef, ast.AsyncFunctionDef, ast.ClassDef)):
                        for x in lists(st):
                            yield x
        for h in getattr(node, 'handlers', []) or []:
            yield h.body
            for st in h.body:
                for x in lists(st):
                    yield x

    def touches(st, name):
        for n in ast.walk(st):
            if isinstance(n, ast.Name) and n.id == name and isinstance(n.ctx, (ast.Store, ast.Del)):
                return True
            if isinstance(n, ast.Attribute) and isinstance(n.value, ast.Name) and n.value.id == name and \
                    n.attr in ('append', 'extend', 'insert', 'pop', 'remove', 'clear', 'update', 'setdefault', 'popitem', 'sort', 'reverse'):
                return True
            if isinstance(n, ast.Subscript) and isinstance(n.value, ast.Name) and n.value.id == name and isinstance(n.ctx, (ast.Store, ast.Del)):
                return True
        return False

    for body in lists(func):
        for i, st in enumerate(body):
            if not (isinstance(st, ast.Assign) and len(st.targets) == 1 and isinstance(st.targets[0], ast.Name)):
                continue
            name = st.targets[0].id
            d = _comp_descr(st.value)
            if d is not None:
                out.setdefault(name, []).append((d, st))
                continue
            v = st.value
            kind = None
            if isinstance(v, ast.List) and not v.elts:
                kind = 'list'
            elif isinstance(v, ast.Dict) and not v.keys:
                kind = 'dict'
            elif isinstance(v, ast.Call) and not v.args and not v.keywords and src(v.func) in _EMPTY_CTORS:
                kind = _EMPTY_CTORS[src(v.func)]
            if kind is None:
                continue
            for later in body[i + 1:]:
                if not touches(later, name):
                    continue
                if isinstance(later, ast.For) and not later.orelse:
                    fills = [s_ for s_ in later.body if touches(s_, name)]
                    if len(fills) == 1:
                        f_ = fills[0]
                        if kind == 'list' and isinstance(f_, ast.Expr) and isinstance(f_.value, ast.Call) and src(f_.value.func) == name + '.append' \
                                and len(f_.value.args) == 1 and not f_.value.keywords:
                            out.setdefault(name, []).append((('list', src(later.iter), _placeholders(later.target, [f_.value.args[0]])[0]), later))
                        elif kind == 'dict' and isinstance(f_, ast.Assign) and len(f_.targets) == 1 and isinstance(f_.targets[0], ast.Subscript) \
                                and src(f_.targets[0].value) == name:
                            out.setdefault(name, []).append((('dict', src(later.iter), _placeholders(later.target, [f_.targets[0].slice, f_.value])), later))
                        elif kind == 'dict' and isinstance(f_, ast.If) and len(f_.body) == 1 and len(f_.orelse) == 1 and \
                                all(isinstance(x_, ast.Assign) and len(x_.targets) == 1 and isinstance(x_.targets[0], ast.Subscript) and src(x_.targets[0].value) == name
                                    for x_ in (f_.body[0], f_.orelse[0])) and src(f_.body[0].targets[0].slice) == src(f_.orelse[0].targets[0].slice):
                            # the same key on both arms: the value is a conditional expression
                            val = ast.IfExp(test=f_.test, body=f_.body[0].value, orelse=f_.orelse[0].value)
                            out.setdefault(name, []).append((('dict', src(later.iter), _placeholders(later.target, [f_.body[0].targets[0].slice, val])), later))
                        elif kind == 'list' and isinstance(f_, ast.If) and len(f_.body) == 1 and len(f_.orelse) == 1 and \
                                all(isinstance(x_, ast.Expr) and isinstance(x_.value, ast.Call) and src(x_.value.func) == name + '.append' and len(x_.value.args) == 1
                                    for x_ in (f_.body[0], f_.orelse[0])):
                            val = ast.IfExp(test=f_.test, body=f_.body[0].value.args[0], orelse=f_.orelse[0].value.args[0])
                            out.setdefault(name, []).append((('list', src(later.iter), _placeholders(later.target, [val])[0]), later))
                break
    return out


def and_flag(func, flag, g=None, fl=None):
    """writes of a sticky-false boolean local: -> (inits, accs, others)
    inits : Assign nodes `flag = <expr>` that do not read the flag (the starting value)
    accs  : [(cfg node, operand text)] for writes with and-semantics: `flag = flag and E`, `flag = E and flag`, `flag &= E`, or `flag = E`
            at a point where the flag is known to be true (`if flag: flag = E`)
    others: cfg nodes of any other write (the flag can turn true again there)"""
    if g is None:
        g, fl = flow_of(func)
    inits, accs, others = [], [], []
    for n in g.stmt_nodes():
        if n.kind != 'stmt':
            continue
        a = n.ast
        if isinstance(a, ast.AugAssign) and src(a.target) == flag:
            if isinstance(a.op, ast.BitAnd):
                accs.append((n, src(a.value)))
            else:
                others.append(n)
            continue
        if not (isinstance(a, ast.Assign) and len(a.targets) == 1 and src(a.targets[0]) == flag):
            if isinstance(a, (ast.Assign, ast.For)) and any(isinstance(x, ast.Name) and x.id == flag and isinstance(x.ctx, ast.Store)
                                                          for t in (a.targets if isinstance(a, ast.Assign) else [a.target]) for x in ast.walk(t)):
                others.append(n)
            continue
        v = a.value
        reads = any(isinstance(x, ast.Name) and x.id == flag for x in ast.walk(v))
        if isinstance(v, ast.BoolOp) and isinstance(v.op, ast.And) and any(src(x) == flag for x in v.values):
            rest = [x for x in v.values if src(x) != flag]
            accs.append((n, src(rest[0]) if len(rest) == 1 else src(ast.BoolOp(op=ast.And(), values=rest))))
        elif not reads and fl.at(n) and all(fa.knows(flag) is True for fa, _c in fl.at(n)):
            accs.append((n, src(v)))
        elif not reads:
            inits.append(n)
        else:
            others.append(n)
    return inits, accs, others


def passes_before(g, start, target, through):
    """every path from start to target (start excluded) goes through one of the nodes `through`"""
    ids = set(t.id for t in through)
    seen, work = set(), [x for x, l in start.succ if not (l and l[0] == 'exc')]
    while work:
        n = work.pop()
        if n.id in seen or n.id in ids:
            continue
        seen.add(n.id)
        if n is target:
            return False
        work.extend(x for x, l in n.succ if not (l and l[0] == 'exc'))
    return True


def float_taint(repo, mod, fn, e, depth=0):
    """why the value of expression e (inside function fn of module mod) may be a float - a float literal, a true division, float(),
    total_seconds(), time.time(), or a helper (of this module, or `util.<name>` of cassandra/util.py) whose result is one - or None"""
    for x in ast.walk(e):
        if isinstance(x, ast.Constant) and isinstance(x.value, float):
            return 'float literal %r' % x.value
        if isinstance(x, ast.BinOp) and isinstance(x.op, ast.Div):
            return 'true division %s' % src(x)[:50]
        if isinstance(x, ast.Call) and isinstance(x.func, ast.Name) and x.func.id == 'float':
            return 'float()'
        if isinstance(x, ast.Call) and isinstance(x.func, ast.Attribute) and x.func.attr == 'total_seconds':
            return 'timedelta.total_seconds() is a float'
        if isinstance(x, ast.Call) and src(x.func) == 'time.time':
            return 'time.time() is a float'
        if isinstance(x, ast.Call) and depth < 3:
            callee = cmod = None
            if isinstance(x.func, ast.Name) and mod.has(x.func.id) and isinstance(mod.get(x.func.id), ast.FunctionDef):
                callee, cmod = mod.get(x.func.id), mod
            elif isinstance(x.func, ast.Attribute) and src(x.func.value) == 'util':
                um = repo.mod('cassandra/util.py')
                if um.has(x.func.attr) and isinstance(um.get(x.func.attr), ast.FunctionDef):
                    callee, cmod = um.get(x.func.attr), um
            if callee is not None:
                # a float handed to the helper, or made by it
                for r in walk_no_nested(callee):
                    if isinstance(r, ast.Return) and r.value is not None:
                        why = float_taint(repo, cmod, callee, r.value, depth + 1)
                        if why:
                            return '%s() returns a float (%s)' % (callee.name, why)
        if isinstance(x, ast.Name) and isinstance(x.ctx, ast.Load) and depth < 3:
            defs = [st for st in walk_no_nested(fn) if isinstance(st, ast.Assign) and any(isinstance(t, ast.Name) and t.id == x.id for t in st.targets)]
            if len(defs) == 1 and defs[0].value is not e:
                why = float_taint(repo, mod, fn, defs[0].value, depth + 1)
                if why:
                    return '%s = %s' % (x.id, why)
    return None


def guarded_creations(func, target, method):
    """the places where `target` gets the result of a call of `.method(...)`: [(call node, atoms true there, statement)], and the other values target is given.
    The guard may be a conditional expression around the call or an enclosing `if` (path facts)."""
    g, fl = flow_of(func)
    made, other = [], []
    for n in g.stmt_nodes():
        if not (n.kind == 'stmt' and isinstance(n.ast, ast.Assign) and len(n.ast.targets) == 1 and src(n.ast.targets[0]) == target):
            continue
        arms = [(n.ast.value, [])]
        leaves = []
        while arms:
            e, atoms = arms.pop()
            if isinstance(e, ast.IfExp):
                tv = e.test.values if isinstance(e.test, ast.BoolOp) and isinstance(e.test.op, ast.And) else [e.test]
                arms.append((e.body, atoms + [src(v) for v in tv]))
                arms.append((e.orelse, atoms))
            else:
                leaves.append((e, atoms))
        for e, atoms in leaves:
            if isinstance(e, ast.Call) and isinstance(e.func, ast.Attribute) and e.func.attr == method:
                known = None
                for fa, _c in fl.at(n):
                    ks = set(k for k, p in fa.items if p)
                    known = ks if known is None else (known & ks)
                made.append((e, set(atoms) | (known or set()), n.ast))
            else:
                other.append(e)
    return made, other
