"""Per-property manifest data.  tools/gen_manifest.py turns this into MANIFEST.json;
a property is claimed only when sa/props/<id>.py exists and is listed here."""

CLAIMS = {}


def claim(pid, category, text, technique, note, design_ref):
    CLAIMS[pid] = dict(category=category, text=text, technique=technique, note=note, design_ref=design_ref)


NOT_APPLICABLE = {
    'C36': 'equates two value-level conversions (Column.to_database + literal encoding vs cqltypes serialization) for every value, '
           'including float timestamp arithmetic and timezone offsets; nothing in the shape of the code decides that (DESIGN.md C36)',
}

claim('C03', 'other',
      'static analysis: finite-domain abstract interpretation of every request class send_body over 8 protocol versions x '
      'three-valued option valuations, compared with a hand-written specification layout; decides field order/width/flag agreement '
      'and must-reject arms, not field contents',
      'abstract interpretation of encoder ASTs over a finite domain + specification table comparison (no execution)',
      'trusted: CPython ast, the engine (sa/absint.py, sa/fold.py), /verif/spec/native_protocol.py written from the protocol specs',
      'DESIGN.md section 5 C03, section 4 F1/F2')

_TB = 'trusted: CPython ast parser and the /verif/sa engine; assumes calls not modelled by a rule have no effect on the tracked facts'

claim('C01', 'other',
      'static analysis: writer/reader mirror rules over every codec class of cqltypes.py (struct formats, per-version collection layouts by abstract '
      'interpretation, null-length handling, cursor discipline, to_binary/from_binary table, varint sign bit over all 256 byte values); '
      'decides the structural necessary conditions of the round trip, not value equality',
      'sibling (writer vs reader) layout extraction by abstract interpretation + finite byte-domain folding', _TB,
      'DESIGN.md section 5 C01')
claim('C02', 'other',
      'static analysis: extracted writer/reader layouts compared with a specification table (widths, signedness, byte order, per-version collection '
      'prefixes, date offset, decimal/duration field order), vint first-byte functions folded over all 256 byte values, overflow raises; '
      'arithmetic of varint length / zig-zag is not decided',
      'layout extraction + specification table comparison + finite-domain constant folding',
      _TB + '; /verif/spec/native_protocol.py VALUE_FORMATS written from the protocol specification section 6',
      'DESIGN.md section 5 C02')
claim('C24', 'other',
      'static analysis: three-valued guard analysis of the attempt limit (None / 0 / n>0), validation paths, shape of every yielded delay, '
      'dataflow "counter advances once per loop iteration", StopIteration handling of the reconnection handler; not the numeric jitter band',
      'three-valued guard domain + CFG dataflow + path enumeration', _TB, 'DESIGN.md section 5 C24')

claim('C04', 'other',
      'static analysis: every response decoder abstractly interpreted for all protocol versions and metadata flag combinations, its read sequence '
      '(primitive, order, role) compared with the specification; opcode / error-code / type-code registries; error info keys vs exception '
      'constructors; frame-flag prologue order. Decides layouts, not contents',
      'abstract interpretation of decoder ASTs over enumerated flag/version domain + specification and registry comparison',
      _TB + '; /verif/spec/native_protocol.py ERROR_CODES/ROWS_FLAGS/TYPE_CODES written from the protocol specifications v1-v5',
      'DESIGN.md section 5 C04')

claim('C05', 'other',
      'static analysis (narrow): header struct mirror per version, header-complete test counts the version byte, body slice bounds, dominance of the '
      'completeness test over dispatch, buffer reset / current-frame clearing on every loop path, stream-id dispatch facts. The quantifier over read '
      'split points is not decided (runtime buffer contents)',
      'struct/table agreement + CFG dataflow with branch facts (dominance / must-follow rules)', _TB, 'DESIGN.md section 5 C05')
claim('C06', 'other',
      'static analysis: bit-level mirror of encode_header/decode_header by abstract interpretation (with and without compression), framing constants, '
      'sentinel agreement of uncompressed_payload_length over {-1, 0, >0} at every selection, CRC-comparison-before-use dataflow, chunk step/slice '
      'agreement, and must-rewind on every incomplete-data path of the segment buffer',
      'abstract interpretation of bit-field expressions + finite sentinel domain + CFG path rules', _TB, 'DESIGN.md section 5 C06')

claim('C09', 'other',
      'static analysis: lock discipline of in_flight / get_request_id on the same receiver, capacity-test dominance inside the lock region, closed writer '
      'sets of the request table and id pool, exactly-one id release per response by CFG dataflow, orphan pairing across timeout and late answer, '
      'stream-id width against the header struct. Decides the lock/pairing conditions that make every interleaving safe, not the interleavings',
      'lexical lock regions + CFG dataflow with branch facts + who-may-write tables', _TB, 'DESIGN.md section 5 C09')
claim('C10', 'other',
      'static analysis: test-and-set latches of defunct()/close() in the base connection and all six reactors, must-call chain after the latch, '
      'swap-and-drain shape of error_all_requests, refusal dominance in send_msg, defunct_on_error coverage, decode-failure arm',
      'sibling cross-check over six reactors + CFG must-call dataflow + swap-and-drain reaching definitions', _TB, 'DESIGN.md section 5 C10')

claim('C11', 'other',
      'static analysis (narrow): per reactor push(): chunk step/slice agreement, a single hand-off of the whole chunk list, enqueueing inside one '
      'critical section with no suspension point, single FIFO consumer, twisted single transport.write, and that the lock idiom exists on supported '
      'Pythons. Thread interleavings themselves are not decided',
      'sibling structure rules over the reactors (syntax-directed, lock regions)', _TB, 'DESIGN.md section 5 C11')
claim('C12', 'other',
      'static analysis: dominance of the shut-down test over hand-outs, orphan return never decrements, shutdown drains every connection-holding '
      'attribute (swap-and-drain reaching definitions), trash removal implies close, created => published-or-closed on all paths incl. exceptional, '
      'publication re-checked under the pool lock',
      'CFG dataflow with exceptional edges (typestate created/published/closed) + reaching definitions', _TB, 'DESIGN.md section 5 C12')

_RF = 'DESIGN.md section 5 C13-C19'
claim('C13', 'other',
      'static analysis: every close() of a trashed / over-threshold connection is dominated by the drained predicate under connection.lock, the trash '
      'check is reached for orphaned and normal returns, _is_replacing test-and-set/reset, borrow avoids a replaced-and-closed connection, closed set of '
      'close sites', 'CFG dataflow with branch facts + lock regions + who-may-call table', _TB, _RF)
claim('C14', 'other',
      'static analysis: exactly-one-outcome on every path of the response handlers (path-insensitive count via dataflow over finite effect tuples), '
      'no-send-after-terminal typestate, sibling shape of the terminal setters and callback registration, result() fields, speculative send flag, '
      'once-latch contract (known finding)', 'CFG typestate dataflow over outcome effects + sibling cross-check', _TB, _RF)
claim('C15', 'other',
      'static analysis of the timer chain: _start_timer arms on every finite-timeout path, timer callbacks finalise or re-arm on every path, every '
      '(page) entry point frees the slot and restarts the clock before arming, deadline formula by term collection. The clock itself is not decided',
      'CFG must-reach dataflow with branch facts', _TB, _RF)
claim('C16', 'other',
      'static analysis: error-class -> policy-method dispatch table with argument roles, decision table of _handle_retry_decision enumerated over its '
      'paths, three-valued guard on the chosen consistency level (0 is a level), host choice of _retry_task, idempotence guard of speculative plans',
      'decision-table enumeration + three-valued guard domain', _TB, _RF)
claim('C17', 'other',
      'static analysis: closed writer set of query_plan with one-shot-iterator contract, single resuming consumer, must-record dataflow in _query, '
      'exhaustion report after the loop, attempted-host ordering', 'who-may-write contract + CFG dataflow', _TB, _RF)
claim('C18', 'other',
      'static analysis (narrow): single writer of the paging state, ordering of result-describing writes before the terminal outcome call, guards and '
      'ordering in start_fetching_next_page and ResultSet. Row concatenation over page sequences is not decided',
      'who-may-write + CFG ordering dataflow', _TB, _RF)
claim('C19', 'other',
      'static analysis: shape of the UNPREPARED arm (query text, keyspace iff keyspace flag, same host/connection/pool), terminal arms, no-send-after-'
      'terminal in _execute_after_prepare, re-send to the same host with fallback', 'CFG typestate dataflow + argument-role checks', _TB, _RF)

claim('C20', 'other',
      'static analysis: must-call-or-delegate dataflow for the completion callback through the four functions of the keyspace-switch chain (incl. nested '
      'completion functions), accumulate-and-report reaching definition, must-record of the pool keyspace on every path, keyspace selected before '
      'publication of new connections, confirmation-before-record in the connection',
      'CFG must-call dataflow + reaching definitions', _TB, 'DESIGN.md section 5 C20')
claim('C21', 'other',
      'static analysis: event -> set-effect table of the built-in policies (copy-on-write under _hosts_lock), white-list membership agreement across '
      'siblings, forwarding of all four events by every wrapper policy, slice agreement between distance() and plan, filter predicate dominance, '
      'population by accumulation', 'sibling cross-check + idiom classification + lock regions', _TB, 'DESIGN.md section 5 C21')
claim('C22', 'other',
      'static analysis (narrow): the two yield conditions of the token-aware plan evaluated over the finite domain replica? x is_up x distance: exact '
      'partition of the wrapped plan; source and order of replicas; fallbacks', 'finite-domain evaluation of guard ASTs', _TB, 'DESIGN.md section 5 C22')
claim('C23', 'proof',
      'the retry policy methods only compare their arguments, so their CFG paths form a complete finite decision table; every row is enumerated '
      '(with _pick_consistency inlined) and every assertion of the property is discharged per row; exhaustive over all inputs under the stated '
      'coordinator assumptions', 'exhaustive CFG path enumeration of comparison-only functions (decision tables)',
      'trusted: CPython ast, sa/cfg.py path enumeration and atom normalisation; assumptions listed in the evidence', 'DESIGN.md section 5 C23')

claim('C25', 'other',
      'static analysis: atomic swap + cancel-displaced contract at every call site, must-call chain of the marked-down path, single handler install/start, '
      're-test of _cancelled after a successful connect (typestate), flag set/reset on all exits incl. exceptional, listener notification after every '
      'set_up(), shutdown guards', 'CFG typestate / must-call dataflow with exceptional edges + contract per call site', _TB, 'DESIGN.md section 5 C25')
claim('C26', 'other',
      'static analysis (narrow): every append to a replica list is dominated by a non-membership fact (directly or through a de-duplicated holding '
      'list), stop conditions, ring wrap-around, bisect_left lookup. Equality with Cassandra\'s placement over all rings is not decided',
      'CFG dataflow with branch facts (append guards)', _TB, 'DESIGN.md section 5 C26')
claim('C27', 'other',
      'static analysis: shape of the escaping functions, regex AST of the bare-word pattern (anchors, character classes), decision table of '
      'is_valid_name/maybe_escape_name, folded reserved-word sets, and a who-may-interpolate rule over every quoted %s placeholder in generated CQL '
      '(schema export, USE)', 'regex AST (re._parser) + path enumeration + constant folding + format-string placeholder analysis', _TB, 'DESIGN.md section 5 C27')

claim('C28', 'other',
      'static analysis (narrow): registry triples against a specification table, notation helpers, UDT parameter positions and hex decoding, cache '
      'validity atoms of make_udt_class, and that numbers are parsed only as vector parameters (dataflow fact). Parse/print identities over unbounded '
      'nesting are not decided', 'registry extraction + atom normalisation + CFG branch facts', _TB, 'DESIGN.md section 5 C28')
claim('C29', 'other',
      'static analysis (narrow): taint shape of bind_params, quoting of textual encoders and of the dispatch fallback, recursion of collection encoders '
      'through the mapping, sibling agreement of the datetime/date literal encoders with the prepared-path codecs, lossy-conversion rule',
      'taint-shape rules + sibling cross-check', _TB, 'DESIGN.md section 5 C29')
claim('C30', 'other',
      'static analysis: decision facts of BoundStatement.bind by CFG dataflow (missing / extra / UNSET / None x protocol version), dominance of the '
      'routing-key refusal over the UNSET append, component layout of composite routing keys, sibling rule Statement vs BoundStatement, partition-key order '
      'of derived routing indexes', 'CFG dataflow with branch facts + layout constant folding + sibling cross-check', _TB, 'DESIGN.md section 5 C30')

claim('C31', 'proof',
      'lock obligations (single writer set of self.last, single locked call site with clock and last read inside the region) plus exhaustive enumeration '
      'of the two rows of the comparison-only function _next_timestamp with the order assertions (> last, >= now, stored == returned) discharged per row',
      'who-may-write + lexical lock regions + exhaustive path enumeration of a comparison-only function',
      'trusted: CPython ast, sa/cfg.py path enumeration; assumes threading.Lock gives mutual exclusion and x + positive literal > x', 'DESIGN.md section 5 C31')
claim('C32', 'other',
      'static analysis: index hand-over on the three completion arms and ordering by index, started-count advanced before starting (dataflow), at most '
      'one new start per completion under the condition (path counting), fail-fast raises, once-latch contract for completions on a call-graph cycle',
      'CFG dataflow + call-cycle detection + argument-role checks', _TB, 'DESIGN.md section 5 C32')
claim('C33', 'other',
      'static analysis (narrow): paired-state rule for OrderedMap (_items/_index), serialized-key discipline, insertion guard facts of SortedSet.add, '
      'accumulator-feedback rule of the multi-operand operations, in-place operator shape. Set/map algebra over operation sequences is not decided',
      'who-may-write pairing + CFG branch facts + syntax-directed rules', _TB, 'DESIGN.md section 5 C33')
claim('C34', 'other',
      'static analysis (narrow): two-sided interval validation of Time by path enumeration, folded unit constants, epoch-offset agreement, the min/max '
      'UUID literals folded through uuid_from_time\'s own packing expressions against the LOWEST/HIGHEST constants, Date print/parse format. Calendar and '
      'float arithmetic are not decided', 'path enumeration + constant folding of packing expressions', _TB, 'DESIGN.md section 5 C34')

claim('C35', 'other',
      'static analysis (narrow): opposite-operator rule on the static-only flags, name-kind agreement (db_field_name) at every statement/condition site, '
      'truth table of the deleted predicate over its three boolean atoms, save/update/delete flow guards. That the emitted CQL leaves the row equal to the '
      'instance is not decided', 'sibling-arm operator agreement + name-kind dataflow + finite truth table', _TB, 'DESIGN.md section 5 C35')
claim('C37', 'other',
      'static analysis: finite-domain abstract interpretation of every container clause (render / bind / count) over all None-empty-nonempty valuations '
      'and comparison of the three results; renumber/bind/render list agreement per statement class along the super() chain (each list once); adder and '
      'batch context arithmetic', 'abstract interpretation over a three-valued domain + MRO chain analysis', _TB, 'DESIGN.md section 5 C37')
claim('C38', 'other',
      'static analysis (narrow): construction of the key serializer from the partition-key columns in key order, placement of key values by index, and '
      'the attach guard (is None, not truthiness). Equality with Cassandra\'s encoding for all values is C01/C02',
      'syntax-directed dataflow inside the metaclass body + guard shape', _TB, 'DESIGN.md section 5 C38')

claim('C39', 'other',
      'static analysis: nullness rule (a may-be-None cell reaches decrypt only under a not-null guard) in the pure-Python decoder and, through the Cython '
      'parser, in obj_parser.pyx; bind/decode sibling agreement on column descriptor, codec source and cipher/codec order; AES policy IV/padding symmetry',
      'nullness dataflow + sibling cross-check across .py and .pyx parse trees', _TB + '; Cython.Compiler parser from the repository environment', 'DESIGN.md section 5 C39')
claim('C40', 'other',
      'static analysis (narrow): serializer registry (incl. specialisations) closed under the same version\'s deserializer table, unique tags, three-valued '
      'guard on "@value", serialize/deserialize pairing. Value round trips are not decided', 'registry extraction and closure + three-valued guard domain', _TB, 'DESIGN.md section 5 C40')
claim('C41', 'proof',
      'get_lower_supported folded over the whole finite version domain; protocol_downgrade enumerated row by row; closed writer set of protocol_version; every '
      'exit of the connect loop body classified (break / raise / downgrade) so the loop decreases a value of a finite set or leaves; unsupported-version '
      'conversion facts', 'finite-domain constant folding + exhaustive path enumeration + loop-exit classification',
      'trusted: CPython ast, sa/fold.py, sa/cfg.py; assumes protocol_downgrade is reached only from _try_connect', 'DESIGN.md section 5 C41')

claim('C42', 'other',
      'static analysis: truth table of _is_valid_peer over all field-presence combinations; skip-before-use of invalid and duplicate rows; the three change '
      'arms (new / existing / vanished host) each act and raise the rebuild flag, with the location comparison evaluated unconditionally (not a lazy '
      'short-circuit operand); rebuild guard facts; on_down/on_up bracket of a location change; test-and-set metadata mutators under the hosts lock. '
      'Sequences of snapshots are not decided', 'finite truth table + syntax-directed must-evaluate rule + CFG branch facts + lock regions', _TB, 'DESIGN.md section 5 C42')

claim('C43', 'other',
      'static analysis: the peer-counting guard folded over known x is_up in {None, False, True}; verdict facts of _get_schema_mismatches (None iff one version); '
      'wait loop: True only right after a fresh mismatch computation that returned None, False only after the loop condition failed, elapsed refreshed on every '
      'path to the loop test; _refresh_schema verdict facts and the schema-change future recording it. Snapshot sequences and the clock are not decided',
      'finite-domain guard folding + CFG dataflow with branch facts and freshness state', _TB, 'DESIGN.md section 5 C43')

claim('C44', 'other',
      'static analysis: branch facts of the three arms of a heartbeat round (dead / idle / busy), closed writer set of the traffic flag, pairing of the capacity unit '
      '(taken under the lock only when sent, returned under the same connection\'s lock only after a normal wait), derivation of every failure record from the '
      'future that failed (reaching definitions inside the loop), unconditional defunct+return for each record, decision facts of HeartbeatFuture.wait and its callback',
      'CFG dataflow with branch facts + lock regions + who-may-write + loop-local reaching definitions', _TB, 'DESIGN.md section 5 C44')

claim('C45', 'other',
      'static analysis: test-and-set latches of the three shutdown() methods, must-follow cascade after each latch, check-under-the-latch-lock rule at every site of '
      'cluster.py that installs a fresh connection or pool into long-lived state (with close on the shut-down arm), consumer rule for every created connection '
      '(installed through the guarded installer, returned, or closed in finally/except), refusal facts at the gates that start new work',
      'lock regions + CFG dataflow with branch facts + who-may-write + consumer (must-close / must-hand-over) rule', _TB, 'DESIGN.md section 5 C45')

claim('C46', 'other',
      'static analysis: the fallback expressions of Session._create_response_future folded over a three-valued statement domain (unset / set-but-falsy / set) in both '
      'configuration arms, identity-sentinel facts for timeout and fetch size, same-name source rule for profile attributes, argument-to-parameter binding of every '
      'message constructor and of ResponseFuture against their signatures, single-definition rule, BoundStatement/Statement inheritance guards',
      'finite-domain folding of guard expressions + call-signature binding + CFG branch facts', _TB, 'DESIGN.md section 5 C46')

claim('C47', 'other',
      'static analysis: every connected_event.set() site of connection.py and the six reactors is either in a success arm (READY / AUTH_SUCCESS branch facts) or preceded by a '
      'last_error record on all paths where the event was not yet set; decision facts of Connection.factory; classification of every raise of the startup/auth handlers by '
      'reply type; exits of the handlers (ready / next message sent / defunct); compression and checksumming enabled only in post-STARTUP arms, in order, checksumming under the '
      'folded version predicate; value-identity dataflow between the algorithm announced in STARTUP and the stored codec pair; overlap/explicit-choice facts',
      'CFG dataflow with branch facts and custom state + sibling check over six reactors + who-may-write + finite-domain folding', _TB, 'DESIGN.md section 5 C47')

claim('C07', 'other',
      'static analysis across .pyx (Cython parser), .c (token tables) and .py: per-type width/signedness agreement of 23 Des<Name>/cqltypes pairs, typed-local narrowing rule, '
      'null/empty decision table of the compiled from_binary vs the pure one (12 points, folded), collection prefix types by version, tuple null test, dispatch chain order and '
      'class pairing of find_deserializer, row-parser metadata sources, the protocol handler swap, and a table comparison of cmurmur3.c with murmur3.py (constants, rotations, '
      'tail case table folded over every tail length, byte signedness, finalisation). Value equality of float/datetime arithmetic is not decided',
      'sibling cross-check over Cython parse trees, C token tables and Python ASTs + finite-domain folding',
      _TB + '; Cython.Compiler parser from the repository environment; regular-expression token extraction from cmurmur3.c', 'DESIGN.md section 5 C07')

claim('C08', 'other',
      'static analysis (narrow): murmur3.py and cmurmur3.c each compared, fact by fact, with a reference table of Cassandra\'s MurmurHash3 x64_128 (constants, rotation '
      'amounts, block mix, fmix multipliers and logical shifts, multiplication/xor/add sequences, the tail (register, byte, shift) set folded for every tail length 0..15, '
      'sign-extended tail bytes, seed, finalisation, wrap to signed 64 bits); Murmur3Token normalisation folded over 7 boundary values; MD5Token / BytesToken shape; partitioner table. '
      'Equality of the hash with Cassandra\'s for all keys is not decided as arithmetic',
      'table extraction from Python AST and C tokens + comparison with a reference table + finite-domain folding',
      _TB + '; /verif/spec/murmur3.py written from Cassandra\'s MurmurHash / partitioner sources', 'DESIGN.md section 5 C08')
