"""Per-property manifest data.  tools/gen_manifest.py turns this into MANIFEST.json;
a property is claimed only when sa/props/<id>.py exists and is listed here."""

CLAIMS = {}


def claim(pid, category, text, technique, note, design_ref):
    CLAIMS[pid] = dict(category=category, text=text, technique=technique, note=note, design_ref=design_ref)


NOT_APPLICABLE = {
    'C36': 'equates two value-level conversions (Column.to_database + literal encoding vs cqltypes serialization) for every value, '
           'including float timestamp arithmetic and timezone offsets; nothing in the shape of the code decides that (DESIGN.md C36)',
}

claim('C03', 'other',
      'static analysis: finite-domain abstract interpretation of every request class send_body over 8 protocol versions x '
      'three-valued option valuations, compared with a hand-written specification layout; decides field order/width/flag agreement '
      'and must-reject arms, not field contents',
      'abstract interpretation of encoder ASTs over a finite domain + specification table comparison (no execution)',
      'trusted: CPython ast, the engine (sa/absint.py, sa/fold.py), /verif/spec/native_protocol.py written from the protocol specs',
      'DESIGN.md section 5 C03, section 4 F1/F2')
