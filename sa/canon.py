"""Canonical form of a parsed module, applied once at load time so that the rules see the same tree for
behaviour-preserving spellings of the same program:

  * logging statements `log.<level>(...)` are removed (they have no effect on any tracked fact);
  * `if not c: A else: B` becomes `if c: B else: A` (also for conditional expressions); `not (x is None)` becomes
    `x is not None`, likewise for `is not`, `==`, `!=`, `in`, `not in`;
  * the local variables of a function are alpha-renamed to the names recorded for that function in
    /verif/spec/locals.json (the names on the tree the rules were written against), positionally by order of first
    binding, when the function still binds the same number of locals and no recorded name collides with another name
    used in the function.  A consistent renaming of locals never changes behaviour, so it can neither hide nor create
    a violation; when the precondition fails the function is left as it is.
"""
import ast
import json
import os

LEVELS = ('debug', 'info', 'warning', 'warn', 'error', 'exception', 'critical', 'log')
_NEG = {ast.Is: ast.IsNot, ast.IsNot: ast.Is, ast.Eq: ast.NotEq, ast.NotEq: ast.Eq, ast.In: ast.NotIn, ast.NotIn: ast.In}
_REF = None


def reference():
    global _REF
    if _REF is None:
        p = os.path.join(os.path.dirname(os.path.dirname(os.path.abspath(__file__))), 'spec', 'locals.json')
        try:
            with open(p) as f:
                _REF = json.load(f)
        except (IOError, ValueError):
            _REF = {}
    return _REF


def is_log_stmt(st):
    return isinstance(st, ast.Expr) and isinstance(st.value, ast.Call) and isinstance(st.value.func, ast.Attribute) \
        and isinstance(st.value.func.value, ast.Name) and st.value.func.value.id == 'log' and st.value.func.attr in LEVELS


_POS = {ast.IsNot: ast.Is, ast.NotEq: ast.Eq, ast.NotIn: ast.In}


def _negative(t):
    """a two-armed conditional is spelled with its positive test first"""
    if isinstance(t, ast.UnaryOp) and isinstance(t.op, ast.Not):
        return True
    return isinstance(t, ast.Compare) and len(t.ops) == 1 and type(t.ops[0]) in _POS


def _positive(t):
    if isinstance(t, ast.UnaryOp):
        return t.operand
    t.ops = [_POS[type(t.ops[0])]()]
    return t


class _Shape(ast.NodeTransformer):
    def _strip(self, body):
        out = [st for st in body if not is_log_stmt(st)]
        if not out and body:
            p = ast.Pass()
            ast.copy_location(p, body[0])
            out = [p]
        return out

    def generic_visit(self, node):
        super().generic_visit(node)
        for fld in ('body', 'orelse', 'finalbody'):
            b = getattr(node, fld, None)
            if isinstance(b, list) and b and isinstance(b[0], ast.stmt):
                setattr(node, fld, self._strip(b))
        return node

    def visit_If(self, node):
        self.generic_visit(node)
        while node.orelse and not (len(node.orelse) == 1 and isinstance(node.orelse[0], ast.If)) and _negative(node.test):
            node.test = _positive(node.test)
            node.body, node.orelse = node.orelse, node.body
        return node

    def visit_IfExp(self, node):
        self.generic_visit(node)
        while _negative(node.test):
            node.test = _positive(node.test)
            node.body, node.orelse = node.orelse, node.body
        return node

    def visit_UnaryOp(self, node):
        self.generic_visit(node)
        if isinstance(node.op, ast.Not) and isinstance(node.operand, ast.Compare) and len(node.operand.ops) == 1 and type(node.operand.ops[0]) in _NEG:
            c = node.operand
            c.ops = [_NEG[type(c.ops[0])]()]
            return c
        return node


SCOPES = (ast.FunctionDef, ast.AsyncFunctionDef, ast.Lambda, ast.ClassDef)
COMPS = (ast.ListComp, ast.SetComp, ast.DictComp, ast.GeneratorExp)


def _children_in_order(node):
    for fld in node._fields:
        v = getattr(node, fld, None)
        if isinstance(v, list):
            for x in v:
                if isinstance(x, ast.AST):
                    yield x
        elif isinstance(v, ast.AST):
            yield v


def params_of(f):
    a = f.args
    out = [x.arg for x in getattr(a, 'posonlyargs', []) + a.args + a.kwonlyargs]
    for x in (a.vararg, a.kwarg):
        if x is not None:
            out.append(x.arg)
    return out


def ordered_locals(f):
    """names bound in f's own scope, by order of first binding in source order (parameters, global/nonlocal names excluded)."""
    params = set(params_of(f))
    declared = set()
    out = []

    def add(n):
        if n not in params and n not in declared and n not in out:
            out.append(n)

    def rec(node):
        for ch in _children_in_order(node):
            if isinstance(ch, SCOPES):
                if isinstance(ch, (ast.FunctionDef, ast.AsyncFunctionDef, ast.ClassDef)):
                    add(ch.name)
                continue
            if isinstance(ch, COMPS):
                # the first iterable is evaluated in the enclosing scope, nothing is bound there
                continue
            if isinstance(ch, (ast.Global, ast.Nonlocal)):
                declared.update(ch.names)
                continue
            if isinstance(ch, ast.Name) and isinstance(ch.ctx, (ast.Store, ast.Del)):
                add(ch.id)
            elif isinstance(ch, ast.ExceptHandler) and ch.name:
                add(ch.name)
            elif isinstance(ch, ast.alias):
                add((ch.asname or ch.name).split('.')[0])
            # value before targets for assignments: source order of *binding* is what matters, and it is the statement order
            rec(ch)
    # assignments: visit targets in statement order (ast field order puts targets first; fine, it is consistent)
    rec(f)
    return [n for n in out if n not in declared]


def _all_names(f):
    out = set()
    for n in ast.walk(f):
        if isinstance(n, ast.Name):
            out.add(n.id)
        elif isinstance(n, ast.arg):
            out.add(n.arg)
    return out


def _rename(f, mapping):
    def bound_in(scope):
        if isinstance(scope, (ast.FunctionDef, ast.AsyncFunctionDef)):
            return set(params_of(scope)) | set(ordered_locals(scope))
        if isinstance(scope, ast.Lambda):
            return set(params_of(scope))
        if isinstance(scope, COMPS):
            b = set()
            for g in scope.generators:
                for x in ast.walk(g.target):
                    if isinstance(x, ast.Name):
                        b.add(x.id)
            return b
        return set()

    def rec(node, active):
        for ch in _children_in_order(node):
            act = active
            if isinstance(ch, (ast.FunctionDef, ast.AsyncFunctionDef)) and ch.name in active:
                ch.name = active[ch.name]
            if isinstance(ch, (ast.FunctionDef, ast.AsyncFunctionDef, ast.Lambda) + COMPS):
                nl = set()
                if isinstance(ch, (ast.FunctionDef, ast.AsyncFunctionDef)):
                    for x in ast.walk(ch):
                        if isinstance(x, ast.Nonlocal):
                            nl.update(x.names)
                b = bound_in(ch) - nl
                if b & set(active):
                    act = dict((k, v) for k, v in active.items() if k not in b)
            elif isinstance(ch, ast.ClassDef):
                continue
            if isinstance(ch, ast.Name) and ch.id in act:
                ch.id = act[ch.id]
            elif isinstance(ch, ast.ExceptHandler) and ch.name in act:
                ch.name = act[ch.name]
            elif isinstance(ch, ast.Nonlocal):
                ch.names = [act.get(n, n) for n in ch.names]
            rec(ch, act)
    rec(f, mapping)


def canonicalise(tree, rel):
    tree = _Shape().visit(tree)
    ast.fix_missing_locations(tree)
    ref = reference().get(rel, {})
    renamed = 0
    if ref:
        def visit(node, prefix):
            nonlocal renamed
            for ch in ast.iter_child_nodes(node):
                if isinstance(ch, (ast.FunctionDef, ast.AsyncFunctionDef, ast.ClassDef)):
                    q = prefix + ch.name
                    visit(ch, q + '.')
                    if isinstance(ch, (ast.FunctionDef, ast.AsyncFunctionDef)) and q in ref:
                        cur = ordered_locals(ch)
                        want = ref[q]
                        if cur != want and len(cur) == len(want):
                            mapping = dict((c, w) for c, w in zip(cur, want) if c != w)
                            others = _all_names(ch) - set(cur)
                            if not (set(mapping.values()) & others) and len(set(want)) == len(want):
                                # two-step to allow permutations
                                tmp = dict((c, '__canon_%d__' % i) for i, c in enumerate(mapping))
                                _rename(ch, tmp)
                                _rename(ch, dict((tmp[c], mapping[c]) for c in mapping))
                                renamed += 1
                elif isinstance(ch, (ast.If, ast.Try, ast.With, ast.For, ast.While, ast.ExceptHandler)):
                    visit(ch, prefix)
        visit(tree, '')
    tree._canon_renamed = renamed
    return tree
