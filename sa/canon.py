"""Canonical form of a parsed module, applied once at load time so that the rules see the same tree for
behaviour-preserving spellings of the same program:

  * logging statements `log.<level>(...)` are removed (they have no effect on any tracked fact);
  * `if not c: A else: B` becomes `if c: B else: A` (also for conditional expressions); `not (x is None)` becomes
    `x is not None`, likewise for `is not`, `==`, `!=`, `in`, `not in`;
  * an `else` after an arm that always leaves the block (return / raise / continue / break) is flattened: the guard arm
    stays in the `if`, the other arm follows it; `if a: (if b: X)` without any `else` becomes `if a and b: X`;
    `x = x <op> e` on a plain name or attribute becomes `x <op>= e`;
  * relative to the reference tree (the tree the rules were written against, spec/locals.json + spec/compares.json):
    a local that the reference does not know, assigned once and read once as the first thing the next statement
    evaluates, is substituted back (and dropped when it is never read and its value has no effect); a comparison
    `a < b` whose mirrored spelling `b > a` is the one the reference has is mirrored back;
  * the local variables of a function are alpha-renamed to the names recorded for that function in
    /verif/spec/locals.json (the names on the tree the rules were written against): locals whose name is recorded keep
    it; the others are matched, by order of first binding, with the recorded names that are no longer bound; only when
    the function still binds the same number of locals and no recorded name collides with another name used in the
    function.  A consistent renaming of locals never changes behaviour, so it can neither hide nor create
    a violation; when the precondition fails the function is left as it is.
"""
import ast
import json
import os

LEVELS = ('debug', 'info', 'warning', 'warn', 'error', 'exception', 'critical', 'log')
_NEG = {ast.Is: ast.IsNot, ast.IsNot: ast.Is, ast.Eq: ast.NotEq, ast.NotEq: ast.Eq, ast.In: ast.NotIn, ast.NotIn: ast.In}
_REF = None
_REFC = None
PREPASS_RENAME = False      # renaming is a move of the search towards the reference text (see towards)


def reference():
    global _REF
    if _REF is None:
        p = os.path.join(os.path.dirname(os.path.dirname(os.path.abspath(__file__))), 'spec', 'locals.json')
        try:
            with open(p) as f:
                _REF = json.load(f)
        except (IOError, ValueError):
            _REF = {}
    return _REF


def reference_compares():
    global _REFC
    if _REFC is None:
        p = os.path.join(os.path.dirname(os.path.dirname(os.path.abspath(__file__))), 'spec', 'compares.json')
        try:
            with open(p) as f:
                _REFC = json.load(f)
        except (IOError, ValueError):
            _REFC = {}
    return _REFC


def is_log_stmt(st):
    return isinstance(st, ast.Expr) and isinstance(st.value, ast.Call) and isinstance(st.value.func, ast.Attribute) \
        and isinstance(st.value.func.value, ast.Name) and st.value.func.value.id == 'log' and st.value.func.attr in LEVELS


_POS = {ast.IsNot: ast.Is, ast.NotEq: ast.Eq, ast.NotIn: ast.In}


def _negative(t):
    """a two-armed conditional is spelled with its positive test first"""
    if isinstance(t, ast.UnaryOp) and isinstance(t.op, ast.Not):
        return True
    return isinstance(t, ast.Compare) and len(t.ops) == 1 and type(t.ops[0]) in _POS


def _positive(t):
    if isinstance(t, ast.UnaryOp):
        return t.operand
    t.ops = [_POS[type(t.ops[0])]()]
    return t



def _terminates(body):
    if not body:
        return False
    last = body[-1]
    if isinstance(last, (ast.Return, ast.Raise, ast.Continue, ast.Break)):
        return True
    if isinstance(last, ast.If) and last.orelse:
        return _terminates(last.body) and _terminates(last.orelse)
    return False


def negate(t):
    if isinstance(t, ast.UnaryOp) and isinstance(t.op, ast.Not):
        return t.operand
    if isinstance(t, ast.Compare) and len(t.ops) == 1 and type(t.ops[0]) in _NEG:
        t.ops = [_NEG[type(t.ops[0])]()]
        return t
    return ast.copy_location(ast.UnaryOp(op=ast.Not(), operand=t), t)


def _plain(e):
    return isinstance(e, ast.Name) or (isinstance(e, ast.Attribute) and _plain(e.value))


def _same(a, b):
    if type(a) is not type(b):
        return False
    if isinstance(a, ast.Name):
        return a.id == b.id
    if isinstance(a, ast.Attribute):
        return a.attr == b.attr and _same(a.value, b.value)
    return False


class _Shape(ast.NodeTransformer):
    def __init__(self, ref_tests=None):
        self.ref_tests = ref_tests or {}
        self.prefix = ''
        self.tests = ()

    def _scope(self, node, is_func):
        saved = (self.prefix, self.tests)
        q = self.prefix + node.name
        self.prefix = q + '.'
        if is_func:
            self.tests = self.ref_tests.get(q, ())
            if not hasattr(self, 'funcs'):
                self.funcs = []
            self.funcs.append(node)
        node = self.generic_visit(node)
        if is_func:
            self.funcs.pop()
        self.prefix, self.tests = saved
        return node

    def visit_FunctionDef(self, node):
        return self._scope(node, True)

    def visit_AsyncFunctionDef(self, node):
        return self._scope(node, True)

    def visit_ClassDef(self, node):
        return self._scope(node, False)

    def _strip(self, body):
        out = [st for st in body if not is_log_stmt(st)]
        if not out and body:
            p = ast.Pass()
            ast.copy_location(p, body[0])
            out = [p]
        return out

    def generic_visit(self, node):
        super().generic_visit(node)
        for fld in ('body', 'orelse', 'finalbody'):
            b = getattr(node, fld, None)
            if isinstance(b, list) and b and isinstance(b[0], ast.stmt):
                setattr(node, fld, self._flatten(self._unpack(self._locks(self._strip(b)))))
        return node

    def _unpack(self, body):
        """`a, t = X; b, c = t` (t used nowhere else)  ->  `a, (b, c) = X`"""
        fn = self.funcs[-1] if getattr(self, 'funcs', None) else None
        if fn is None:
            return body
        out = list(body)
        i = 0
        while i + 1 < len(out):
            st, nx = out[i], out[i + 1]
            if isinstance(st, ast.Assign) and len(st.targets) == 1 and isinstance(st.targets[0], ast.Tuple) and \
                    isinstance(nx, ast.Assign) and len(nx.targets) == 1 and isinstance(nx.targets[0], ast.Tuple) and isinstance(nx.value, ast.Name) and \
                    all(isinstance(e, ast.Name) for e in nx.targets[0].elts):
                t = nx.value.id
                slots = [k for k, e in enumerate(st.targets[0].elts) if isinstance(e, ast.Name) and e.id == t]
                uses = [x for x in ast.walk(fn) if isinstance(x, ast.Name) and x.id == t]
                if len(slots) == 1 and len(uses) == 2:
                    st.targets[0].elts[slots[0]] = nx.targets[0]
                    del out[i + 1]
                    continue
            i += 1
        return out

    def _locks(self, body):
        """`X.acquire(); try: B finally: X.release()`  ->  `with X: B`   (and the awaited asyncio form -> `async with X: B`)"""
        out = []
        i = 0
        while i < len(body):
            st = body[i]
            nxt = body[i + 1] if i + 1 < len(body) else None
            call = None
            is_async = False
            if isinstance(st, ast.Expr):
                v = st.value
                if isinstance(v, ast.Await):
                    v, is_async = v.value, True
                if isinstance(v, ast.Call) and isinstance(v.func, ast.Attribute) and v.func.attr == 'acquire' and not v.args and not v.keywords and _plain(v.func.value):
                    call = v
            if call is not None and isinstance(nxt, ast.Try) and not nxt.handlers and not nxt.orelse and len(nxt.finalbody) == 1:
                fin = nxt.finalbody[0]
                if isinstance(fin, ast.Expr) and isinstance(fin.value, ast.Call) and isinstance(fin.value.func, ast.Attribute) and fin.value.func.attr == 'release' \
                        and not fin.value.args and ast.dump(fin.value.func.value) == ast.dump(call.func.value):
                    item = ast.withitem(context_expr=call.func.value, optional_vars=None)
                    w = (ast.AsyncWith if is_async else ast.With)(items=[item], body=nxt.body)
                    out.append(ast.copy_location(w, st))
                    i += 2
                    continue
            out.append(st)
            i += 1
        return out

    def visit_For(self, node):
        """a loop over a literal table of tuples - `for a, b in ((1, X), (2, Y)): body` - is its body once per row, with the row's
        constants in place of the loop variables (rows hold only constants and dotted names the body does not assign)"""
        self.generic_visit(node)
        import copy
        it, tg = node.iter, node.target
        if node.orelse or not isinstance(it, (ast.Tuple, ast.List)) or not (2 <= len(it.elts) <= 6) or len(node.body) > 3:
            return node
        names = [e.id for e in tg.elts] if isinstance(tg, ast.Tuple) and all(isinstance(e, ast.Name) for e in tg.elts) else None
        if not names:
            return node
        fn = self.funcs[-1] if getattr(self, 'funcs', None) else None
        if fn is None:
            return node
        inside = set(id(x) for x in ast.walk(node))
        if any(isinstance(x, ast.Name) and x.id in names and id(x) not in inside for x in ast.walk(fn)):
            return node     # the loop variables are used outside the loop as well
        rows = []
        for r in it.elts:
            cells = [r] if isinstance(tg, ast.Name) else (list(r.elts) if isinstance(r, (ast.Tuple, ast.List)) and len(r.elts) == len(names) else None)
            if cells is None or not all(isinstance(c, ast.Constant) or (_plain(c) and not isinstance(c, ast.Subscript)) for c in cells):
                return node
            rows.append(cells)
        inner = [x for st in node.body for x in ast.walk(st)]
        if any(isinstance(x, (ast.Break, ast.Continue) + SCOPES) or isinstance(x, COMPS) for x in inner):
            return node
        assigned = set(x.id for x in inner if isinstance(x, ast.Name) and isinstance(x.ctx, (ast.Store, ast.Del)))
        roots = set()
        for cells in rows:
            for c in cells:
                for x in ast.walk(c):
                    if isinstance(x, ast.Name):
                        roots.add(x.id)
        if assigned & (set(names) | roots):
            return node
        # the loop variables must not be read after the loop (they would keep the last row's values): only safe when the body's every path is
        # self-contained; accept when no statement after the loop in the same function reads them - approximated by requiring fresh, loop-only names
        out = []
        for cells in rows:
            sub = dict(zip(names, cells))

            class _S(ast.NodeTransformer):
                def visit_Name(s_, n):
                    if isinstance(n.ctx, ast.Load) and n.id in sub:
                        return ast.copy_location(copy.deepcopy(sub[n.id]), n)
                    return n
            for st in node.body:
                out.append(_S().visit(copy.deepcopy(st)))
        self._unrolled = getattr(self, '_unrolled', 0) + 1
        return out

    def visit_With(self, node):
        self.generic_visit(node)
        # `with a, b:` is `with a: with b:`
        while len(node.items) > 1:
            inner = ast.copy_location(ast.With(items=node.items[1:], body=node.body), node)
            node.items = node.items[:1]
            node.body = [inner]
        return node

    def _flatten(self, body):
        out = list(body)
        i = 0
        while i < len(out):
            st = out[i]
            if isinstance(st, ast.If) and st.orelse:
                if _terminates(st.body):
                    if _terminates(st.orelse) and self.tests and ast.unparse(st.test) not in self.tests:
                        # both arms leave the block: either may be spelled as the guard; keep the spelling the reference has
                        import copy
                        alt = negate(copy.deepcopy(st.test))
                        if ast.unparse(alt) in self.tests:
                            st.test = alt
                            st.body, st.orelse = st.orelse, st.body
                    rest, st.orelse = st.orelse, []
                    out[i + 1:i + 1] = rest
                elif _terminates(st.orelse):
                    st.test = negate(st.test)
                    rest, st.body, st.orelse = st.body, st.orelse, []
                    out[i + 1:i + 1] = rest
            i += 1
        return out

    def visit_Assign(self, node):
        self.generic_visit(node)
        # `a, b = (x, y)` with plain names on the left and values that read none of them is `a = x; b = y`
        if len(node.targets) == 1 and isinstance(node.targets[0], ast.Tuple) and isinstance(node.value, ast.Tuple) and \
                len(node.targets[0].elts) == len(node.value.elts) >= 2 and all(isinstance(t, ast.Name) for t in node.targets[0].elts) and \
                not any(isinstance(v, ast.Starred) for v in node.value.elts):
            names = set(t.id for t in node.targets[0].elts)
            reads = set(x.id for v in node.value.elts for x in ast.walk(v) if isinstance(x, ast.Name))
            calls_after_first = any(isinstance(x, (ast.Call, ast.Await, ast.Yield, ast.YieldFrom)) for v in node.value.elts[1:] for x in ast.walk(v))
            if len(names) == len(node.targets[0].elts) and not (names & reads) and not (calls_after_first and False):
                return [ast.copy_location(ast.Assign(targets=[t], value=v), node) for t, v in zip(node.targets[0].elts, node.value.elts)]
        if len(node.targets) == 1 and isinstance(node.value, ast.BinOp) and _plain(node.targets[0]) \
                and _same(node.targets[0], node.value.left):
            new = ast.AugAssign(target=node.targets[0], op=node.value.op, value=node.value.right)
            return ast.copy_location(new, node)
        return node

    @staticmethod
    def _unbool(t):
        # in a truth-test position bool(e) is e
        while isinstance(t, ast.Call) and isinstance(t.func, ast.Name) and t.func.id == 'bool' and len(t.args) == 1 and not t.keywords and not isinstance(t.args[0], ast.Starred):
            t = t.args[0]
        if isinstance(t, ast.UnaryOp) and isinstance(t.op, ast.Not):
            t.operand = _Shape._unbool(t.operand)
        elif isinstance(t, ast.BoolOp):
            t.values = [_Shape._unbool(v) for v in t.values]
        return t

    def visit_While(self, node):
        self.generic_visit(node)
        node.test = self._unbool(node.test)
        return node

    def visit_If(self, node):
        self.generic_visit(node)
        node.test = self._unbool(node.test)
        # an arm that only holds `pass` is no arm
        if node.orelse and all(isinstance(x, ast.Pass) for x in node.orelse):
            node.orelse = []
        if node.orelse and all(isinstance(x, ast.Pass) for x in node.body):
            node.test = negate(node.test)
            node.body, node.orelse = node.orelse, []
        if not node.orelse and len(node.body) == 1 and isinstance(node.body[0], ast.If) and not node.body[0].orelse:
            inner = node.body[0]
            vals = []
            for t in (node.test, inner.test):
                vals.extend(t.values if isinstance(t, ast.BoolOp) and isinstance(t.op, ast.And) else [t])
            node.test = ast.copy_location(ast.BoolOp(op=ast.And(), values=vals), node.test)
            node.body = inner.body
        while node.orelse and not (len(node.orelse) == 1 and isinstance(node.orelse[0], ast.If)) and _negative(node.test):
            node.test = _positive(node.test)
            node.body, node.orelse = node.orelse, node.body
        return node

    def visit_IfExp(self, node):
        self.generic_visit(node)
        node.test = self._unbool(node.test)
        while _negative(node.test):
            node.test = _positive(node.test)
            node.body, node.orelse = node.orelse, node.body
        return node

    def visit_UnaryOp(self, node):
        self.generic_visit(node)
        if isinstance(node.op, ast.Not) and isinstance(node.operand, ast.Compare) and len(node.operand.ops) == 1 and type(node.operand.ops[0]) in _NEG:
            c = node.operand
            c.ops = [_NEG[type(c.ops[0])]()]
            return c
        return node


def _tuple_ifexp(v):
    """index of the single conditional element of a tuple display whose other elements are constants / plain names (so that choosing the
    arm first and building the tuple afterwards evaluates the same things in an order nobody can observe), else None"""
    if not isinstance(v, ast.Tuple):
        return None
    idx = [k for k, e in enumerate(v.elts) if isinstance(e, ast.IfExp)]
    if len(idx) != 1:
        return None
    for k, e in enumerate(v.elts):
        if k != idx[0] and not (isinstance(e, ast.Constant) or _plain(e)):
            return None
    return idx[0]


SCOPES = (ast.FunctionDef, ast.AsyncFunctionDef, ast.Lambda, ast.ClassDef)
COMPS = (ast.ListComp, ast.SetComp, ast.DictComp, ast.GeneratorExp)


def _children_in_order(node):
    for fld in node._fields:
        v = getattr(node, fld, None)
        if isinstance(v, list):
            for x in v:
                if isinstance(x, ast.AST):
                    yield x
        elif isinstance(v, ast.AST):
            yield v


def params_of(f):
    a = f.args
    out = [x.arg for x in getattr(a, 'posonlyargs', []) + a.args + a.kwonlyargs]
    for x in (a.vararg, a.kwarg):
        if x is not None:
            out.append(x.arg)
    return out


def ordered_locals(f):
    """names bound in f's own scope, by order of first binding in source order (parameters, global/nonlocal names excluded)."""
    params = set(params_of(f))
    declared = set()
    out = []

    def add(n):
        if n not in params and n not in declared and n not in out:
            out.append(n)

    def rec(node):
        for ch in _children_in_order(node):
            if isinstance(ch, SCOPES):
                if isinstance(ch, (ast.FunctionDef, ast.AsyncFunctionDef, ast.ClassDef)):
                    add(ch.name)
                continue
            if isinstance(ch, COMPS):
                # the first iterable is evaluated in the enclosing scope, nothing is bound there
                continue
            if isinstance(ch, (ast.Global, ast.Nonlocal)):
                declared.update(ch.names)
                continue
            if isinstance(ch, ast.Name) and isinstance(ch.ctx, (ast.Store, ast.Del)):
                add(ch.id)
            elif isinstance(ch, ast.ExceptHandler) and ch.name:
                add(ch.name)
            elif isinstance(ch, ast.alias):
                add((ch.asname or ch.name).split('.')[0])
            # value before targets for assignments: source order of *binding* is what matters, and it is the statement order
            rec(ch)
    # assignments: visit targets in statement order (ast field order puts targets first; fine, it is consistent)
    rec(f)
    return [n for n in out if n not in declared]


def _all_names(f):
    out = set()
    for n in ast.walk(f):
        if isinstance(n, ast.Name):
            out.add(n.id)
        elif isinstance(n, ast.arg):
            out.add(n.arg)
    return out


def _rename(f, mapping):
    def bound_in(scope):
        if isinstance(scope, (ast.FunctionDef, ast.AsyncFunctionDef)):
            return set(params_of(scope)) | set(ordered_locals(scope))
        if isinstance(scope, ast.Lambda):
            return set(params_of(scope))
        if isinstance(scope, COMPS):
            b = set()
            for g in scope.generators:
                for x in ast.walk(g.target):
                    if isinstance(x, ast.Name):
                        b.add(x.id)
            return b
        return set()

    def rec(node, active):
        for ch in _children_in_order(node):
            act = active
            if isinstance(ch, (ast.FunctionDef, ast.AsyncFunctionDef)) and ch.name in active:
                ch.name = active[ch.name]
            if isinstance(ch, (ast.FunctionDef, ast.AsyncFunctionDef, ast.Lambda) + COMPS):
                nl = set()
                if isinstance(ch, (ast.FunctionDef, ast.AsyncFunctionDef)):
                    for x in ast.walk(ch):
                        if isinstance(x, ast.Nonlocal):
                            nl.update(x.names)
                b = bound_in(ch) - nl
                if b & set(active):
                    act = dict((k, v) for k, v in active.items() if k not in b)
            elif isinstance(ch, ast.ClassDef):
                continue
            if isinstance(ch, ast.Name) and ch.id in act:
                ch.id = act[ch.id]
            elif isinstance(ch, ast.ExceptHandler) and ch.name in act:
                ch.name = act[ch.name]
            elif isinstance(ch, ast.Nonlocal):
                ch.names = [act.get(n, n) for n in ch.names]
            rec(ch, act)
    rec(f, mapping)



# ---- reference-guided rewrites (each one is behaviour preserving on its own; the reference only selects where to apply it)

_FLIP = {ast.Lt: ast.Gt, ast.Gt: ast.Lt, ast.LtE: ast.GtE, ast.GtE: ast.LtE, ast.Eq: ast.Eq, ast.NotEq: ast.NotEq}


def own_nodes(f):
    out = []

    def rec(n):
        for ch in _children_in_order(n):
            if isinstance(ch, SCOPES):
                continue
            out.append(ch)
            rec(ch)
    rec(f)
    return out


def flippable(n):
    return isinstance(n, ast.Compare) and len(n.ops) == 1 and type(n.ops[0]) in _FLIP


def mirrored(n):
    return ast.Compare(left=n.comparators[0], ops=[_FLIP[type(n.ops[0])]()], comparators=[n.left])


def compares_of(f):
    return sorted(set(ast.unparse(n) for n in own_nodes(f) if flippable(n)))


def _restore_compares(f, want):
    want = set(want)
    for n in own_nodes(f):
        if flippable(n) and ast.unparse(n) not in want:
            m = mirrored(n)
            if ast.unparse(m) in want:
                n.left, n.ops, n.comparators = m.left, m.ops, m.comparators


def _stmt_lists(f):
    out = [f.body]
    for n in own_nodes(f):
        for fld in ('body', 'orelse', 'finalbody'):
            b = getattr(n, fld, None)
            if isinstance(b, list) and b and isinstance(b[0], ast.stmt):
                out.append(b)
    return out


def _pure(e):
    """evaluating e has no effect and cannot observe one (names, attribute chains, constants)"""
    if isinstance(e, (ast.Name, ast.Constant)):
        return True
    if isinstance(e, ast.Attribute):
        return _pure(e.value)
    if isinstance(e, (ast.Tuple, ast.List)):
        return all(_pure(x) for x in e.elts)
    return False


def _first_evaluated(stmt):
    """the expression a statement evaluates first, or None"""
    if isinstance(stmt, (ast.If, ast.While)):
        return None if isinstance(stmt, ast.While) else stmt.test
    if isinstance(stmt, (ast.Return, ast.Expr)):
        return stmt.value
    if isinstance(stmt, ast.Assign):
        return stmt.value
    if isinstance(stmt, ast.AugAssign):
        return stmt.value if _pure(stmt.target) else None
    if isinstance(stmt, (ast.For, ast.AsyncFor)):
        return stmt.iter
    if isinstance(stmt, (ast.With, ast.AsyncWith)):
        return stmt.items[0].context_expr if stmt.items else None
    if isinstance(stmt, ast.Raise):
        return stmt.exc
    return None


def _load_is_first(expr, name):
    """True when the single load of `name` inside expr is evaluated before anything that has or observes an effect"""
    state = {'found': False, 'blocked': False}

    def rec(e):
        if state['found'] or state['blocked']:
            return
        if isinstance(e, ast.Name):
            if e.id == name and isinstance(e.ctx, ast.Load):
                state['found'] = True
            return
        if isinstance(e, ast.Constant):
            return
        if isinstance(e, ast.Attribute):
            rec(e.value)
            return
        if isinstance(e, ast.BoolOp):
            rec(e.values[0])
            if not state['found']:
                state['blocked'] = True
            return
        if isinstance(e, ast.IfExp):
            rec(e.test)
            if not state['found']:
                state['blocked'] = True
            return
        if isinstance(e, ast.UnaryOp):
            rec(e.operand)
            return
        if isinstance(e, ast.BinOp):
            rec(e.left)
            if not state['found']:
                if _pure(e.left):
                    rec(e.right)
                else:
                    state['blocked'] = True
            return
        if isinstance(e, ast.Compare):
            seq = [e.left] + list(e.comparators)
            for i, x in enumerate(seq):
                rec(x)
                if state['found'] or state['blocked']:
                    return
                if not _pure(x):
                    state['blocked'] = True
                    return
            return
        if isinstance(e, ast.Call):
            rec(e.func)
            if state['found'] or state['blocked']:
                return
            if not _pure(e.func):
                state['blocked'] = True
                return
            for a in list(e.args) + [k.value for k in e.keywords]:
                x = a.value if isinstance(a, ast.Starred) else a
                rec(x)
                if state['found'] or state['blocked']:
                    return
                if not _pure(x):
                    state['blocked'] = True
                    return
            state['blocked'] = True      # the call itself happens before anything later
            return
        if isinstance(e, (ast.Tuple, ast.List, ast.Set)):
            for x in e.elts:
                rec(x)
                if state['found'] or state['blocked']:
                    return
                if not _pure(x):
                    state['blocked'] = True
                    return
            return
        if isinstance(e, ast.Subscript):
            rec(e.value)
            if not state['found'] and not state['blocked']:
                if _pure(e.value):
                    rec(e.slice)
                else:
                    state['blocked'] = True
            return
        state['blocked'] = True
    rec(expr)
    return state['found']


class _Subst(ast.NodeTransformer):
    def __init__(self, name, value):
        self.name, self.value = name, value

    def visit_Name(self, n):
        if n.id == self.name and isinstance(n.ctx, ast.Load):
            return self.value
        return n


def _undo_new_temps(f, known):
    """locals the reference does not know: `t = e` immediately followed by the only read of t, which the next statement
    evaluates first -> e substituted; never read and e without effect -> statement dropped"""
    changed = False
    for _round in range(8):
        cur = ordered_locals(f)
        new = [n for n in cur if n not in known]
        if not new:
            break
        # names used by nested scopes cannot be reasoned about locally
        nested = set()
        for n in ast.walk(f):
            if n is not f and isinstance(n, SCOPES + COMPS):
                for x in ast.walk(n):
                    if isinstance(x, ast.Name):
                        nested.add(x.id)
        own = own_nodes(f)
        progress = False
        for t in new:
            if t in nested:
                continue
            stores = [n for n in own if isinstance(n, ast.Name) and n.id == t and isinstance(n.ctx, ast.Store)]
            loads = [n for n in own if isinstance(n, ast.Name) and n.id == t and isinstance(n.ctx, ast.Load)]
            others = [n for n in own if (isinstance(n, ast.ExceptHandler) and n.name == t) or (isinstance(n, ast.Name) and n.id == t and isinstance(n.ctx, ast.Del))]
            if len(stores) != 1 or others:
                continue
            for body in _stmt_lists(f):
                for i, st in enumerate(body):
                    if isinstance(st, ast.Assign) and len(st.targets) == 1 and st.targets[0] is stores[0]:
                        if not loads:
                            if _pure(st.value):
                                del body[i]
                                if not body:
                                    body.append(ast.copy_location(ast.Pass(), st))
                            else:
                                body[i] = ast.copy_location(ast.Expr(value=st.value), st)
                            progress = True
                        elif len(loads) == 1 and i + 1 < len(body):
                            nxt = body[i + 1]
                            fe = _first_evaluated(nxt)
                            if fe is not None and any(x is loads[0] for x in ast.walk(fe)) and _load_is_first(fe, t):
                                new_fe = _Subst(t, st.value).visit(fe)
                                for fld in ('test', 'value', 'iter', 'exc'):
                                    if getattr(nxt, fld, None) is fe:
                                        setattr(nxt, fld, new_fe)
                                if isinstance(nxt, (ast.With, ast.AsyncWith)) and nxt.items and nxt.items[0].context_expr is fe:
                                    nxt.items[0].context_expr = new_fe
                                del body[i]
                                progress = True
                        break
                if progress:
                    break
            if progress:
                break
        if not progress:
            break
        changed = True
    return changed


def tests_of(f):
    return sorted(set(ast.unparse(n.test) for n in own_nodes(f) if isinstance(n, ast.If)))


def canonicalise(tree, rel):
    rc = reference_compares().get(rel, {})
    known_funcs = reference().get('__functions__', {}).get(rel)
    if known_funcs:
        if inline_new_helpers(tree, set(known_funcs)):
            ast.fix_missing_locations(tree)
    tree = _Shape(dict((q, set(v.get('tests', ()))) for q, v in rc.items())).visit(tree)
    ast.fix_missing_locations(tree)
    ref = reference().get(rel, {})
    refc = dict((q, v['cmp']) for q, v in rc.items() if v.get('cmp'))
    reff = set(reference().get('__functions__', {}).get(rel, []))
    renamed = 0
    if ref or refc or reff:
        def visit(node, prefix):
            nonlocal renamed
            for ch in ast.iter_child_nodes(node):
                if isinstance(ch, (ast.FunctionDef, ast.AsyncFunctionDef, ast.ClassDef)):
                    q = prefix + ch.name
                    visit(ch, q + '.')
                    if isinstance(ch, (ast.FunctionDef, ast.AsyncFunctionDef)) and (q in ref or q in refc or q in reff):
                        # (a function without locals is not in the locals table)
                        if len(ordered_locals(ch)) > len(ref.get(q, [])):
                            if _undo_new_temps(ch, set(ref.get(q, [])) | set(params_of(ch))):
                                ast.fix_missing_locations(ch)
                    if isinstance(ch, (ast.FunctionDef, ast.AsyncFunctionDef)) and q in ref:
                        cur = ordered_locals(ch)
                        want = ref[q]
                        if cur != want and len(cur) == len(want):
                            # names present on both sides keep their name (a reordered first binding is not a renaming);
                            # the remaining ones are matched by order of first binding
                            only_cur = [c for c in cur if c not in want]
                            only_want = [w for w in want if w not in cur]
                            mapping = dict(zip(only_cur, only_want))
                            others = _all_names(ch) - set(cur)
                            if PREPASS_RENAME and mapping and not (set(mapping.values()) & others) and len(set(want)) == len(want):
                                # two-step to allow permutations
                                tmp = dict((c, '__canon_%d__' % i) for i, c in enumerate(mapping))
                                _rename(ch, tmp)
                                _rename(ch, dict((tmp[c], mapping[c]) for c in mapping))
                                renamed += 1
                    if isinstance(ch, (ast.FunctionDef, ast.AsyncFunctionDef)) and q in refc:
                        _restore_compares(ch, refc[q])
                elif isinstance(ch, (ast.If, ast.Try, ast.With, ast.For, ast.While, ast.ExceptHandler)):
                    visit(ch, prefix)
        visit(tree, '')
    tree._canon_renamed = renamed
    # the substitutions above can expose shapes the first pass would have normalised (an `if` that now only holds another `if`)
    tree = _Shape(dict((q, set(v.get('tests', ()))) for q, v in rc.items())).visit(tree)
    ast.fix_missing_locations(tree)
    refs = reference_src().get(rel, {}) if not os.environ.get('VERIF_NO_TOWARDS') else {}
    moved = []
    seen_q = {}
    if refs:
        _DEADLINE[0] = 2500000      # work units for this module (see towards)

        def walk_lists(node, prefix):
            for fld in ('body', 'orelse', 'finalbody', 'handlers'):
                lst = getattr(node, fld, None)
                if not isinstance(lst, list):
                    continue
                for k, ch in enumerate(lst):
                    if isinstance(ch, (ast.FunctionDef, ast.AsyncFunctionDef, ast.ClassDef)):
                        q = prefix + ch.name
                        if isinstance(ch, ast.ClassDef) or q not in refs:
                            walk_lists(ch, q + '.')
                        if isinstance(ch, (ast.FunctionDef, ast.AsyncFunctionDef)) and q in refs:
                            # several definitions may share a name (property getter / setter): the reference lists them in source order
                            texts = refs[q]
                            cur_text = ast.unparse(ch)
                            if cur_text in texts:
                                continue
                            k_ = seen_q.get(q, 0)
                            seen_q[q] = k_ + 1
                            if len(texts) != 1:
                                cands_ = [t for t in texts if t.split('(')[0] == cur_text.split('(')[0]]
                                if len(cands_) != 1:
                                    continue
                                ref_text = cands_[0]
                            else:
                                ref_text = texts[0]
                            if cur_text != ref_text:
                                new, d0, d1 = towards(ch, ref_text, nested=isinstance(node, (ast.FunctionDef, ast.AsyncFunctionDef)))
                                if new is not ch:
                                    ast.fix_missing_locations(new)
                                    lst[k] = new
                                moved.append((q, d0, d1))
                            # closures of this function come after it: the enclosing function's locals have their reference names by then
                            walk_lists(lst[k], q + '.')
                    elif isinstance(ch, (ast.If, ast.Try, ast.With, ast.For, ast.While, ast.ExceptHandler)):
                        walk_lists(ch, prefix)
        walk_lists(tree, '')
    tree._canon_moved = moved
    return tree


# ---- inlining of helpers the reference tree does not have ------------------------------------------------------------
# A function that is new relative to the reference (an extracted helper) is substituted back at its call sites when this
# is plainly behaviour preserving: a plain method called as self.h(...) from the same class, or a module-level function
# called as h(...); positional / keyword arguments only; every `return` of the helper in tail position; no generator.
# The rules then see the code where it was before the extraction.  What cannot be inlined is left alone.

import copy as _copy


def _own_returns(f):
    return [n for n in own_nodes(f) if isinstance(n, ast.Return)]


def _strip_doc(body):
    if body and isinstance(body[0], ast.Expr) and isinstance(body[0].value, ast.Constant) and isinstance(body[0].value.value, str):
        return body[1:]
    return body


def _tail_convert(stmts, on_return, on_falloff, seen):
    """rewrites the tail positions of a statement list; `seen` collects the Return nodes met"""
    if not stmts:
        return on_falloff()
    head, last = stmts[:-1], stmts[-1]
    if isinstance(last, ast.Return):
        seen.append(last)
        return head + on_return(last)
    if isinstance(last, ast.Raise):
        return stmts
    if isinstance(last, ast.If):
        last.body = _tail_convert(last.body, on_return, on_falloff, seen) or [ast.copy_location(ast.Pass(), last)]
        last.orelse = _tail_convert(last.orelse, on_return, on_falloff, seen)
        return head + [last]
    if isinstance(last, ast.Try) and not last.finalbody:
        if last.orelse:
            last.orelse = _tail_convert(last.orelse, on_return, on_falloff, seen)
        else:
            last.body = _tail_convert(last.body, on_return, on_falloff, seen) or [ast.copy_location(ast.Pass(), last)]
        for h in last.handlers:
            h.body = _tail_convert(h.body, on_return, on_falloff, seen) or [ast.copy_location(ast.Pass(), h)]
        return head + [last]
    if isinstance(last, (ast.With, ast.AsyncWith)):
        last.body = _tail_convert(last.body, on_return, on_falloff, seen) or [ast.copy_location(ast.Pass(), last)]
        return head + [last]
    return stmts + on_falloff()


def _to_tail_form(stmts):
    """`if c: A; return x` followed by rest  ->  `if c: A; return x  else: rest` (recursively), so that every return ends its path"""
    out = list(stmts)
    i = 0
    while i < len(out):
        st = out[i]
        if isinstance(st, ast.If):
            st.body = _to_tail_form(st.body)
            st.orelse = _to_tail_form(st.orelse)
            if i + 1 < len(out) and _ends_in_return(st.body) and not st.orelse:
                st.orelse = _to_tail_form(out[i + 1:])
                del out[i + 1:]
            elif i + 1 < len(out) and st.orelse and _ends_in_return(st.orelse) and not _ends_in_return(st.body) and not _has_return(st.body):
                st.body = st.body + _to_tail_form(out[i + 1:])
                del out[i + 1:]
        elif isinstance(st, (ast.With, ast.AsyncWith)):
            st.body = _to_tail_form(st.body)
        i += 1
    return out


def _ends_in_return(body):
    if not body:
        return False
    last = body[-1]
    if isinstance(last, (ast.Return, ast.Raise)):
        return True
    if isinstance(last, ast.If) and last.orelse:
        return _ends_in_return(last.body) and _ends_in_return(last.orelse)
    return False


def _has_return(body):
    return any(isinstance(n, ast.Return) for st in body for n in ast.walk(st) if not isinstance(n, SCOPES))


def _is_static(h):
    return len(h.decorator_list) == 1 and isinstance(h.decorator_list[0], ast.Name) and h.decorator_list[0].id == 'staticmethod'


def _inlinable(h, is_method, need_tail=True):
    if isinstance(h, ast.AsyncFunctionDef):
        return False
    if h.decorator_list and not (is_method and _is_static(h)):
        return False
    a = h.args
    if a.vararg or a.kwarg or a.kwonlyargs or getattr(a, 'posonlyargs', None):
        return False
    if any(not isinstance(d, ast.Constant) for d in a.defaults):
        return False
    params = [x.arg for x in a.args]
    if is_method and not _is_static(h) and (not params or params[0] != 'self'):
        return False
    own = own_nodes(h)
    if any(isinstance(n, (ast.Yield, ast.YieldFrom, ast.Await, ast.Global, ast.Nonlocal)) for n in own):
        return False
    if any(isinstance(n, (ast.FunctionDef, ast.AsyncFunctionDef, ast.ClassDef)) for n in ast.walk(h) if n is not h):
        return False
    body = _strip_doc(h.body)
    if not body:
        return False
    # every return in tail position (checked on a copy, after moving the code that follows a returning guard under its else)
    seen = []
    _tail_convert(_to_tail_form(_copy.deepcopy(body)), lambda r: [r], lambda: [], seen)
    if need_tail and len(seen) != len(_own_returns(h)):
        return False
    # not recursive
    for n in ast.walk(h):
        if isinstance(n, ast.Call):
            fn = n.func
            if (isinstance(fn, ast.Name) and fn.id == h.name) or (isinstance(fn, ast.Attribute) and fn.attr == h.name):
                return False
    return True


def _match_call(call, h, is_method):
    if not isinstance(call, ast.Call):
        return None
    fn = call.func
    static = is_method and _is_static(h)
    if is_method:
        recv = ('self', 'cls', getattr(h, '_owner_class', None)) if static else ('self',)
        if not (isinstance(fn, ast.Attribute) and fn.attr == h.name and isinstance(fn.value, ast.Name) and fn.value.id in recv):
            return None
    elif not (isinstance(fn, ast.Name) and fn.id == h.name):
        return None
    if any(isinstance(x, ast.Starred) for x in call.args) or any(k.arg is None for k in call.keywords):
        return None
    params = [x.arg for x in h.args.args]
    if is_method and not static:
        params = params[1:]
    if len(call.args) > len(params):
        return None
    binding = {}
    for p, a in zip(params, call.args):
        binding[p] = a
    for k in call.keywords:
        if k.arg not in params or k.arg in binding:
            return None
        binding[k.arg] = k.value
    defaults = h.args.defaults
    dparams = [x.arg for x in h.args.args][len(h.args.args) - len(defaults):] if defaults else []
    for p, d in zip(dparams, defaults):
        binding.setdefault(p, d)
    if set(binding) != set(params):
        return None
    return [(p, binding[p]) for p in params]


class _Sub(ast.NodeTransformer):
    def __init__(self, mapping):
        self.mapping = mapping

    def visit_Name(self, n):
        if isinstance(n.ctx, ast.Load) and n.id in self.mapping:
            return _copy.deepcopy(self.mapping[n.id])
        return n


def _read_first_and_once(body, p):
    reads = [n for st in body for n in ast.walk(st) if isinstance(n, ast.Name) and n.id == p and isinstance(n.ctx, ast.Load)]
    if len(reads) != 1 or not body:
        return False
    st0 = body[0]
    if isinstance(st0, (ast.For, ast.AsyncFor)):
        return st0.iter is reads[0]
    if isinstance(st0, (ast.Assign, ast.Return, ast.Expr)) and st0.value is reads[0]:
        return True
    if isinstance(st0, (ast.If, ast.While)) and st0.test is reads[0]:
        return True
    return False


def _instantiate(h, binding, caller, is_method):
    """-> (prologue statements binding parameters, body copy with substituted parameters) or None"""
    body = _to_tail_form(_copy.deepcopy(_strip_doc(h.body)))
    stored = set(n.id for st in body for n in ast.walk(st) if isinstance(n, ast.Name) and isinstance(n.ctx, (ast.Store, ast.Del)))
    subst, pro = {}, []
    for p, a in binding:
        if p not in stored and isinstance(a, (ast.Name, ast.Constant)):
            subst[p] = a
        elif p not in stored and _plain(a) and _read_first_and_once(body, p):
            # an attribute chain handed to a parameter that the helper reads exactly once, as the first thing it evaluates: same value at the same moment
            subst[p] = a
        else:
            pro.append(ast.Assign(targets=[ast.Name(id=p, ctx=ast.Store())], value=_copy.deepcopy(a)))
    # locals of the helper that would collide with unrelated names of the caller are renamed apart
    params = set(p for p, _a in binding)
    hl = [n for n in ordered_locals(h) if n not in params]
    cn = _all_names(caller)
    wrap = ast.FunctionDef(name='_', args=ast.arguments(posonlyargs=[], args=[], kwonlyargs=[], kw_defaults=[], defaults=[]), body=pro + body, decorator_list=[])
    clash = dict((n, n + '_h') for n in hl if n in cn and n not in subst)
    # a helper local equal to a caller local is the usual outcome of an extraction (same variable before): keep it when the caller no longer binds it
    cl = set(ordered_locals(caller))
    clash = dict((k, v) for k, v in clash.items() if k in cl)
    if clash:
        _rename(wrap, clash)
    if subst:
        wrap = _Sub(subst).visit(wrap)
    return wrap.body


def _const_truth(e):
    if e is None:
        return False
    if isinstance(e, ast.Constant):
        return bool(e.value)
    return None


def _guard_inline(f, h, is_method):
    """`if [not] self.h(..): T`  (T a single return / continue / break / raise)  with a helper that returns only constants:
    the helper body is substituted, every `return <const>` that makes the guard fire becomes T, the others fall through (they must end the helper)"""
    n = 0
    for body in _stmt_lists(f):
        n += _guard_inline_in(body, f, h, is_method)
    return n


def _guard_inline_in(body, f, h, is_method):
    n = 0
    if True:
        i = 0
        while i < len(body):
            st = body[i]
            i += 1
            if not (isinstance(st, ast.If) and not st.orelse and len(st.body) == 1 and isinstance(st.body[0], (ast.Return, ast.Continue, ast.Break, ast.Raise))):
                continue
            t = st.test
            # `if A and [not] h(..): T`  is  `if A: if [not] h(..): T` - the helper call is the last operand, evaluated only when A holds
            if isinstance(t, ast.BoolOp) and isinstance(t.op, ast.And) and len(t.values) >= 2:
                last = t.values[-1]
                lc = last.operand if isinstance(last, ast.UnaryOp) and isinstance(last.op, ast.Not) else last
                if _match_call(lc, h, is_method) is not None:
                    outer_test = t.values[0] if len(t.values) == 2 else ast.BoolOp(op=ast.And(), values=t.values[:-1])
                    inner = ast.copy_location(ast.If(test=last, body=st.body, orelse=[]), st)
                    outer = ast.copy_location(ast.If(test=outer_test, body=[inner], orelse=[]), st)
                    body[i - 1] = outer
                    # the inner statement is handled when its own list is visited: restart on the new structure
                    n += _guard_inline_in(outer.body, f, h, is_method)
                    continue
            neg = isinstance(t, ast.UnaryOp) and isinstance(t.op, ast.Not)
            call = t.operand if neg else t
            binding = _match_call(call, h, is_method)
            if binding is None:
                continue
            rets = _own_returns(h)
            truths = [_const_truth(r.value) for r in rets]
            if not rets or any(x is None for x in truths):
                continue
            stmts = _instantiate(h, binding, f, is_method)
            T = st.body[0]
            fire = (lambda tr: not tr) if neg else (lambda tr: tr)
            # returns that do not fire must be in tail position; falling off the end returns None (falsy)
            seen = []

            def on_ret(r):
                return [_copy.deepcopy(T)] if fire(_const_truth(r.value)) else []
            new = _tail_convert(_to_tail_form(stmts), on_ret, lambda: ([_copy.deepcopy(T)] if fire(False) else []), seen)
            allr = [x for s_ in new for x in ast.walk(s_) if isinstance(x, ast.Return) and not any(x is y or ast.dump(x) == ast.dump(T) for y in [T])]
            # any return left over (not in tail position) must be one that fires
            ok = True

            class Fix(ast.NodeTransformer):
                def visit_FunctionDef(s, node):
                    return node

                def visit_Lambda(s, node):
                    return node

                def visit_Return(s, node):
                    nonlocal ok
                    if ast.dump(node) == ast.dump(T):
                        return node
                    tr = _const_truth(node.value)
                    if tr is None or not fire(tr):
                        ok = False
                        return node
                    return ast.copy_location(_copy.deepcopy(T), node)
            new = [Fix().visit(s_) for s_ in new]
            if not ok or not new:
                continue
            for s_ in new:
                for x in ast.walk(s_):
                    if not hasattr(x, 'lineno') and isinstance(x, (ast.stmt, ast.expr)):
                        ast.copy_location(x, st)
            body[i - 1:i] = new
            i += len(new) - 1
            n += 1
    return n


def _hoist_calls(f, h, is_method):
    """a call of the helper that is the first thing its statement evaluates is bound to a temporary in front of the statement"""
    n = 0
    for body in _stmt_lists(f):
        i = 0
        while i < len(body):
            st = body[i]
            i += 1
            if isinstance(st, (ast.Expr, ast.Assign, ast.Return)) and _match_call(getattr(st, 'value', None), h, is_method) is not None:
                continue            # handled directly by the statement forms
            fe = st.value if isinstance(st, ast.AugAssign) and _pure(st.target) else _first_evaluated(st)
            if fe is None:
                continue
            hits = [x for x in ast.walk(fe) if _match_call(x, h, is_method) is not None]
            if len(hits) != 1:
                continue
            name = '%s_result' % h.name.lstrip('_')
            k_ = 1
            while _name_uses(f, name):
                k_ += 1
                name = '%s_result%d' % (h.name.lstrip('_'), k_)
            idx = [k for k, x in enumerate(ast.walk(fe)) if x is hits[0]][0]
            probe = _copy.deepcopy(fe)
            target = list(ast.walk(probe))[idx]
            if target is probe:
                probe = ast.Name(id='__mark__', ctx=ast.Load())
            else:
                _replace_node(ast.Expression(body=probe), target, ast.Name(id='__mark__', ctx=ast.Load()))
            if not _load_is_first(probe, '__mark__'):
                continue
            new_name = ast.copy_location(ast.Name(id=name, ctx=ast.Load()), hits[0])
            if hits[0] is fe:
                for fld in ('test', 'value', 'iter', 'exc'):
                    if getattr(st, fld, None) is fe:
                        setattr(st, fld, new_name)
            else:
                _replace_node(st, hits[0], new_name)
            body.insert(i - 1, ast.copy_location(ast.Assign(targets=[ast.Name(id=name, ctx=ast.Store())], value=hits[0]), st))
            i += 1
            n += 1
    return n


def _inline_into(f, h, is_method):
    changed = False
    hb_ = _strip_doc(h.body)
    if not (len(hb_) == 1 and isinstance(hb_[0], ast.Return)):
        if _guard_inline(f, h, is_method):
            changed = True
        if not _inlinable(h, is_method):
            return changed
        _hoist_calls(f, h, is_method)
    for _round in range(4):
        progress = False
        for body in _stmt_lists(f):
            for i, st in enumerate(body):
                call, form = None, None
                if isinstance(st, ast.Expr):
                    call, form = st.value, 'expr'
                elif isinstance(st, ast.Assign):
                    call, form = st.value, 'assign'
                elif isinstance(st, ast.Return) and st.value is not None:
                    call, form = st.value, 'return'
                binding = _match_call(call, h, is_method) if call is not None else None
                if binding is None:
                    continue
                stmts = _instantiate(h, binding, f, is_method)
                seen = []
                if form == 'expr':
                    def on_ret(r):
                        return [] if r.value is None or _pure(r.value) else [ast.copy_location(ast.Expr(value=r.value), r)]
                    new = _tail_convert(stmts, on_ret, lambda: [], seen)
                elif form == 'assign':
                    def on_ret(r, st=st):
                        v = r.value if r.value is not None else ast.Constant(value=None)
                        return [ast.copy_location(ast.Assign(targets=_copy.deepcopy(st.targets), value=v), r)]

                    def on_fall(st=st):
                        return [ast.copy_location(ast.Assign(targets=_copy.deepcopy(st.targets), value=ast.Constant(value=None)), st)]
                    new = _tail_convert(stmts, on_ret, on_fall, seen)
                else:
                    new = _tail_convert(stmts, lambda r: [r], lambda: [ast.copy_location(ast.Return(value=ast.Constant(value=None)), st)], seen)
                if not new:
                    new = [ast.copy_location(ast.Pass(), st)]
                for s_ in new:
                    for x in ast.walk(s_):
                        if not hasattr(x, 'lineno') and isinstance(x, (ast.stmt, ast.expr)):
                            ast.copy_location(x, st)
                body[i:i + 1] = new
                progress = changed = True
                break
            if progress:
                break
        if not progress:
            break
    # expression-bodied helpers with pure arguments: anywhere in an expression
    hb = _strip_doc(h.body)
    if len(hb) == 1 and isinstance(hb[0], ast.Return) and hb[0].value is not None:
        class T(ast.NodeTransformer):
            done = False

            def visit_FunctionDef(self, n):
                return n if n is not f else self.generic_visit(n)

            def visit_Lambda(self, n):
                return n

            def visit_Call(self, n):
                self.generic_visit(n)
                b = _match_call(n, h, is_method)
                if b is not None and all(isinstance(a, (ast.Name, ast.Constant)) or _pure(a) for _p, a in b):
                    T.done = True
                    return ast.copy_location(_Sub(dict(b)).visit(_copy.deepcopy(hb[0].value)), n)
                return n
        T().visit(f)
        changed = changed or T.done
    return changed


def inline_new_helpers(tree, known):
    """known: set of qualified function names of the reference tree for this module"""
    count = 0
    classes = [c for c in tree.body if isinstance(c, ast.ClassDef)]
    mod_funcs = [f for f in tree.body if isinstance(f, ast.FunctionDef)]
    # new methods
    for c in classes:
        meths = [f for f in c.body if isinstance(f, (ast.FunctionDef, ast.AsyncFunctionDef))]
        for f in meths:
            f._owner_class = c.name
        new = [f for f in meths if isinstance(f, ast.FunctionDef) and (c.name + '.' + f.name) not in known and _inlinable(f, True, need_tail=False)]
        if not new:
            continue
        # a helper that only names its result before returning it is an expression: fold its single-use temporaries first
        for h in new:
            _undo_new_temps(h, set(params_of(h)))
        # the helper is also what subclasses of c (in this module) call as self.h(..), unless one of them - or a class in between - defines the name itself
        by_name = dict((k.name, k) for k in classes)

        def _inherits_from(k, base, seen=()):
            for b in k.bases:
                bn = b.id if isinstance(b, ast.Name) else None
                if bn == base.name:
                    return True
                if bn in by_name and bn not in seen and _inherits_from(by_name[bn], base, seen + (bn,)):
                    return True
            return False

        def _redefines(k, name, base, seen=()):
            # does k, or a class between k and base, define `name`?
            if any(isinstance(x, (ast.FunctionDef, ast.AsyncFunctionDef)) and x.name == name for x in k.body) or \
                    any(isinstance(x, ast.Assign) and any(isinstance(t, ast.Name) and t.id == name for t in x.targets) for x in k.body):
                return True
            for b in k.bases:
                bn = b.id if isinstance(b, ast.Name) else None
                if bn in by_name and bn != base.name and bn not in seen and _inherits_from(by_name[bn], base) and _redefines(by_name[bn], name, base, seen + (bn,)):
                    return True
            return False
        targets = list(meths)
        single_base = lambda k: sum(1 for b in k.bases if isinstance(b, ast.Name) and b.id in by_name) == len(k.bases)
        for k in classes:
            if k is not c and _inherits_from(k, c) and single_base(k):
                for h in new:
                    if not _redefines(k, h.name, c):
                        pass
                sub_meths = [f for f in k.body if isinstance(f, (ast.FunctionDef, ast.AsyncFunctionDef))]
                for f in sub_meths:
                    f._owner_class = k.name
                targets.extend((f, k) for f in sub_meths)
        for _round in range(3):
            again = False
            for h in new:
                for f in targets:
                    k = None
                    if isinstance(f, tuple):
                        f, k = f
                        if _redefines(k, h.name, c):
                            continue
                    if f is not h and _inline_into(f, h, True):
                        again = True
                        count += 1
            if not again:
                break
        for h in new:
            refs = [n for n in ast.walk(tree) if isinstance(n, ast.Attribute) and n.attr == h.name and not any(n is x for x in ast.walk(h))]
            if not refs:
                c.body.remove(h)
    # new module-level functions
    new = [f for f in mod_funcs if f.name not in known and _inlinable(f, False, need_tail=False)]
    for h in new:
        _undo_new_temps(h, set(params_of(h)))
    if new:
        everyone = [f for f in ast.walk(tree) if isinstance(f, (ast.FunctionDef, ast.AsyncFunctionDef))]
        for _round in range(3):
            again = False
            for h in new:
                for f in everyone:
                    if f is not h and _inline_into(f, h, False):
                        again = True
                        count += 1
            if not again:
                break
        for h in new:
            refs = [n for n in ast.walk(tree) if isinstance(n, ast.Name) and n.id == h.name and not any(n is x for x in ast.walk(h))]
            if not refs:
                tree.body.remove(h)
    return count


# ---- search towards the reference: semantics-preserving rewrites, kept only when they bring a function textually closer --------
# to its text in the reference tree (spec/reference_src.json).  Every rewrite below preserves behaviour on its own, so any
# sequence of them does; the reference only steers the search.  A function whose text reaches the reference text is, for the
# rules, the function they were written against; where the search stops short the rules simply see the closer spelling.

import difflib as _difflib
import sys as _sys
if _sys.getrecursionlimit() < 6000:
    _sys.setrecursionlimit(6000)

_REFS = None


def reference_src():
    global _REFS
    if _REFS is None:
        p = os.path.join(os.path.dirname(os.path.dirname(os.path.abspath(__file__))), 'spec', 'reference_src.json')
        try:
            with open(p) as f:
                _REFS = json.load(f)
        except (IOError, ValueError):
            _REFS = {}
    return _REFS


def _lines(f):
    return [l.strip() for l in ast.unparse(f).splitlines()[1:]]


def _dist(lines, ref_lines):
    sm = _difflib.SequenceMatcher(None, lines, ref_lines, autojunk=False)
    return len(lines) + len(ref_lines) - 2 * sum(b.size for b in sm.get_matching_blocks())


def _blocks(f):
    """every statement list of f's own scope, in a stable order"""
    out = [f.body]
    for n in own_nodes(f):
        for fld in ('body', 'orelse', 'finalbody'):
            b = getattr(n, fld, None)
            if isinstance(b, list) and b and isinstance(b[0], ast.stmt) and not isinstance(n, SCOPES):
                out.append(b)
    return out


def _bare_return(st):
    return isinstance(st, ast.Return) and (st.value is None or (isinstance(st.value, ast.Constant) and st.value.value is None))


def _negate_full(t):
    t = _copy.deepcopy(t)
    if isinstance(t, ast.UnaryOp) and isinstance(t.op, ast.Not):
        return t.operand
    if isinstance(t, ast.Compare) and len(t.ops) == 1:
        full = dict(_NEG)
        full.update({ast.Lt: ast.GtE, ast.GtE: ast.Lt, ast.Gt: ast.LtE, ast.LtE: ast.Gt})
        if type(t.ops[0]) in full:
            t.ops = [full[type(t.ops[0])]()]
            return t
    return ast.UnaryOp(op=ast.Not(), operand=t)


def _name_uses(f, name):
    return [n for n in ast.walk(f) if isinstance(n, ast.Name) and n.id == name]


def _candidates(f, ref_assigns=(), ref_locals=(), changed=None, ref_params=None, ref_comp_names=()):
    for c in _candidates_all(f, ref_assigns, ref_locals, changed, ref_params, ref_comp_names):
        yield c


_NEAR_CACHE = {}


def _near(changed, *nodes):
    if changed is None:
        return True
    for n in nodes:
        if n is None:
            continue
        t = _NEAR_CACHE.get(id(n))
        if t is None:
            try:
                t = ast.unparse(n)
            except Exception:
                return True
            _NEAR_CACHE[id(n)] = t
        if isinstance(n, ast.stmt):
            if any(l.strip() in changed for l in t.splitlines()):
                return True
        elif any(t in l for l in changed):
            return True
    return False


def _candidates_all(f, ref_assigns=(), ref_locals=(), changed=None, ref_params=None, ref_comp_names=()):
    """yields (kind, apply) where apply mutates f in place; sites are addressed by position so that they can be replayed on a copy"""
    _NEAR_CACHE.clear()
    used_names = set(n.id for n in ast.walk(f) if isinstance(n, ast.Name)) | set(a.arg for a in ast.walk(f) if isinstance(a, ast.arg))
    blocks = _blocks(f)
    for bi, b in enumerate(blocks):
        for i, st in enumerate(b):
            if not _near(changed, st, b[i + 1] if i + 1 < len(b) else None, b[i - 1] if i > 0 else None):
                continue
            # a guard whose terminator is what the block does anyway at its end: `if c: A; T` rest `T`  ->  `if c: A else: rest` `T`
            if isinstance(st, ast.If) and not st.orelse and i + 1 < len(b) and isinstance(st.body[-1], (ast.Return, ast.Continue, ast.Raise)):
                yield ('unguard', bi, i)
            if isinstance(st, ast.If) and st.orelse:
                yield ('swap', bi, i)
                # R3 un-nest: an if/else that ends the function (or a loop body) becomes guard + rest
                if i == len(b) - 1:
                    if b is f.body and not _generator(f):
                        yield ('guard_return', bi, i)
                        yield ('guard_return_else', bi, i)
            if isinstance(st, ast.If) and i == len(b) - 1 and b is f.body:
                for arm in ('body', 'orelse'):
                    a = getattr(st, arm)
                    if a and _bare_return(a[-1]):
                        yield ('drop_return_' + arm, bi, i)
            if isinstance(st, ast.Assign) and len(st.targets) == 1 and isinstance(st.value, ast.IfExp) and _plain(st.targets[0]):
                yield ('ifexp_to_stmt', bi, i)
            if isinstance(st, ast.Return) and isinstance(st.value, ast.IfExp):
                yield ('ifexp_to_stmt', bi, i)
            if isinstance(st, (ast.Return, ast.Assign)) and _tuple_ifexp(st.value) is not None and (isinstance(st, ast.Return) or (len(st.targets) == 1 and _plain(st.targets[0]))):
                yield ('ifexp_to_stmt', bi, i)
            if isinstance(st, ast.If) and st.orelse and len(st.body) == 1 and len(st.orelse) == 1:
                x, y = st.body[0], st.orelse[0]
                if isinstance(x, ast.Assign) and isinstance(y, ast.Assign) and len(x.targets) == 1 and len(y.targets) == 1 \
                        and _plain(x.targets[0]) and ast.dump(x.targets[0]) == ast.dump(y.targets[0]):
                    yield ('stmt_to_ifexp', bi, i)
                if isinstance(x, ast.Return) and isinstance(y, ast.Return) and x.value is not None and y.value is not None:
                    yield ('stmt_to_ifexp', bi, i)
            # `if c: return X` directly followed by `return Y`  ->  `return X if c else Y`   (and the same for two assignments to one target)
            if isinstance(st, ast.If) and not st.orelse and len(st.body) == 1 and i + 1 < len(b):
                x, y = st.body[0], b[i + 1]
                if isinstance(x, ast.Return) and isinstance(y, ast.Return) and x.value is not None:
                    yield ('ret_pair_to_ifexp', bi, i)
            # `xs.pop(i)` whose result is dropped  <->  `del xs[i]`
            if isinstance(st, ast.Expr) and isinstance(st.value, ast.Call) and isinstance(st.value.func, ast.Attribute) and st.value.func.attr == 'pop' \
                    and len(st.value.args) == 1 and not st.value.keywords and _plain(st.value.func.value):
                yield ('pop_to_del', bi, i)
            if isinstance(st, ast.Delete) and len(st.targets) == 1 and isinstance(st.targets[0], ast.Subscript) and _plain(st.targets[0].value) \
                    and not isinstance(st.targets[0].slice, ast.Slice):
                yield ('del_to_pop', bi, i)
            # the last statement of a loop body `if c: A`  ->  `if not c: continue` A
            if isinstance(st, ast.If) and not st.orelse and i == len(b) - 1 and any(isinstance(n_, (ast.For, ast.While, ast.AsyncFor)) and n_.body is b for n_ in own_nodes(f)):
                yield ('guard_loop', bi, i)
            # `if a or b: T`  <->  `if a: T` `if b: T`   (T a lone terminator)
            if isinstance(st, ast.If) and not st.orelse and len(st.body) == 1 and isinstance(st.body[0], (ast.Return, ast.Raise, ast.Continue, ast.Break)):
                if isinstance(st.test, ast.BoolOp) and isinstance(st.test.op, ast.Or):
                    yield ('split_or', bi, i)
                if i + 1 < len(b) and isinstance(b[i + 1], ast.If) and not b[i + 1].orelse and len(b[i + 1].body) == 1 and ast.dump(b[i + 1].body[0]) == ast.dump(st.body[0]):
                    yield ('merge_or', bi, i)
            # `with X: ...; t = E` then `return t`  <->  `with X: ...; return E`
            if isinstance(st, (ast.With, ast.AsyncWith)) and st.body and i + 1 < len(b) and isinstance(b[i + 1], ast.Return) and isinstance(b[i + 1].value, ast.Name) \
                    and isinstance(st.body[-1], ast.Assign) and len(st.body[-1].targets) == 1 and isinstance(st.body[-1].targets[0], ast.Name) \
                    and st.body[-1].targets[0].id == b[i + 1].value.id:
                yield ('return_into_with', bi, i)
            if isinstance(st, (ast.With, ast.AsyncWith)) and st.body and isinstance(st.body[-1], ast.Return) and st.body[-1].value is not None and i == len(b) - 1:
                yield ('return_out_of_with', bi, i)
            # R10 default then override  <->  if/else
            if isinstance(st, ast.Assign) and len(st.targets) == 1 and isinstance(st.targets[0], ast.Name) and _pure(st.value) and i + 1 < len(b):
                nx = b[i + 1]
                t = st.targets[0].id
                if isinstance(nx, ast.If) and not nx.orelse and nx.body and isinstance(nx.body[-1], ast.Assign) and len(nx.body[-1].targets) == 1 \
                        and isinstance(nx.body[-1].targets[0], ast.Name) and nx.body[-1].targets[0].id == t \
                        and not any(isinstance(x, ast.Name) and x.id == t for x in ast.walk(nx.test)) \
                        and not any(isinstance(x, ast.Name) and x.id == t and isinstance(x.ctx, ast.Load) for s_ in nx.body for x in ast.walk(s_)):
                    yield ('default_to_else', bi, i)
            if isinstance(st, ast.If) and st.orelse and len(st.orelse) == 1 and isinstance(st.orelse[0], ast.Assign) and len(st.orelse[0].targets) == 1 \
                    and isinstance(st.orelse[0].targets[0], ast.Name) and _pure(st.orelse[0].value):
                t = st.orelse[0].targets[0].id
                if st.body and isinstance(st.body[-1], ast.Assign) and len(st.body[-1].targets) == 1 and isinstance(st.body[-1].targets[0], ast.Name) \
                        and st.body[-1].targets[0].id == t and not any(isinstance(x, ast.Name) and x.id == t for x in ast.walk(st.test)) \
                        and not any(isinstance(x, ast.Name) and x.id == t and isinstance(x.ctx, ast.Load) for s_ in st.body for x in ast.walk(s_)):
                    yield ('else_to_default', bi, i)
            # R8 loop <-> comprehension
            if isinstance(st, ast.Assign) and len(st.targets) == 1 and isinstance(st.targets[0], ast.Name) and i + 1 < len(b):
                t = st.targets[0].id
                nx = b[i + 1]
                if isinstance(st.value, (ast.List, ast.Dict, ast.Set)) and not getattr(st.value, 'elts', getattr(st.value, 'keys', None)) \
                        or (isinstance(st.value, ast.Call) and isinstance(st.value.func, ast.Name) and st.value.func.id in ('list', 'dict', 'set') and not st.value.args and not st.value.keywords):
                    if isinstance(nx, ast.For) and not nx.orelse and _comp_body(nx, t) is not None:
                        yield ('loop_to_comp', bi, i)
            if isinstance(st, ast.Assign) and len(st.targets) == 1 and isinstance(st.targets[0], ast.Name) \
                    and isinstance(st.value, (ast.ListComp, ast.SetComp, ast.DictComp)) and len(st.value.generators) == 1 and not st.value.generators[0].is_async:
                yield ('comp_to_loop', bi, i)
            # R17 try/else  <->  code after the try
            if isinstance(st, ast.Try) and not st.finalbody and st.handlers and all(_terminates(h.body) for h in st.handlers):
                if st.orelse:
                    yield ('try_else_out', bi, i)
                elif i + 1 < len(b):
                    yield ('try_else_in', bi, i)
            # a local that is never read and whose value has no effect
            if isinstance(st, ast.Assign) and len(st.targets) == 1 and isinstance(st.targets[0], ast.Name) and _pure_value(st.value):
                yield ('drop_dead', bi, i)
            # two neighbouring statements of which one only binds a constant / pure value to a local the other does not mention
            if i + 1 < len(b) and (_movable(st, b[i + 1]) or _movable(b[i + 1], st)):
                yield ('swap_adjacent', bi, i)
            # (f if c else g)(args)  <->  if c: f(args) else: g(args)
            if isinstance(st, ast.Expr) and isinstance(st.value, ast.Call) and isinstance(st.value.func, ast.IfExp):
                yield ('ifexp_call_to_stmt', bi, i)
            # R14 single-use temporary
            if isinstance(st, ast.Assign) and len(st.targets) == 1 and isinstance(st.targets[0], ast.Name) and i + 1 < len(b):
                yield ('inline_temp', bi, i)
            if isinstance(st, ast.Assign) and len(st.targets) == 1 and isinstance(st.targets[0], ast.Name) and _plain(st.value):
                yield ('alias', bi, i)
    # a temporary the reference names and the current text has folded into its use
    bound = set(ordered_locals(f)) | set(params_of(f))
    for ri, (name, expr_text) in enumerate(ref_assigns):
        if name not in params_of(f):
            yield ('extract_ref_temp', ri, 0)
    # a single-assignment local whose value can be re-evaluated: each use may spell the value out
    own_ = own_nodes(f)
    import re as _re
    words = set(w for l in (changed or ()) for w in _re.findall(r'[A-Za-z_][A-Za-z_0-9]*', l))
    for name in ordered_locals(f):
        if changed is not None and name not in words:
            continue
        nl = len([n for n in own_ if isinstance(n, ast.Name) and n.id == name and isinstance(n.ctx, ast.Load)])
        for k_ in range(min(nl, 8)):
            yield ('fwd_subst', name, k_)
    # a local the reference does not have may be a renamed reference local
    cur_l = ordered_locals(f)
    for c_ in cur_l:
        if c_ not in ref_locals and (changed is None or c_ in words):
            for r_ in ref_locals:
                if r_ not in cur_l and r_ not in used_names:
                    yield ('rename', c_, r_)
    # the bound variables of comprehensions are private to them: rename towards the names the reference uses
    comps_ = [n for n in own_ if isinstance(n, COMPS)]
    if comps_ and ref_comp_names:
        cur_names = set(x.id for c in comps_ for g_ in c.generators for x in ast.walk(g_.target) if isinstance(x, ast.Name))
        for ci, c in enumerate(comps_):
            if not _near(changed, c):
                continue
            for x in [x for g_ in c.generators for x in ast.walk(g_.target) if isinstance(x, ast.Name)]:
                if x.id not in ref_comp_names:
                    for r_ in ref_comp_names:
                        if r_ not in cur_names and r_ not in used_names:
                            yield ('rename_comp', ci, (x.id, r_))
    for k3, n in enumerate(own_):
        if isinstance(n, ast.Call) and isinstance(n.func, ast.Name) and n.func.id == 'dict' and len(n.args) == 1 and not n.keywords \
                and isinstance(n.args[0], (ast.GeneratorExp, ast.ListComp)) and isinstance(n.args[0].elt, ast.Tuple) and len(n.args[0].elt.elts) == 2 and _near(changed, n):
            yield ('dict_call_to_comp', k3, 0)
        if isinstance(n, ast.DictComp) and _near(changed, n):
            yield ('dict_comp_to_call', k3, 0)
    # parameters of a nested function (a closure is not an interface): positional renaming towards the reference
    if ref_params is not None:
        cur_p = params_of(f)
        if len(cur_p) == len(ref_params):
            for c_, r_ in zip(cur_p, ref_params):
                if c_ != r_ and r_ not in used_names and r_ not in cur_p:
                    yield ('rename_param', c_, r_)
    for k2, n in enumerate(own_):
        if isinstance(n, (ast.If, ast.While, ast.IfExp)) and _near(changed, n.test):
            t_ = n.test
            inner_ = t_.operand if isinstance(t_, ast.UnaryOp) and isinstance(t_.op, ast.Not) else t_
            if _len_cmp0(inner_) is not None:
                yield ('len_zero', k2, 0)
    k = 0
    for n in own_:
        if isinstance(n, ast.Call) and len(n.args) == 1 and not n.keywords and isinstance(n.args[0], (ast.GeneratorExp, ast.ListComp)) and _consumes(n) and _near(changed, n):
            yield ('comp_kind', k, 0)
        if flippable(n) and _near(changed, n):
            yield ('mirror', k, 0)
        if isinstance(n, ast.UnaryOp) and isinstance(n.op, ast.Not) and isinstance(n.operand, ast.BoolOp) and _near(changed, n):
            yield ('demorgan', k, 0)
        if isinstance(n, ast.BoolOp) and _near(changed, n):
            yield ('demorgan_rev', k, 0)
        k += 1


def _pure_value(e):
    """evaluating e has no effect: constants, names, attribute chains, arithmetic / comparisons / containers of those"""
    if isinstance(e, (ast.Constant, ast.Name)):
        return True
    if isinstance(e, ast.Attribute):
        return _pure_value(e.value)
    if isinstance(e, (ast.BinOp,)):
        return _pure_value(e.left) and _pure_value(e.right)
    if isinstance(e, ast.UnaryOp):
        return _pure_value(e.operand)
    if isinstance(e, ast.BoolOp):
        return all(_pure_value(v) for v in e.values)
    if isinstance(e, ast.Compare):
        return _pure_value(e.left) and all(_pure_value(c) for c in e.comparators)
    if isinstance(e, (ast.Tuple, ast.List, ast.Set)):
        return all(_pure_value(x) for x in e.elts)
    if isinstance(e, ast.Dict):
        return all(k is not None and _pure_value(k) for k in e.keys) and all(_pure_value(v) for v in e.values)
    return False


def _movable(a, other):
    """statement a is `local = <constant>` and `other` does not mention that local"""
    if not (isinstance(a, ast.Assign) and len(a.targets) == 1 and isinstance(a.targets[0], ast.Name) and isinstance(a.value, ast.Constant)):
        return False
    t = a.targets[0].id
    return not any(isinstance(x, ast.Name) and x.id == t for x in ast.walk(other)) and not any(isinstance(x, SCOPES) for x in ast.walk(other))


def _consumes(call):
    """the callee exhausts its single iterable argument at once, so a generator and a list give the same result"""
    f = call.func
    if isinstance(f, ast.Name) and f.id in ('tuple', 'list', 'set', 'frozenset', 'dict', 'sorted', 'sum', 'min', 'max', 'any', 'all', 'OrderedDict'):
        return True
    return isinstance(f, ast.Attribute) and f.attr in ('join', 'extend', 'update', 'union')


def _falls_to(f, block, where):
    """falling off the end of `block` reaches the function exit ('exit') / the head of the innermost loop ('loop') without executing anything else"""
    if block is f.body:
        return where == 'exit'
    for n in own_nodes(f):
        for fld in ('body', 'orelse', 'finalbody'):
            if getattr(n, fld, None) is block:
                if isinstance(n, (ast.For, ast.While, ast.AsyncFor)):
                    return where == 'loop' and fld == 'body'
                if isinstance(n, ast.Try) and (n.finalbody or (fld == 'body' and n.orelse)):
                    return False
                if isinstance(n, (ast.If, ast.Try, ast.With, ast.AsyncWith, ast.ExceptHandler)):
                    # the statement owning this block must itself be last in its own block
                    owner = n
                    if isinstance(n, ast.ExceptHandler):
                        owner = next((t for t in own_nodes(f) if isinstance(t, ast.Try) and n in t.handlers), None)
                        if owner is None or owner.finalbody:
                            return False
                    for ob in _blocks(f):
                        if ob and ob[-1] is owner:
                            return _falls_to(f, ob, where)
                    return False
                return False
    return False


def _next_after(f, block):
    """the statement executed right after falling off the end of `block` (None: unknown, loop head or function exit)"""
    for n in own_nodes(f):
        for fld in ('body', 'orelse'):
            if getattr(n, fld, None) is block:
                if not isinstance(n, (ast.If, ast.With, ast.AsyncWith)):
                    return None
                for ob in _blocks(f):
                    for k, x in enumerate(ob):
                        if x is n:
                            if k + 1 < len(ob):
                                return ob[k + 1]
                            return _next_after(f, ob)
                return None
    return None


def _len_cmp0(e):
    """len(X) == 0 -> ('empty', X);  len(X) != 0 / len(X) > 0 / len(X) >= 1 -> ('nonempty', X)"""
    if isinstance(e, ast.Compare) and len(e.ops) == 1 and isinstance(e.left, ast.Call) and isinstance(e.left.func, ast.Name) and e.left.func.id == 'len' \
            and len(e.left.args) == 1 and isinstance(e.comparators[0], ast.Constant):
        c, op = e.comparators[0].value, e.ops[0]
        if c == 0 and isinstance(op, ast.Eq):
            return 'empty', e.left.args[0]
        if (c == 0 and isinstance(op, (ast.NotEq, ast.Gt))) or (c == 1 and isinstance(op, ast.GtE)):
            return 'nonempty', e.left.args[0]
    return None


def _generator(f):
    return any(isinstance(n, (ast.Yield, ast.YieldFrom)) for n in own_nodes(f))


def _comp_body(loop, t):
    """(element expr(s), condition or None) when the loop body only adds to t"""
    body = loop.body
    cond = None
    if len(body) == 1 and isinstance(body[0], ast.If) and not body[0].orelse:
        cond = body[0].test
        body = body[0].body
    if len(body) != 1:
        return None
    st = body[0]
    if isinstance(st, ast.Expr) and isinstance(st.value, ast.Call) and isinstance(st.value.func, ast.Attribute) and isinstance(st.value.func.value, ast.Name) \
            and st.value.func.value.id == t and st.value.func.attr in ('append', 'add') and len(st.value.args) == 1 and not st.value.keywords:
        res = ('elt', st.value.func.attr, st.value.args[0], cond)
    elif isinstance(st, ast.Assign) and len(st.targets) == 1 and isinstance(st.targets[0], ast.Subscript) and isinstance(st.targets[0].value, ast.Name) \
            and st.targets[0].value.id == t:
        res = ('kv', 'dict', (st.targets[0].slice, st.value), cond)
    else:
        return None
    used = [x for part in ([loop.iter, cond] + list(res[2] if isinstance(res[2], tuple) else [res[2]])) if part is not None for x in ast.walk(part)
            if isinstance(x, ast.Name) and x.id == t]
    if used:
        return None
    return res


def _with_chain(f, node):
    """the `with` statements of f that enclose node, outermost first (the lock regions it executes in)"""
    out = []

    def rec(cur, chain):
        for ch in _children_in_order(cur):
            if ch is node:
                out.extend(chain)
                return True
            if isinstance(ch, SCOPES):
                continue
            if rec(ch, chain + [ch] if isinstance(ch, (ast.With, ast.AsyncWith)) else chain):
                return True
        return False
    rec(f, [])
    return [id(x) for x in out]


def _mentions_shared(e):
    """reads state that other threads may change: an attribute chain (self.x, conn.y ...)"""
    return any(isinstance(x, ast.Attribute) for x in ast.walk(e))


def _reevaluable(f, e):
    """evaluating e again later in f gives the same value and has no effect: constants, parameters / locals that are bound once, and len() of such"""
    if isinstance(e, ast.Constant):
        return True
    if isinstance(e, ast.Name):
        stores = [n for n in own_nodes(f) if isinstance(n, ast.Name) and n.id == e.id and isinstance(n.ctx, (ast.Store, ast.Del))]
        return len(stores) == (0 if e.id in params_of(f) else 1)
    if isinstance(e, ast.Call) and isinstance(e.func, ast.Name) and e.func.id == 'len' and len(e.args) == 1 and not e.keywords and isinstance(e.args[0], ast.Name):
        x = e.args[0].id
        if not _reevaluable(f, e.args[0]):
            return False
        # the sized object is not mutated in this function: no method call on it, not passed anywhere, no item store
        for n in own_nodes(f):
            if isinstance(n, ast.Attribute) and isinstance(n.value, ast.Name) and n.value.id == x:
                return False
            if isinstance(n, ast.Subscript) and isinstance(n.value, ast.Name) and n.value.id == x and isinstance(n.ctx, (ast.Store, ast.Del)):
                return False
            if isinstance(n, ast.Call) and any(isinstance(a, ast.Name) and a.id == x for a in n.args) and not (isinstance(n.func, ast.Name) and n.func.id in ('len', 'zip', 'enumerate', 'isinstance', 'iter', 'list', 'tuple')):
                return False
        return True
    if isinstance(e, ast.BinOp):
        return _reevaluable(f, e.left) and _reevaluable(f, e.right)
    if isinstance(e, ast.Compare):
        return _reevaluable(f, e.left) and all(_reevaluable(f, c) for c in e.comparators)
    if isinstance(e, ast.BoolOp):
        return all(_reevaluable(f, v) for v in e.values)
    if isinstance(e, ast.UnaryOp):
        return _reevaluable(f, e.operand)
    if isinstance(e, ast.Attribute):
        # an attribute chain that this function never assigns (nor any prefix / extension of it)
        if not _plain(e):
            return False
        ch = ast.unparse(e)
        base = e
        while isinstance(base, ast.Attribute):
            base = base.value
        if base.id != 'self' and not _reevaluable(f, base):
            return False
        for n in own_nodes(f):
            if isinstance(n, ast.Attribute) and isinstance(n.ctx, (ast.Store, ast.Del)):
                tx = ast.unparse(n)
                if tx == ch or ch.startswith(tx + '.') or tx.startswith(ch + '.'):
                    return False
        return True
    return False


def _apply(f, cand, ref_assigns=()):
    kind, a, i = cand
    if kind == 'extract_ref_temp':
        name, expr_text = ref_assigns[a]
        for b in _blocks(f):
            for j, st in enumerate(b):
                fe = _first_evaluated(st)
                if fe is None:
                    continue
                hits = [x for x in ast.walk(fe) if isinstance(x, ast.expr) and not isinstance(x, ast.Name) and ast.unparse(x) == expr_text]
                if len(hits) != 1:
                    continue
                mark = '__extract_mark__'
                probe = _copy.deepcopy(fe)
                # the occurrence must be what the statement evaluates first (so that hoisting it keeps the order of effects)
                hit_idx = [k for k, x in enumerate(ast.walk(fe)) if x is hits[0]][0]
                target = list(ast.walk(probe))[hit_idx]
                _replace_node(ast.Expression(body=probe), target, ast.Name(id=mark, ctx=ast.Load())) if target is not probe else None
                if target is probe:
                    probe = ast.Name(id=mark, ctx=ast.Load())
                if not _load_is_first(probe, mark):
                    continue
                # the name may be bound elsewhere (another arm): binding it here must not be visible to any read that follows
                order = own_nodes(f)
                pos_ = [k for k, x in enumerate(order) if x is st]
                if not pos_:
                    continue
                later_loads = [x for x in order[pos_[0]:] if isinstance(x, ast.Name) and x.id == name and isinstance(x.ctx, ast.Load)]
                in_loop = any(isinstance(l_, (ast.For, ast.While, ast.AsyncFor)) and any(x is st for x in ast.walk(l_)) and
                              any(isinstance(x, ast.Name) and x.id == name and isinstance(x.ctx, ast.Load) for x in ast.walk(l_)) for l_ in order)
                if later_loads or in_loop:
                    continue
                new_name = ast.Name(id=name, ctx=ast.Load())
                if hits[0] is fe:
                    for fld in ('test', 'value', 'iter', 'exc'):
                        if getattr(st, fld, None) is fe:
                            setattr(st, fld, new_name)
                    if isinstance(st, (ast.With, ast.AsyncWith)) and st.items and st.items[0].context_expr is fe:
                        st.items[0].context_expr = new_name
                else:
                    _replace_node(st, hits[0], new_name)
                b.insert(j, ast.Assign(targets=[ast.Name(id=name, ctx=ast.Store())], value=hits[0]))
                return True
        return False
    if kind == 'fwd_subst':
        t = a
        own = own_nodes(f)
        stores = [n for n in own if isinstance(n, ast.Name) and n.id == t and isinstance(n.ctx, (ast.Store, ast.Del))]
        if len(stores) != 1 or t in params_of(f):
            return False
        d = None
        for b in _blocks(f):
            for st in b:
                if isinstance(st, ast.Assign) and len(st.targets) == 1 and st.targets[0] is stores[0]:
                    d = st
        if d is None or isinstance(d.value, ast.Name) or not _reevaluable(f, d.value):
            return False
        nested = any(isinstance(x, ast.Name) and x.id == t for n in ast.walk(f) if n is not f and isinstance(n, SCOPES + COMPS) for x in ast.walk(n))
        if nested:
            return False
        loads = [n for n in own if isinstance(n, ast.Name) and n.id == t and isinstance(n.ctx, ast.Load)]
        if not loads:
            return False
        if i >= len(loads):
            return False
        # a read of shared state keeps its place relative to the lock regions: the value seen under a lock is not the value seen after it
        if _mentions_shared(d.value) and _with_chain(f, d) != _with_chain(f, loads[i]):
            return False
        _replace_node(f, loads[i], _copy.deepcopy(d.value))
        return True
    if kind == 'rename':
        if a in params_of(f):
            return False
        _rename(f, {a: i})
        return True
    if kind == 'rename_comp':
        comps_ = [n for n in own_nodes(f) if isinstance(n, COMPS)]
        c = comps_[a]
        old_, new_ = i
        for x in ast.walk(c):
            if isinstance(x, ast.Name) and x.id == old_:
                x.id = new_
        return True
    if kind in ('dict_call_to_comp', 'dict_comp_to_call'):
        n = own_nodes(f)[a]
        if kind == 'dict_call_to_comp':
            g_ = n.args[0]
            _replace_node(f, n, ast.DictComp(key=g_.elt.elts[0], value=g_.elt.elts[1], generators=g_.generators))
        else:
            ge = ast.GeneratorExp(elt=ast.Tuple(elts=[n.key, n.value], ctx=ast.Load()), generators=n.generators)
            _replace_node(f, n, ast.Call(func=ast.Name(id='dict', ctx=ast.Load()), args=[ge], keywords=[]))
        return True
    if kind == 'rename_param':
        for x in ast.walk(f.args):
            if isinstance(x, ast.arg) and x.arg == a:
                x.arg = i
        for x in own_nodes(f):
            if isinstance(x, ast.Name) and x.id == a:
                x.id = i
        return True
    if kind == 'len_zero':
        n = own_nodes(f)[a]
        t_ = n.test
        neg = isinstance(t_, ast.UnaryOp) and isinstance(t_.op, ast.Not)
        inner_ = t_.operand if neg else t_
        lc = _len_cmp0(inner_)
        if lc is not None:
            # a sized container is falsy exactly when its length is 0
            new_t = lc[1] if lc[0] == 'nonempty' else ast.UnaryOp(op=ast.Not(), operand=lc[1])
        else:
            new_t = ast.Compare(left=ast.Call(func=ast.Name(id='len', ctx=ast.Load()), args=[inner_], keywords=[]), ops=[ast.NotEq()], comparators=[ast.Constant(value=0)])
            return False        # the reverse direction needs the value to be a sized container, which the syntax does not show
        n.test = ast.UnaryOp(op=ast.Not(), operand=new_t) if neg else new_t
        return True
    if kind in ('mirror', 'demorgan', 'demorgan_rev', 'comp_kind'):
        n = own_nodes(f)[a]
        if kind == 'comp_kind':
            g_ = n.args[0]
            n.args[0] = (ast.ListComp if isinstance(g_, ast.GeneratorExp) else ast.GeneratorExp)(elt=g_.elt, generators=g_.generators)
        elif kind == 'mirror':
            m = mirrored(n)
            n.left, n.ops, n.comparators = m.left, m.ops, m.comparators
        elif kind == 'demorgan':
            bo = n.operand
            new = ast.BoolOp(op=ast.Or() if isinstance(bo.op, ast.And) else ast.And(), values=[_negate_full(v) for v in bo.values])
            _replace_node(f, n, new)
        else:
            new = ast.UnaryOp(op=ast.Not(), operand=ast.BoolOp(op=ast.Or() if isinstance(n.op, ast.And) else ast.And(), values=[_negate_full(v) for v in n.values]))
            _replace_node(f, n, new)
        return True
    b = _blocks(f)[a]
    st = b[i]
    if kind == 'unguard':
        T = st.body[-1]
        last = b[-1]
        explicit = last is not st and ast.dump(last) == ast.dump(T)
        if explicit:
            rest = b[i + 1:-1]
            tail = [last]
        else:
            implicit = (isinstance(T, ast.Continue) and _falls_to(f, b, 'loop')) or (_bare_return(T) and _falls_to(f, b, 'exit'))
            if not implicit:
                nx = _next_after(f, b)
                implicit = nx is not None and ast.dump(nx) == ast.dump(T)
            if not implicit:
                return False
            rest = b[i + 1:]
            tail = []
        if not rest:
            return False
        head = st.body[:-1]
        if head:
            st.orelse = rest
            st.body = head
        else:
            st.test = _negate_full(st.test)
            st.body = rest
        del b[i + 1:]
        b.extend(tail)
    elif kind == 'swap':
        st.test = _negate_full(st.test)
        st.body, st.orelse = st.orelse, st.body
    elif kind in ('guard_return', 'guard_return_else'):
        if kind == 'guard_return_else':
            st.test = _negate_full(st.test)
            st.body, st.orelse = st.orelse, st.body
        if not _terminates(st.body):
            st.body.append(ast.Return(value=None))
        rest, st.orelse = st.orelse, []
        b.extend(rest)
    elif kind.startswith('drop_return_'):
        arm = getattr(st, kind[len('drop_return_'):])
        arm.pop()
        if not arm:
            arm.append(ast.Pass())
    elif kind == 'ifexp_to_stmt':
        e = st.value
        wrap = lambda v: v
        k = _tuple_ifexp(e) if not isinstance(e, ast.IfExp) else None
        if k is not None:
            tup, e = e, e.elts[k]

            def wrap(v, tup=tup, k=k):
                t2 = _copy.deepcopy(tup)
                t2.elts[k] = v
                return t2
        if isinstance(st, ast.Assign):
            mk = lambda v: ast.Assign(targets=_copy.deepcopy(st.targets), value=wrap(v))
        else:
            mk = lambda v: ast.Return(value=wrap(v))
        b[i] = ast.If(test=e.test, body=[mk(e.body)], orelse=[mk(e.orelse)])
    elif kind == 'stmt_to_ifexp':
        x, y = st.body[0], st.orelse[0]
        e = ast.IfExp(test=st.test, body=x.value, orelse=y.value)
        b[i] = ast.Assign(targets=x.targets, value=e) if isinstance(x, ast.Assign) else ast.Return(value=e)
    elif kind == 'pop_to_del':
        c = st.value
        b[i] = ast.Delete(targets=[ast.Subscript(value=c.func.value, slice=c.args[0], ctx=ast.Del())])
    elif kind == 'del_to_pop':
        t = st.targets[0]
        v = _copy.deepcopy(t.value)
        for x in ast.walk(v):
            if hasattr(x, 'ctx'):
                x.ctx = ast.Load()
        b[i] = ast.Expr(value=ast.Call(func=ast.Attribute(value=v, attr='pop', ctx=ast.Load()), args=[t.slice], keywords=[]))
    elif kind == 'guard_loop':
        body = st.body
        b[i:i + 1] = [ast.If(test=_negate_full(st.test), body=[ast.Continue()], orelse=[])] + body
    elif kind == 'split_or':
        parts = st.test.values
        b[i:i + 1] = [ast.If(test=v, body=[_copy.deepcopy(st.body[0])], orelse=[]) for v in parts]
    elif kind == 'merge_or':
        nx = b[i + 1]
        vals = []
        for t_ in (st.test, nx.test):
            vals.extend(t_.values if isinstance(t_, ast.BoolOp) and isinstance(t_.op, ast.Or) else [t_])
        st.test = ast.BoolOp(op=ast.Or(), values=vals)
        del b[i + 1]
    elif kind == 'return_into_with':
        t = b[i + 1].value.id
        uses = [n for n in own_nodes(f) if isinstance(n, ast.Name) and n.id == t]
        if len(uses) != 2:
            return False
        st.body[-1] = ast.Return(value=st.body[-1].value)
        del b[i + 1]
    elif kind == 'return_out_of_with':
        r = st.body[-1]
        name = 'result'
        if _name_uses(f, name):
            return False
        st.body[-1] = ast.Assign(targets=[ast.Name(id=name, ctx=ast.Store())], value=r.value)
        b.insert(i + 1, ast.Return(value=ast.Name(id=name, ctx=ast.Load())))
    elif kind == 'ret_pair_to_ifexp':
        x, y = st.body[0], b[i + 1]
        yv = y.value if y.value is not None else ast.Constant(value=None)
        b[i:i + 2] = [ast.Return(value=ast.IfExp(test=st.test, body=x.value, orelse=yv))]
    elif kind == 'default_to_else':
        nx = b[i + 1]
        nx.orelse = [st]
        del b[i]
    elif kind == 'else_to_default':
        d = st.orelse[0]
        st.orelse = []
        b.insert(i, d)
    elif kind == 'loop_to_comp':
        t = st.targets[0].id
        loop = b[i + 1]
        res = _comp_body(loop, t)
        if res is None:
            return False
        # the loop variable must not be read after the loop (a comprehension does not leak it)
        tn = set(x.id for x in ast.walk(loop.target) if isinstance(x, ast.Name))
        after = [x for s_ in b[i + 2:] for x in ast.walk(s_) if isinstance(x, ast.Name) and x.id in tn and isinstance(x.ctx, ast.Load)]
        if after:
            return False
        gen = ast.comprehension(target=loop.target, iter=loop.iter, ifs=[res[3]] if res[3] is not None else [], is_async=0)
        is_set = isinstance(st.value, ast.Set) or (isinstance(st.value, ast.Call) and st.value.func.id == 'set') or res[1] == 'add'
        if res[0] == 'kv':
            comp = ast.DictComp(key=res[2][0], value=res[2][1], generators=[gen])
        elif is_set:
            comp = ast.SetComp(elt=res[2], generators=[gen])
        else:
            comp = ast.ListComp(elt=res[2], generators=[gen])
        st.value = comp
        del b[i + 1]
    elif kind == 'comp_to_loop':
        c = st.value
        g = c.generators[0]
        t = st.targets[0].id
        tn = set(x.id for x in ast.walk(g.target) if isinstance(x, ast.Name))
        # the loop variable becomes a function local: it must not already mean something in this function
        if any(x.id in tn for x in ast.walk(f) if isinstance(x, ast.Name) and not any(x is y for y in ast.walk(c))):
            return False
        if isinstance(c, ast.DictComp):
            init = ast.Dict(keys=[], values=[])
            add = ast.Assign(targets=[ast.Subscript(value=ast.Name(id=t, ctx=ast.Load()), slice=c.key, ctx=ast.Store())], value=c.value)
        elif isinstance(c, ast.SetComp):
            init = ast.Call(func=ast.Name(id='set', ctx=ast.Load()), args=[], keywords=[])
            add = ast.Expr(value=ast.Call(func=ast.Attribute(value=ast.Name(id=t, ctx=ast.Load()), attr='add', ctx=ast.Load()), args=[c.elt], keywords=[]))
        else:
            init = ast.List(elts=[], ctx=ast.Load())
            add = ast.Expr(value=ast.Call(func=ast.Attribute(value=ast.Name(id=t, ctx=ast.Load()), attr='append', ctx=ast.Load()), args=[c.elt], keywords=[]))
        body = [add]
        for cond in reversed(g.ifs):
            body = [ast.If(test=cond, body=body, orelse=[])]
        tgt = _copy.deepcopy(g.target)
        for x in ast.walk(tgt):
            if hasattr(x, 'ctx'):
                x.ctx = ast.Store()
        b[i:i + 1] = [ast.Assign(targets=st.targets, value=init), ast.For(target=tgt, iter=g.iter, body=body, orelse=[])]
    elif kind == 'drop_dead':
        t = st.targets[0].id
        if t in params_of(f) or any(isinstance(x, ast.Name) and x.id == t and isinstance(x.ctx, ast.Load) for x in ast.walk(f)):
            return False
        del b[i]
        if not b:
            b.append(ast.Pass())
    elif kind == 'swap_adjacent':
        loc = set(ordered_locals(f))
        a_, c_ = b[i], b[i + 1]
        mv = a_ if _movable(a_, c_) else c_
        if mv.targets[0].id not in loc:
            return False
        b[i], b[i + 1] = b[i + 1], b[i]
    elif kind == 'ifexp_call_to_stmt':
        c = st.value
        e = c.func
        mk = lambda fn: ast.Expr(value=ast.Call(func=fn, args=_copy.deepcopy(c.args), keywords=_copy.deepcopy(c.keywords)))
        b[i] = ast.If(test=e.test, body=[mk(e.body)], orelse=[mk(e.orelse)])
    elif kind == 'try_else_out':
        rest, st.orelse = st.orelse, []
        b[i + 1:i + 1] = rest
    elif kind == 'try_else_in':
        st.orelse = b[i + 1:]
        del b[i + 1:]
    elif kind == 'inline_temp':
        t = st.targets[0].id
        own = own_nodes(f)
        stores = [n for n in own if isinstance(n, ast.Name) and n.id == t and isinstance(n.ctx, (ast.Store, ast.Del))]
        loads = [n for n in own if isinstance(n, ast.Name) and n.id == t and isinstance(n.ctx, ast.Load)]
        nested = any(isinstance(x, ast.Name) and x.id == t for n in ast.walk(f) if n is not f and isinstance(n, SCOPES + COMPS) for x in ast.walk(n))
        if len(stores) != 1 or len(loads) != 1 or nested or t in params_of(f):
            return False
        nxt = b[i + 1]
        fe = _first_evaluated(nxt)
        if fe is None or not any(x is loads[0] for x in ast.walk(fe)) or not _load_is_first(fe, t):
            return False
        new_fe = _Subst(t, st.value).visit(fe)
        for fld in ('test', 'value', 'iter', 'exc'):
            if getattr(nxt, fld, None) is fe:
                setattr(nxt, fld, new_fe)
        if isinstance(nxt, (ast.With, ast.AsyncWith)) and nxt.items and nxt.items[0].context_expr is fe:
            nxt.items[0].context_expr = new_fe
        del b[i]
    elif kind == 'alias':
        t = st.targets[0].id
        own = own_nodes(f)
        stores = [n for n in own if isinstance(n, ast.Name) and n.id == t and isinstance(n.ctx, (ast.Store, ast.Del))]
        nested = any(isinstance(x, ast.Name) and x.id == t for n in ast.walk(f) if n is not f and isinstance(n, SCOPES + COMPS) for x in ast.walk(n))
        if len(stores) != 1 or nested or t in params_of(f):
            return False
        # every read is in the rest of this block (so the binding reaches it on every path that gets there)
        later = set(id(x) for s_ in b[i + 1:] for x in ast.walk(s_))
        if any(isinstance(x, ast.Name) and x.id == t and isinstance(x.ctx, ast.Load) and id(x) not in later for x in own):
            return False
        # the aliased chain (and its prefixes) is not rebound in this function
        ch = ast.unparse(st.value)
        for n in own:
            if isinstance(n, (ast.Attribute, ast.Name)) and isinstance(getattr(n, 'ctx', None), (ast.Store, ast.Del)):
                tx = ast.unparse(n)
                if ch == tx or ch.startswith(tx + '.'):
                    return False
        # every read comes after the assignment (same top-level block, later position)
        pos = i
        for j, s_ in enumerate(b):
            if j <= pos and any(isinstance(x, ast.Name) and x.id == t and isinstance(x.ctx, ast.Load) for x in ast.walk(s_)):
                return False
        val = st.value
        if _mentions_shared(val):
            wc = _with_chain(f, st)
            if any(_with_chain(f, x) != wc for x in own if isinstance(x, ast.Name) and x.id == t and isinstance(x.ctx, ast.Load)):
                return False
        if not any(isinstance(x, ast.Name) and x.id == t and isinstance(x.ctx, ast.Load) for x in own):
            return False
        del b[i]
        if not b:
            b.append(ast.Pass())

        class A(ast.NodeTransformer):
            def visit_Name(s, n):
                if n.id == t and isinstance(n.ctx, ast.Load):
                    return _copy.deepcopy(val)
                return n
        A().visit(f)
    else:
        return False
    return True


def _replace_node(f, old, new):
    class T(ast.NodeTransformer):
        def generic_visit(s, node):
            for fld, v in ast.iter_fields(node):
                if isinstance(v, list):
                    for k, x in enumerate(v):
                        if x is old:
                            v[k] = new
                        elif isinstance(x, ast.AST):
                            s.generic_visit(x)
                elif v is old:
                    setattr(node, fld, new)
                elif isinstance(v, ast.AST):
                    s.generic_visit(v)
            return node
    T().generic_visit(f)


def _changed_lines(lines, ref_lines):
    """lines of the current text that do not line up with the reference, with one line of context on each side"""
    sm = _difflib.SequenceMatcher(None, lines, ref_lines, autojunk=False)
    ch = set()
    for tag, i1, i2, _j1, _j2 in sm.get_opcodes():
        if tag != 'equal':
            for k in range(max(0, i1 - 1), min(len(lines), i2 + 1)):
                ch.add(lines[k])
    return ch


_DEADLINE = [None]
_SOFT_MOVES = frozenset(['rename', 'rename_param', 'rename_comp', 'mirror', 'inline_temp', 'extract_ref_temp', 'fwd_subst', 'drop_dead', 'alias', 'comp_kind',
                         'len_zero', 'pop_to_del', 'del_to_pop', 'swap_adjacent', 'demorgan', 'demorgan_rev', 'dict_call_to_comp', 'dict_comp_to_call'])


def towards(f, ref_text, budget=300, seconds=2.0, nested=False):
    """best-first search over rewrite sequences; returns the closest function found (possibly f itself)"""
    import time as _time
    ref_lines = [l.strip() for l in ref_text.splitlines()[1:]]
    ref_assigns = []
    try:
        rf = ast.parse(ref_text).body[0]
        for n in own_nodes(rf):
            if isinstance(n, ast.Assign) and len(n.targets) == 1 and isinstance(n.targets[0], ast.Name) and not isinstance(n.value, (ast.Name, ast.Constant)):
                ref_assigns.append((n.targets[0].id, ast.unparse(n.value)))
        ref_locals = ordered_locals(rf)
        ref_tests = set(tests_of(rf))
        ref_params = params_of(rf)
        ref_comp_names = sorted(set(x.id for c in own_nodes(rf) if isinstance(c, COMPS) for g_ in c.generators for x in ast.walk(g_.target) if isinstance(x, ast.Name)))
    except SyntaxError:
        ref_locals = []
        ref_tests = set()
        ref_params = []
        ref_comp_names = []
    start = _lines(f)
    d0 = _dist(start, ref_lines)
    if d0 == 0:
        return f, 0, 0
    # deterministic work budget (never wall-clock: the verdict must not depend on machine load): one unit per syntax node copied
    size = max(1, sum(1 for _ in ast.walk(f)))
    units = min(600000, _DEADLINE[0] if _DEADLINE[0] is not None else 600000)
    budget = max(20, min(budget * 4, units // size))
    best, best_d = f, d0
    # a state reached only through spelling-level moves is always an improvement for the rules; a state that restructured control
    # flow is kept only when the search gets at least half of the way to the reference text - a half-way shape is one no rule was written for
    soft_best, soft_d = f, d0
    seen = set(['\n'.join(start)])
    frontier = [(d0, 0, f, start, True)]
    tick = 0
    spent = 0
    expanded = 0
    max_expand = max(6, min(60, 120000 // size))
    while frontier and spent < budget and best_d > 0 and expanded < max_expand:
        expanded += 1
        frontier.sort(key=lambda x: (x[0], x[1]))
        d, _t, cur, cur_lines, cur_soft = frontier.pop(0)
        if d > best_d + 6:
            break
        changed = _changed_lines(cur_lines, ref_lines)
        for cand in list(_candidates(cur, ref_assigns, ref_locals, changed, ref_params if nested else None, ref_comp_names)):
            if spent >= budget:
                break
            spent += 1
            try:
                g = _copy.deepcopy(cur)
            except RecursionError:
                break
            try:
                if not _apply(g, cand, ref_assigns):
                    continue
                ast.fix_missing_locations(g)
                sh = _Shape({g.name: ref_tests})
                sh.prefix = ''
                g = sh.visit(g)
                ast.fix_missing_locations(g)
                ls = _lines(g)
            except Exception:
                continue
            key = '\n'.join(ls)
            if key in seen:
                continue
            seen.add(key)
            dg = _dist(ls, ref_lines)
            g_soft = cur_soft and cand[0] in _SOFT_MOVES
            if dg < best_d:
                best, best_d = g, dg
                if dg == 0:
                    break
            if g_soft and dg < soft_d:
                soft_best, soft_d = g, dg
            if dg <= d + 2:
                tick += 1
                frontier.append((dg, tick, g, ls, g_soft))
    if _DEADLINE[0] is not None:
        _DEADLINE[0] = max(0, _DEADLINE[0] - spent * size)
    if best_d != 0 and best_d > d0 // 2:
        # restructured but still far from the reference: fall back to the best spelling-only state
        best, best_d = soft_best, soft_d
    return best, d0, best_d
