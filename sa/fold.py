"""Constant folder over module ASTs (literals, arithmetic, module/class constants).
This is constant propagation by the checker, not execution of driver code."""
import ast
import operator

from .core import AnalysisError, chain, src


class Unfoldable(Exception):
    pass


_BIN = {ast.Add: operator.add, ast.Sub: operator.sub, ast.Mult: operator.mul, ast.FloorDiv: operator.floordiv,
        ast.Mod: operator.mod, ast.Pow: operator.pow, ast.LShift: operator.lshift, ast.RShift: operator.rshift,
        ast.BitOr: operator.or_, ast.BitAnd: operator.and_, ast.BitXor: operator.xor, ast.Div: operator.truediv}
_CMP = {ast.Eq: operator.eq, ast.NotEq: operator.ne, ast.Lt: operator.lt, ast.LtE: operator.le,
        ast.Gt: operator.gt, ast.GtE: operator.ge, ast.In: lambda a, b: a in b, ast.NotIn: lambda a, b: a not in b,
        ast.Is: operator.is_, ast.IsNot: operator.is_not}
_SAFE_CALLS = {'min': min, 'max': max, 'len': len, 'frozenset': frozenset, 'set': set, 'tuple': tuple,
               'sorted': sorted, 'list': list, 'range': range, 'abs': abs, 'int': int, 'dict': dict, 'bool': bool}


class Folder(object):
    def __init__(self, mod, others=()):
        """mod: core.Module; others: further Modules whose top-level names may be imported."""
        self.mod = mod
        self.others = dict((m.rel, m) for m in others)
        self._cache = {}
        self._active = set()

    def module_const(self, name, mod=None):
        mod = mod or self.mod
        key = (mod.rel, name)
        if key in self._cache:
            return self._cache[key]
        if key in self._active:
            raise Unfoldable('cycle at %s' % name)
        self._active.add(key)
        try:
            val = None
            found = False
            for st in mod.tree.body:
                if isinstance(st, ast.Assign):
                    for t in st.targets:
                        if isinstance(t, ast.Name) and t.id == name:
                            val = self.eval(st.value, mod=mod)
                            found = True
                        elif isinstance(t, ast.Tuple) and isinstance(st.value, ast.Tuple) and len(t.elts) == len(st.value.elts):
                            for te, ve in zip(t.elts, st.value.elts):
                                if isinstance(te, ast.Name) and te.id == name:
                                    val = self.eval(ve, mod=mod)
                                    found = True
                elif isinstance(st, ast.ImportFrom) and not found:
                    for a in st.names:
                        if (a.asname or a.name) == name:
                            for m in self.others.values():
                                modname = m.rel[:-3].replace('/', '.')
                                if st.module and (modname == st.module or modname.endswith('.' + st.module)):
                                    val = self.module_const(a.name, m)
                                    found = True
            if not found:
                raise Unfoldable('no module constant %s in %s' % (name, mod.rel))
            self._cache[key] = val
            return val
        finally:
            self._active.discard(key)

    def class_const(self, clsname, attr, mod=None):
        mod = mod or self.mod
        if not mod.has(clsname):
            for m in self.others.values():
                if m.has(clsname):
                    mod = m
                    break
            else:
                raise Unfoldable('no class %s' % clsname)
        c = mod.get(clsname)
        if not isinstance(c, ast.ClassDef):
            raise Unfoldable('%s not a class' % clsname)
        val = None
        found = False
        for st in c.body:
            if isinstance(st, ast.Assign):
                for t in st.targets:
                    if isinstance(t, ast.Name) and t.id == attr:
                        val = self.eval(st.value, mod=mod, cls=c)
                        found = True
        if not found:
            for b in c.bases:
                bc = chain(b)
                if bc and bc[-1] != 'object':
                    try:
                        return self.class_const(bc[-1], attr, mod)
                    except Unfoldable:
                        pass
            raise Unfoldable('no class constant %s.%s' % (clsname, attr))
        return val

    def eval(self, node, env=None, mod=None, cls=None):
        mod = mod or self.mod
        ev = lambda n: self.eval(n, env, mod, cls)
        if isinstance(node, ast.Constant):
            return node.value
        if isinstance(node, ast.Name):
            if env is not None and node.id in env:
                return env[node.id]
            if cls is not None:
                for st in cls.body:
                    if isinstance(st, ast.Assign):
                        for t in st.targets:
                            if isinstance(t, ast.Name) and t.id == node.id:
                                return self.eval(st.value, env, mod, cls)
            if node.id in ('True', 'False', 'None'):
                return {'True': True, 'False': False, 'None': None}[node.id]
            return self.module_const(node.id, mod)
        if isinstance(node, ast.Attribute):
            c = chain(node)
            if c and env is not None and c[0] in env and isinstance(env[c[0]], dict):
                # nested dict environments stand for objects: env['self']['cluster']['x'] <- self.cluster.x
                d = env[c[0]]
                for i, a in enumerate(c[1:]):
                    if isinstance(d, dict) and a in d:
                        d = d[a]
                    else:
                        d = Unfoldable
                        break
                if d is not Unfoldable:
                    return d
            if c and len(c) == 2:
                return self.class_const(c[0], c[1], mod)
            raise Unfoldable(src(node))
        if isinstance(node, ast.BinOp) and type(node.op) in _BIN:
            return _BIN[type(node.op)](ev(node.left), ev(node.right))
        if isinstance(node, ast.UnaryOp):
            v = ev(node.operand)
            if isinstance(node.op, ast.USub):
                return -v
            if isinstance(node.op, ast.Not):
                return not v
            if isinstance(node.op, ast.Invert):
                return ~v
            if isinstance(node.op, ast.UAdd):
                return +v
        if isinstance(node, ast.BoolOp):
            if isinstance(node.op, ast.And):
                v = True
                for x in node.values:
                    v = ev(x)
                    if not v:
                        return v
                return v
            v = False
            for x in node.values:
                v = ev(x)
                if v:
                    return v
            return v
        if isinstance(node, ast.Compare):
            left = ev(node.left)
            for op, r in zip(node.ops, node.comparators):
                right = ev(r)
                if not _CMP[type(op)](left, right):
                    return False
                left = right
            return True
        if isinstance(node, ast.IfExp):
            return ev(node.body) if ev(node.test) else ev(node.orelse)
        if isinstance(node, ast.Tuple):
            return tuple(ev(e) for e in node.elts)
        if isinstance(node, ast.List):
            return [ev(e) for e in node.elts]
        if isinstance(node, ast.Set):
            return set(ev(e) for e in node.elts)
        if isinstance(node, ast.Dict):
            return dict((ev(k), ev(v)) for k, v in zip(node.keys, node.values))
        if isinstance(node, ast.Subscript):
            return ev(node.value)[ev(node.slice)]
        if isinstance(node, ast.Call) and isinstance(node.func, ast.Name) and node.func.id in _SAFE_CALLS \
                and not (env is not None and node.func.id in env):
            args = [ev(a) for a in node.args]
            kw = dict((k.arg, ev(k.value)) for k in node.keywords)
            return _SAFE_CALLS[node.func.id](*args, **kw)
        if isinstance(node, ast.GeneratorExp) or isinstance(node, ast.ListComp) or isinstance(node, ast.SetComp):
            if len(node.generators) == 1 and isinstance(node.generators[0].target, ast.Name):
                g = node.generators[0]
                res = []
                for item in ev(g.iter):
                    e2 = dict(env or {})
                    e2[g.target.id] = item
                    if all(self.eval(c, e2, mod, cls) for c in g.ifs):
                        res.append(self.eval(node.elt, e2, mod, cls))
                return set(res) if isinstance(node, ast.SetComp) else res
        raise Unfoldable(src(node)[:80])
