"""Lexical lock regions: which `with <lock>:` statements enclose a node."""
import ast

from .core import parent, chain, src

LOCK_SUFFIXES = ('lock', '_lock', '_condition', '_stream_available_condition', '_callback_lock', '_hosts_lock', '_pool_lock',
                 '_reconnection_lock', '_schema_event_lock', '_schema_meta_lock', '_conn_available_condition')


def is_lock_expr(e):
    c = chain(e)
    return bool(c) and (c[-1] in LOCK_SUFFIXES or c[-1].endswith('lock') or c[-1].endswith('_condition'))


def held(node, upto=None):
    """list of (lock chain tuple, With node) lexically held at node, innermost first; stops at the enclosing function."""
    out = []
    p = parent(node)
    child = node
    while p is not None and p is not upto:
        if isinstance(p, (ast.With, ast.AsyncWith)) and child in p.body:
            for it in p.items:
                if is_lock_expr(it.context_expr):
                    out.append((chain(it.context_expr), p))
        if isinstance(p, (ast.FunctionDef, ast.AsyncFunctionDef, ast.Lambda)):
            break
        child, p = p, parent(p)
    return out


def holds(node, receiver, lockname='lock'):
    """is `<receiver>.<lockname>` held lexically at node?  receiver: chain tuple."""
    want = tuple(receiver) + (lockname,)
    return any(l == want for l, _ in held(node))


def receiver_of(attr_node):
    """chain of the object whose attribute is accessed: conn.in_flight -> ('conn',)"""
    if isinstance(attr_node, ast.Attribute):
        return chain(attr_node.value)
    return None
