"""./check <id> [--thorough] [--explain <violation.json>]"""
import importlib
import json
import os
import sys
import traceback
import gc

gc.disable()      # short-lived analysis process over large syntax trees with parent links: the cyclic collector only costs time

from .core import AnalysisError, Check


def run(pid, tier):
    try:
        mod = importlib.import_module('sa.props.%s' % pid.lower())
    except ImportError as e:
        if 'sa.props' in str(e):
            print('ANALYSIS-ERROR property=%s no check is implemented for this property' % pid)
            return 2
        raise
    chk = Check(pid, tier=tier, level=getattr(mod, 'LEVEL', 'other'))
    try:
        mod.check(chk)
        return chk.finish()
    except AnalysisError as e:
        print('ANALYSIS-ERROR property=%s %s' % (pid, e))
        return 2


def main(argv):
    if not argv:
        print(__doc__)
        return 2
    pid = argv[0].upper()
    tier = 'quick'
    explain = None
    i = 1
    while i < len(argv):
        if argv[i] == '--thorough':
            tier = 'thorough'
        elif argv[i] == '--explain':
            explain = argv[i + 1]
            i += 1
        i += 1
    if os.environ.get('VERIF_TIER') in ('quick', 'thorough') and tier == 'quick':
        tier = os.environ['VERIF_TIER']
    try:
        if explain:
            with open(explain) as f:
                v = json.load(f)
            print('property %s rule %s' % (v['property'], v['rule']))
            print('rule: %s' % v['rule_text'])
            print('%s:%s in %s' % (v['file'], v['line'], v['function']))
            print('construct: %s' % v['construct'])
            print('what: %s' % v['what'])
            print('--- re-evaluating on the current tree ---')
        rc = run(pid, tier)
        if tier == 'thorough' and rc == 0:
            from . import selftest
            rc = selftest.run(pid)
        return rc
    except Exception:
        traceback.print_exc()
        print('ANALYSIS-ERROR property=%s internal error (traceback above)' % pid)
        return 2


if __name__ == '__main__':
    sys.exit(main(sys.argv[1:]))
