"""C26 - replica placement (narrow): no host is appended to a replica list twice; ring lookup wraps."""
import ast

from ..core import AnalysisError, src, body_walk, walk_no_nested, parent
from ..cfg import CFG, Flow

META = 'cassandra/metadata.py'


def check(chk):
    chk.decides = ('every append to a replica list is protected against repetition (directly by a membership test, or because the host comes from a '
                   'de-duplicated holding list whose members were tested against the replica list); the replica count stops at the replication factor; '
                   'the ring is walked with wrap-around; the replica lookup uses the first ring token at or after the key\'s token, wrapping to the first')
    chk.does_not_decide = 'equality with Cassandra\'s placement for all rings (rack ordering, transient replicas)'
    chk.rule('C26.norepeat', 'replicas.append(host) / hosts.append(host) only for a host not already in that list')
    chk.rule('C26.bound', 'placement stops when the replication factor (or the number of hosts of the DC) is reached and walks the ring with wrap-around')
    chk.rule('C26.lookup', 'TokenMap.get_replicas: bisect_left on the ring, index == len(ring) wraps to ring[0]')
    meta = chk.repo.mod(META)
    n_app = 0
    for q, listname in (('SimpleStrategy.make_token_replica_map', 'hosts'), ('NetworkTopologyStrategy.make_token_replica_map', 'replicas')):
        f = meta.func(q)
        g = CFG(f)
        fl = Flow(g, 0, lambda n, c: c)
        apps = [n for n in g.stmt_nodes() if n.kind == 'stmt' and any(isinstance(x, ast.Call) and src(x.func) == '%s.append' % listname for x in walk_no_nested(n.ast))]
        if not apps:
            raise AnalysisError('%s: no append to %s' % (q, listname))
        for a in apps:
            call = [x for x in walk_no_nested(a.ast) if isinstance(x, ast.Call) and src(x.func) == '%s.append' % listname][0]
            arg = src(call.args[0])
            n_app += 1
            direct = all(fa.knows('%s in %s' % (arg, listname)) is False for fa, _ in fl.at(a))
            via = None
            if not direct:
                # the host is drawn from a holding list: for <arg> in <hold>:
                p = parent(a.ast)
                while p is not None and not isinstance(p, ast.For):
                    p = parent(p)
                if isinstance(p, ast.For) and src(p.target) == arg:
                    hold = src(p.iter)
                    ins = [n for n in g.stmt_nodes() if n.kind == 'stmt' and any(isinstance(x, ast.Call) and src(x.func) == '%s.append' % hold for x in walk_no_nested(n.ast))]
                    ok = bool(ins)
                    for i in ins:
                        c2 = [x for x in walk_no_nested(i.ast) if isinstance(x, ast.Call) and src(x.func) == '%s.append' % hold][0]
                        h = src(c2.args[0])
                        for fa, _ in fl.at(i):
                            if fa.knows('%s in %s' % (h, hold)) is not False or fa.knows('%s in %s' % (h, listname)) is not False:
                                ok = False
                    via = (hold, ok)
            good = direct or (via is not None and via[1])
            chk.judge(good, 'C26.norepeat', a.ast, '%s: %s.append(%s) only for a host not yet in the list%s' % (q.split('.')[0], listname, arg, ' (via %s)' % via[0] if via else ''),
                      'a host can be appended to the replica list twice%s: the reported replicas repeat a host and omit one Cassandra would choose'
                      % (' (the holding list %s accepts a host more than once)' % via[0] if via else ''))
    if n_app < 3:
        raise AnalysisError('C26: replica appends not found')
    # ---- per-iteration state is re-initialised in its loop
    chk.rule('C26.scope', 'in NetworkTopologyStrategy the only state carried from one token / one datacenter to the next is the result map and the per-DC ring cursor; every other accumulator is initialised inside the loop that consumes it')
    ntsf = meta.func('NetworkTopologyStrategy.make_token_replica_map')
    ALLOWED = {'token': set(['replica_map', 'dc_to_current_index']),            # result; documented cursor "advancing around the ring for each DC"
               'dc': set(['replicas', 'dc_to_current_index', 'replica_map'])}  # replicas = this token's result list, shared by the DCs on purpose
    nloops = 0
    # the loop over the ring (by index, by enumerate or by element) and, inside it, the loop over the datacenters that own tokens
    dc_loops = [n for n in body_walk(ntsf) if isinstance(n, ast.For) and 'dc_to_token_offset' in src(n.iter)]
    tok_loops = [n for n in body_walk(ntsf) if isinstance(n, ast.For) and any(isinstance(x, ast.Name) and x.id == 'ring' for x in ast.walk(n.iter))
                 and any(d is x for d in dc_loops for x in ast.walk(n))]
    dc_loops = [d for d in dc_loops if any(d is x for t in tok_loops for x in ast.walk(t))]
    for lp, kind_ in [(t, 'token') for t in tok_loops] + [(d, 'dc') for d in dc_loops]:
        nloops += 1
        mutated = {}
        local = set()
        for blk in [lp] + [x for x in ast.walk(lp) if isinstance(x, (ast.For, ast.While)) and x is not lp]:
            for st in blk.body:
                if isinstance(st, ast.Assign):
                    for t in st.targets:
                        for e in (t.elts if isinstance(t, ast.Tuple) else [t]):
                            if isinstance(e, ast.Name):
                                local.add(e.id)
        for x in ast.walk(lp):
            if isinstance(x, ast.For) and x is not lp:
                for e in ast.walk(x.target):
                    if isinstance(e, ast.Name):
                        local.add(e.id)
        for e in ast.walk(lp.target):
            if isinstance(e, ast.Name):
                local.add(e.id)
        for x in ast.walk(lp):
            if isinstance(x, ast.AugAssign) and isinstance(x.target, ast.Name):
                mutated.setdefault(x.target.id, x)
            elif isinstance(x, ast.Call) and isinstance(x.func, ast.Attribute) and isinstance(x.func.value, ast.Name) and x.func.attr in ('append', 'add', 'extend', 'update', 'insert', 'pop', 'remove', 'discard', 'clear'):
                mutated.setdefault(x.func.value.id, x)
            elif isinstance(x, (ast.Assign, ast.Delete)):
                for t in (x.targets if isinstance(x, (ast.Assign, ast.Delete)) else []):
                    if isinstance(t, ast.Subscript) and isinstance(t.value, ast.Name):
                        mutated.setdefault(t.value.id, x)
        carried = sorted(n for n in mutated if n not in local and n not in ALLOWED[kind_])
        chk.judge(not carried, 'C26.scope', lp, 'loop over the %ss: accumulators %s are initialised in the loop body; carried on purpose: %s' % ('datacenter' if kind_ == 'dc' else 'token', sorted(n for n in mutated if n in local), sorted(n for n in mutated if n in ALLOWED[kind_])),
                  'the accumulator %s is modified inside the per-%s loop but initialised outside it: what one %s left in it leaks into the next (hosts skipped for one datacenter are placed as replicas of another)'
                  % (carried, 'datacenter' if kind_ == 'dc' else 'token', 'datacenter' if kind_ == 'dc' else 'token'))
    if nloops != 2:
        raise AnalysisError('NetworkTopologyStrategy.make_token_replica_map: token loop / datacenter loop not recognised (%d)' % nloops)
    ss = meta.func('SimpleStrategy.make_token_replica_map')
    s = src(ss)
    okss, whyss = _simple_walk(ss)
    chk.judge(okss, 'C26.bound', ss,
              'SimpleStrategy: walk clockwise with wrap-around until RF distinct hosts or the whole ring was seen', 'SimpleStrategy walk/bound changed: %s' % whyss)
    nts = meta.func('NetworkTopologyStrategy.make_token_replica_map')
    s = src(nts)
    chk.judge('replicas_remaining == 0 or replicas_this_dc == hosts_this_dc' in s and 'if full_replicas > 0' in s, 'C26.bound', nts,
              'NTS: per DC stop at RF or when every host of the DC is a replica; DCs with RF 0 are skipped', 'NTS stop condition changed')
    chk.judge(('token_offset_index - len(token_offsets)' in s or 'token_offset_index -= len(token_offsets)' in s) and 'range(index, index + num_tokens)' in s, 'C26.bound', nts, 'NTS walks each DC ring once with wrap-around', 'NTS DC ring walk changed')
    decs = [n for n in body_walk(nts) if isinstance(n, ast.AugAssign) and src(n.target) == 'replicas_remaining' and isinstance(n.op, ast.Sub)]
    apps = [n for n in body_walk(nts) if isinstance(n, ast.Call) and src(n.func) == 'replicas.append']
    chk.judge(len(decs) == len(apps) == 2, 'C26.bound', nts, 'every NTS append decrements replicas_remaining', 'appends (%d) and decrements (%d) disagree' % (len(apps), len(decs)))
    # the per-DC cursor: advanced while it is inside the DC's offsets and still before the current ring position; a cursor that ran off the end (index == len)
    # is what makes the walk below start again at the DC's first token
    chk.rule('C26.advance', 'NTS: the per-DC cursor advances while index < len(token_offsets) and token_offsets[index] < i (both bounds exact)')
    from ..guards import normalise_atom as _na
    from ..sem import resolve as _res
    adv = [n for n in body_walk(nts) if isinstance(n, ast.While) and any(isinstance(x, ast.AugAssign) and src(x.target) == 'index' for x in n.body)]
    if len(adv) != 1:
        raise AnalysisError('NetworkTopologyStrategy.make_token_replica_map: cursor advance loop not found')
    t_ = adv[0].test
    conj = t_.values if isinstance(t_, ast.BoolOp) and isinstance(t_.op, ast.And) else [t_]
    keys = []
    for c_ in conj:
        k_, flip_ = _na(c_)
        keys.append((k_, flip_))

    def _is_bound(c_):
        if not (isinstance(c_, ast.Compare) and len(c_.ops) == 1):
            return False
        l_, r_, op_ = c_.left, c_.comparators[0], c_.ops[0]
        if isinstance(op_, ast.Gt):
            l_, r_, op_ = r_, l_, ast.Lt()
        if isinstance(r_, ast.Name):
            # a name assigned once, in the same block, before the loop
            from ..core import parent as _par
            blk = _par(adv[0])
            body_ = [b for fld in ('body', 'orelse') for b in getattr(blk, fld, []) or []]
            ds = [x for x in body_walk(nts) if isinstance(x, ast.Assign) and any(src(t) == r_.id for t in x.targets)]
            if len(ds) == 1 and ds[0] in body_ and adv[0] in body_ and body_.index(ds[0]) < body_.index(adv[0]):
                r_ = ds[0].value
        return isinstance(op_, ast.Lt) and src(l_) == 'index' and src(r_) == 'len(token_offsets)'

    def _is_before(c_):
        if not (isinstance(c_, ast.Compare) and len(c_.ops) == 1):
            return False
        l_, r_, op_ = c_.left, c_.comparators[0], c_.ops[0]
        if isinstance(op_, ast.Gt):
            l_, r_, op_ = r_, l_, ast.Lt()
        return isinstance(op_, ast.Lt) and src(l_) == 'token_offsets[index]' and src(r_) == 'i'
    okadv = len(conj) == 2 and _is_bound(conj[0]) and _is_before(conj[1]) and [src(x) for x in adv[0].body] == ['index += 1']
    chk.judge(okadv, 'C26.advance', adv[0], 'while index < len(token_offsets) and token_offsets[index] < i: index += 1',
              'the cursor advance is `%s`: for ring positions after a datacenter\'s last token the cursor must reach len(token_offsets) so that the walk wraps to the DC\'s first token; '
              'stopping one short (or comparing with <=) starts the walk at the wrong token and picks the wrong replicas in that DC' % src(t_))
    chk.rule('C26.refresh', 'the per-keyspace replica map is rebuilt when the keyspace changes, also when the cached map is empty')
    chk.borrow('C22', {'C22.cache': 'C26.refresh'}, 'get_replicas keeps answering [] for a keyspace that was altered from a strategy without replicas to SimpleStrategy / NetworkTopologyStrategy')
    gr = meta.func('TokenMap.get_replicas')
    s = src(gr)
    # decided on the paths: the index is bisect_left(ring, token); at the end of the ring (index == len(ring)) entry 0 is used, otherwise the entry at the index
    ggr = CFG(gr)

    def _step(n, c):
        if n.kind == 'stmt' and isinstance(n.ast, ast.Assign) and len(n.ast.targets) == 1 and src(n.ast.targets[0]) == 'point':
            v = src(n.ast.value)
            return 'raw' if v == 'bisect_left(self.ring, token)' else ('zero' if v == '0' else 'other')
        return c
    flg = Flow(ggr, 'none', _step)
    lookups = []
    for n in ggr.stmt_nodes():
        if n.kind == 'return' and n.ast.value is not None:
            for x in ast.walk(n.ast.value):
                if isinstance(x, ast.Subscript) and src(x.value) == 'tokens_to_hosts' and isinstance(x.slice, ast.Subscript) and src(x.slice.value) == 'self.ring':
                    lookups.append((n, src(x.slice.slice)))
    ok_l = bool(lookups)
    for n, idx in lookups:
        for fa, c in flg.at(n):
            at_end = fa.knows('point == len(self.ring)')
            if idx == '0':
                ok_l = ok_l and at_end is True
            elif idx == 'point':
                ok_l = ok_l and ((c == 'raw' and at_end is False) or c == 'zero')
            else:
                # an index computed by an expression of point and len(self.ring): folded over every position of a ring of three
                ok_l = ok_l and _wraps(gr, idx)
    zeros = [n for n in ggr.stmt_nodes() if n.kind == 'stmt' and isinstance(n.ast, ast.Assign) and src(n.ast.targets[0]) == 'point' and src(n.ast.value) == '0']
    ok_l = ok_l and all(fa.knows('point == len(self.ring)') is True and c == 'raw' for n in zeros for fa, c in flg.at(n))
    chk.judge(ok_l, 'C26.lookup', gr, 'bisect_left; past the last token wraps to ring[0]', 'replica lookup no longer uses the first token at or after the key, wrapping around')
    mg = meta.func('Metadata.get_replicas')
    calls = [n for n in body_walk(mg) if isinstance(n, ast.Call) and isinstance(n.func, ast.Attribute) and n.func.attr == 'get_replicas']
    good = len(calls) == 1 and len(calls[0].args) == 2 and src(calls[0].args[0]) == 'keyspace' and isinstance(calls[0].args[1], ast.Call) \
        and src(calls[0].args[1].func).endswith('token_class.from_key') and [src(a) for a in calls[0].args[1].args] == ['key']
    chk.judge(good, 'C26.lookup', mg, 'key hashed with the cluster partitioner\'s token class, looked up in the token map', 'key -> token step changed')


def _simple_walk(ss):
    """SimpleStrategy.make_token_replica_map: hosts are taken from ring[(start + step) % len(ring)], a host is added only while fewer than
    replication_factor are placed, and the inner walk makes at most len(ring) steps - in whatever loop syntax"""
    from .. import sem
    from ..core import enclosing
    g, fl = sem.flow_of(ss)

    def res(e):
        return src(sem.resolve(ss, e, loops=True))
    apps = [n for n in g.stmt_nodes() if n.kind == 'stmt' and isinstance(n.ast, ast.Expr) and isinstance(n.ast.value, ast.Call) and isinstance(n.ast.value.func, ast.Attribute)
            and n.ast.value.func.attr == 'append' and isinstance(n.ast.value.func.value, ast.Name)]
    if len(apps) != 1:
        return False, '%d append sites' % len(apps)
    L = apps[0].ast.value.func.value.id
    subs = [x for x in ast.walk(ss) if isinstance(x, ast.Subscript) and src(x.value) == 'ring' and isinstance(x.slice, ast.BinOp) and isinstance(x.slice.op, ast.Mod)]
    subs = [x for x in subs if res(x.slice.right) == 'len(ring)' and isinstance(x.slice.left, ast.BinOp) and isinstance(x.slice.left.op, ast.Add)
            and isinstance(x.slice.left.left, ast.Name) and isinstance(x.slice.left.right, ast.Name)]
    single = None
    if len(subs) != 1:
        # one running index: for position in range(start, start + len(ring)): ring[position % len(ring)]
        subs1 = [x for x in ast.walk(ss) if isinstance(x, ast.Subscript) and src(x.value) == 'ring' and isinstance(x.slice, ast.BinOp) and isinstance(x.slice.op, ast.Mod)
                 and res(x.slice.right) == 'len(ring)' and isinstance(x.slice.left, ast.Name)]
        if len(subs1) != 1:
            return False, 'no ring[(start + step) % len(ring)] lookup'
        single = subs1[0].slice.left.id
        idx_names = set([single])
    else:
        idx_names = set([subs[0].slice.left.left.id, subs[0].slice.left.right.id])
    # fewer than RF placed where a host is added
    for fa, _c in fl.at(apps[0]):
        okf = False
        for k, p_ in fa.items:
            if p_ and k.startswith('len(%s) < ' % L):
                y = k[len('len(%s) < ' % L):]
                try:
                    ye = ast.parse(y, mode='eval').body
                except SyntaxError:
                    continue
                if res(ye) == 'self.replication_factor':
                    okf = True
        if not okf:
            return False, 'a host is appended on a path that has not tested len(%s) < self.replication_factor' % L
    lp = enclosing(apps[0].ast, (ast.While, ast.For))
    if isinstance(lp, ast.While):
        atoms = lp.test.values if isinstance(lp.test, ast.BoolOp) and isinstance(lp.test.op, ast.And) else [lp.test]
        steps = [a for a in atoms if isinstance(a, ast.Compare) and len(a.ops) == 1 and isinstance(a.ops[0], ast.Lt) and isinstance(a.left, ast.Name) and a.left.id in idx_names
                 and res(a.comparators[0]) == 'len(ring)']
        incs = [x for x in lp.body if isinstance(x, ast.AugAssign) and isinstance(x.op, ast.Add) and src(x.value) == '1' and steps and src(x.target) == steps[0].left.id]
        if not (steps and incs):
            return False, 'the inner walk is not bounded by len(ring) steps'
    elif isinstance(lp, ast.For):
        it_ = lp.iter
        one_round = isinstance(it_, ast.Call) and src(it_.func) == 'range' and len(it_.args) == 2 and isinstance(it_.args[0], ast.Name) and \
            res(it_.args[1]) in ('%s + len(ring)' % it_.args[0].id, 'len(ring) + %s' % it_.args[0].id)
        if not (isinstance(lp.target, ast.Name) and lp.target.id in idx_names and ((single is None and res(lp.iter) == 'range(len(ring))') or (single is not None and one_round))):
            return False, 'the inner walk is not `for step in range(len(ring))`'
    else:
        return False, 'inner loop not found'
    return True, ''


def _wraps(fn, idx_text):
    from ..sem import resolve
    from ..fold import Folder, Unfoldable
    import copy
    e = resolve(fn, ast.parse(idx_text, mode='eval').body, keep=('point',))
    # resolve works on names of fn: a bare name parsed from text has no position - look its single assignment up by hand
    if isinstance(e, ast.Name):
        ds = [st.value for st in body_walk(fn) if isinstance(st, ast.Assign) and len(st.targets) == 1 and src(st.targets[0]) == e.id]
        if len(ds) != 1:
            return False
        e = ds[0]

    class L(ast.NodeTransformer):
        def visit_Call(s_, n):
            if src(n) == 'len(self.ring)':
                return ast.Name(id='_n', ctx=ast.Load())
            return s_.generic_visit(n)
    e = L().visit(copy.deepcopy(e))
    fo = Folder(fn._mod)
    try:
        return [fo.eval(e, env={'point': p_, '_n': 3}) for p_ in range(4)] == [0, 1, 2, 0]
    except (Unfoldable, TypeError):
        return False
