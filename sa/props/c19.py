"""C19 - unknown prepared statements are transparently re-prepared."""
import ast

from ..core import AnalysisError, src, body_walk, walk_no_nested, parent
from ..cfg import CFG, Flow
from ..rfutil import CLUSTER, outcome_flow, classify_call, TERMINAL, SEND, FINAL_EXC, REPREPARE


def check(chk):
    chk.decides = ('the UNPREPARED arm prepares the cached statement\'s own query text, carries the keyspace exactly when the protocol has the keyspace flag, '
                   'fails terminally on a keyspace mismatch (older protocols) and on an id mismatch after re-preparing, re-sends to the same host after a '
                   'successful re-prepare, and sends nothing after a terminal outcome')
    chk.does_not_decide = 'server behaviour; interleavings with other responses'
    chk.rule('C19.prepare', 'PrepareMessage(query=<statement>.query_string, keyspace=<statement>.keyspace if uses_keyspace_flag else None), submitted as _reprepare(..., host, connection, pool)')
    chk.rule('C19.terminal', 'unknown id without a statement, keyspace mismatch and id mismatch each set the final exception and return (nothing further is sent)')
    chk.rule('C19.carry', 'every PreparedStatement built from a PREPARED result records the keyspace, query text and metadata it was prepared with - also the early arm for statements without bind markers')
    chk.rule('C19.resend', 'after a successful re-prepare the original request goes to the same host (_query(host)), falling back to the plan only if that fails')
    cl = chk.repo.mod(CLUSTER)
    sr = cl.func('ResponseFuture._set_result')
    arm = [n for n in body_walk(sr) if isinstance(n, ast.If) and src(n.test) == 'isinstance(response, PreparedQueryNotFound)']
    if len(arm) != 1:
        raise AnalysisError('_set_result: PreparedQueryNotFound arm not found')
    arm = arm[0]
    pm = [n for s in arm.body for n in ast.walk(s) if isinstance(n, ast.Call) and src(n.func) == 'PrepareMessage']
    good = len(pm) == 1
    if good:
        kw = dict((k.arg, src(k.value)) for k in pm[0].keywords)
        good = kw.get('query') == 'prepared_statement.query_string' and kw.get('keyspace') == 'prepared_keyspace'
    chk.judge(good, 'C19.prepare', pm[0] if pm else arm, 'PrepareMessage(query=prepared_statement.query_string, keyspace=prepared_keyspace)', 're-prepare message built differently')
    # the keyspace passed: statement.keyspace iff uses_keyspace_flag
    defs = [st for s in arm.body for st in ast.walk(s) if isinstance(st, ast.Assign) and src(st.targets[0]) == 'prepared_keyspace']
    last = defs[-1] if defs else None
    good = last is not None and isinstance(last.value, ast.IfExp) and src(last.value.body) == 'prepared_statement.keyspace' and src(last.value.orelse) == 'None' \
        and src(last.value.test) == 'ProtocolVersion.uses_keyspace_flag(self.session.cluster.protocol_version)'
    chk.judge(good, 'C19.prepare', last or arm, 'keyspace carried exactly when the protocol has the keyspace flag', 'keyspace of the re-prepare is %s' % (src(last.value) if last else None))
    sub = [n for s in arm.body for n in ast.walk(s) if isinstance(n, ast.Call) and src(n.func) == 'self.session.submit' and n.args and src(n.args[0]) == 'self._reprepare']
    chk.judge(len(sub) == 1 and [src(a) for a in sub[0].args[1:]] == ['prepare_message', 'host', 'connection', 'pool'], 'C19.prepare', sub[0] if sub else arm,
              'submit(_reprepare, prepare_message, host, connection, pool)', 're-prepare is not submitted for the same host/connection/pool')
    # which statement: the cached one by id, else the future's own
    s = src(arm)
    chk.judge('self.session.cluster._prepared_statements[query_id]' in s and 'prepared_statement = self.prepared_statement' in s, 'C19.prepare', arm,
              'statement looked up by the id the server reported, falling back to the future\'s own statement', 'statement lookup changed')
    # terminal arms inside _set_result
    g = CFG(sr, may_raise=lambda n: ['KeyError'] if '_prepared_statements[query_id]' in src(n) and not isinstance(n, ast.Assign) or
            (isinstance(n, ast.Assign) and '_prepared_statements[query_id]' in src(n.value)) else [])

    def step(node, c):
        if node.ast is not None and node.kind in ('stmt', 'return'):
            for n in walk_no_nested(node.ast):
                if isinstance(n, ast.Call):
                    e = classify_call(n)
                    if e:
                        c = c + (e,)
        return c
    fl = Flow(g, (), step)
    # keyspace mismatch
    mism = [n for n in g.stmt_nodes() if n.kind == 'stmt' and 'does not match the keyspace the statement was' in src(n.ast).replace('" "', '').replace("' '", '')]
    if not mism:
        mism = [n for n in g.stmt_nodes() if n.kind == 'stmt' and 'self._set_final_exception' in src(n.ast) and 'ValueError' in src(n.ast)]
    if len(mism) != 1:
        raise AnalysisError('_set_result: keyspace mismatch arm not found')
    nxt = [s_ for s_, _ in mism[0].succ]
    chk.judge(len(nxt) == 1 and nxt[0].kind == 'return', 'C19.terminal', mism[0].ast, 'keyspace mismatch: final exception then return', 'after the keyspace-mismatch error the handler continues')
    ok = all(fa.knows('ProtocolVersion.uses_keyspace_flag(self.session.cluster.protocol_version)') is False and fa.knows('prepared_keyspace') is True
             and fa.knows('current_keyspace == prepared_keyspace') is False for fa, _ in fl.at(mism[0]))
    chk.judge(ok, 'C19.terminal', mism[0].ast, 'mismatch only without keyspace flag, with a prepared keyspace differing from the connection\'s', 'keyspace mismatch condition changed')
    def _in_keyerror_handler(a):
        p_ = parent(a)
        while p_ is not None and p_ is not sr:
            if isinstance(p_, ast.ExceptHandler) and p_.type is not None and 'KeyError' in src(p_.type):
                return True
            p_ = parent(p_)
        return False
    unk = [n for n in g.stmt_nodes() if n.kind == 'stmt' and src(n.ast) == 'self._set_final_exception(response)' and _in_keyerror_handler(n.ast)
           and bool(list(fl.at(n))) and all(fa.knows('self.prepared_statement') is False for fa, _ in fl.at(n))]
    chk.judge(len(unk) >= 1 and all([s_.kind for s_, _ in n.succ] == ['return'] for n in unk), 'C19.terminal', sr, 'unknown id and no statement: final exception then return', 'unknown statement arm is not terminal')

    # an UNPREPARED answer for a statement the client knows always leads to a re-prepare on that host: the arm has no other way out than the two refusals above
    chk.rule('C19.always', 'PreparedQueryNotFound arm: every path either submits _reprepare or is one of the two refusals (no statement for the id; keyspace mismatch without keyspace flag)')
    arm_ids = set(id(x) for st_ in arm.body for x in ast.walk(st_))
    finals = [n for n in g.stmt_nodes() if n.kind == 'stmt' and id(n.ast) in arm_ids and any(isinstance(c, ast.Call) and src(c.func) == 'self._set_final_exception' for c in ast.walk(n.ast))]
    allowed = set(id(n) for n in unk) | set(id(n) for n in mism)
    extra = [n for n in finals if id(n) not in allowed]
    chk.judge(not extra, 'C19.always', arm, 'the unprepared arm fails the request only for an unknown statement or a keyspace mismatch',
              'the arm has a further way to fail the request (%s): a statement that must be prepared on more than one node during one request (the first node re-prepared, then failed; the '
              'next node does not know it either) is refused instead of being re-prepared there' % [src(n.ast)[:60] for n in extra])
    rets_arm = [n for n in g.stmt_nodes() if n.kind == 'return' and id(n.ast) in arm_ids]
    subs_ = [n for n in g.stmt_nodes() if n.kind == 'stmt' and id(n.ast) in arm_ids and 'self.session.submit(self._reprepare' in src(n.ast)]
    good_rets = True
    for r in rets_arm:
        preds = [p_ for p_, _l in g.preds()[r.id]]
        good_rets = good_rets and all(id(p_) in allowed or p_ in subs_ for p_ in preds)
    chk.judge(good_rets and len(subs_) == 1, 'C19.always', arm, 'every return of the arm follows the re-prepare submission or one of the two refusals', 'the arm returns without re-preparing or refusing')

    # _execute_after_prepare
    eap = cl.func('ResponseFuture._execute_after_prepare')
    g2, fl2 = outcome_flow(eap)
    bad = []
    for n in g2.nodes:
        for fa, c in fl2.at(n):
            for i, e in enumerate(c):
                if e in TERMINAL and SEND in c[i + 1:]:
                    bad.append((n, (fa, c)))
    chk.judge(not bad, 'C19.terminal', eap, '_execute_after_prepare: nothing is sent after a failure was recorded',
              'after the error was set the request is sent again: %s' % (' | '.join(fl2.witness(bad[0][0], bad[0][1])[-6:]) if bad else ''))
    idm = [n for n in g2.stmt_nodes() if n.kind == 'stmt' and 'ID mismatch' in src(n.ast)]
    if len(idm) != 1:
        raise AnalysisError('_execute_after_prepare: id mismatch arm not found')
    # the expected id: the request's own statement id, or (a batch has no statement of its own) the id remembered when the re-prepare was submitted
    exp_defs = [st for st in body_walk(eap) if isinstance(st, ast.Assign) and len(st.targets) == 1 and isinstance(st.targets[0], ast.Name) and 'query_id' in src(st.value) and
                isinstance(st.value, ast.IfExp)]
    exp_name = src(exp_defs[0].targets[0]) if len(exp_defs) == 1 else None
    cmp_atoms = ['self.prepared_statement.query_id == response.query_id'] + (['%s == response.query_id' % exp_name] if exp_name else [])
    chk.judge(all(any(fa.knows(a) is False for a in cmp_atoms) for fa, _ in fl2.at(idm[0])), 'C19.terminal', idm[0].ast,
              'id mismatch detected by comparing the expected id with the re-prepared id', 'id mismatch condition changed')
    # ... and that comparison covers every request: the re-send is reached only after it (an expected id is known for batches as well)
    chk.rule('C19.mismatch', 'the re-prepared id is compared with the id the node reported as unknown for every kind of request (a batch has no prepared_statement of its own)')
    resend = [n for n in g2.stmt_nodes() if n.kind == 'stmt' and 'self._query(host)' in src(n.ast)]
    covered = bool(resend) and exp_name is not None and isinstance(exp_defs[0].value, ast.IfExp) and src(exp_defs[0].value.test) == 'self.prepared_statement' and \
        src(exp_defs[0].value.body) == 'self.prepared_statement.query_id' and src(exp_defs[0].value.orelse) == 'self._reprepared_id' and \
        all(fa.knows('%s == response.query_id' % exp_name) is True or fa.knows('%s is None' % exp_name) is True for n in resend for fa, _ in fl2.at(n))
    sub_nodes = [n for n in g.stmt_nodes() if n.kind == 'stmt' and 'self.session.submit(self._reprepare' in src(n.ast)]
    remembered = [n for n in g.stmt_nodes() if n.kind == 'stmt' and src(n.ast) == 'self._reprepared_id = query_id']
    covered = covered and len(remembered) == 1 and len(sub_nodes) == 1 and g.dominates(remembered[0], sub_nodes[0])
    chk.judge(covered, 'C19.mismatch', eap, 'expected id = own statement id or the id remembered at submission; the request is re-sent only when the re-prepared id equals it',
              'the id comparison applies only when the request has a prepared_statement of its own: a batch whose member statement is re-prepared under another id is re-sent, answered '
              'UNPREPARED again and re-prepared again until the request times out')
    # resend on success to the same host
    q = [n for n in g2.stmt_nodes() if n.kind == 'stmt' and 'self._query(host)' in src(n.ast)]
    ok = len(q) == 1 and all(fa.knows('response.kind == RESULT_KIND_PREPARED') is True and fa.knows('isinstance(response, ResultMessage)') is True for fa, _ in fl2.at(q[0]))
    chk.judge(ok, 'C19.resend', eap, 'successful PREPARED result -> _query(host) on the same host', 'the original request is not re-sent to the same host after re-preparing')
    s = src(eap)
    chk.judge('if request_id is None' in s and 'self.send_request()' in s, 'C19.resend', eap, 'falls back to the plan when the same host cannot be used', 'fallback to the plan is gone')
    chk.judge('pool.return_connection(connection)' in s and s.index('pool.return_connection(connection)') < s.index('self._final_exception'), 'C19.resend', eap,
              'the connection used for PREPARE is returned first', 'the prepare connection is not returned')
    rp = cl.func('ResponseFuture._reprepare')
    s = src(rp)
    chk.judge('partial(self.session.submit, self._execute_after_prepare, host, connection, pool)' in s and 'self._query(host, prepare_message, cb=cb)' in s, 'C19.resend', rp,
              '_reprepare sends PREPARE to the same host with _execute_after_prepare as its callback', '_reprepare changed')

    # ---- a stream id is a number, 0 included: what _query returned is only ever compared with None
    chk.rule('C19.streamid', 'ResponseFuture: the result of self._query(...) is tested with `is None` / `is not None`, never by truthiness (stream id 0 is a sent request)')
    from ..guards import normalise_atom as _na19
    n_sites = 0
    for q_, f_ in cl.functions():
        if not q_.startswith('ResponseFuture.') or q_.count('.') != 1:
            continue
        names = set()
        for st in body_walk(f_):
            if isinstance(st, ast.Assign) and len(st.targets) == 1 and isinstance(st.targets[0], ast.Name) and isinstance(st.value, ast.Call) and src(st.value.func) == 'self._query':
                names.add(st.targets[0].id)
        tests = [n.test for n in body_walk(f_) if isinstance(n, (ast.If, ast.While, ast.IfExp))]
        for t in tests:
            atoms = []

            def _collect(e):
                if isinstance(e, ast.BoolOp):
                    for v in e.values:
                        _collect(v)
                elif isinstance(e, ast.UnaryOp) and isinstance(e.op, ast.Not):
                    _collect(e.operand)
                else:
                    atoms.append(e)
            _collect(t)
            for a in atoms:
                subject = None
                if isinstance(a, ast.Name) and a.id in names:
                    subject = a.id
                elif isinstance(a, ast.Call) and src(a.func) == 'self._query':
                    subject = src(a)[:40]
                elif isinstance(a, ast.Compare) and len(a.ops) == 1 and ((isinstance(a.left, ast.Name) and a.left.id in names) or (isinstance(a.left, ast.Call) and src(a.left.func) == 'self._query')):
                    n_sites += 1
                    okc = isinstance(a.ops[0], (ast.Is, ast.IsNot)) and isinstance(a.comparators[0], ast.Constant) and a.comparators[0].value is None
                    chk.judge(okc, 'C19.streamid', a, '%s: %s' % (q_, src(a)[:60]), 'the stream id is compared with something else than None')
                    continue
                if subject is not None:
                    n_sites += 1
                    chk.viol('C19.streamid', a, '%s: `%s` tested for truthiness' % (q_, subject),
                             'stream id 0 is falsy: a request that was sent on stream 0 is taken for "not sent" - the caller sends it again elsewhere (the request runs twice) '
                             'or reports NoHostAvailable while it is in flight')
    if n_sites < 3:
        raise AnalysisError('C19.streamid: tests on the result of _query not found (%d)' % n_sites)

    # ---- what a re-prepare needs is recorded by every arm of PreparedStatement.from_message
    qm = chk.repo.mod('cassandra/query.py')
    fm = qm.func('PreparedStatement.from_message')
    init = qm.func('PreparedStatement.__init__')
    iparams = [a.arg for a in init.args.args][1:]
    fparams = [a.arg for a in fm.args.args][1:]
    ctor = [n for n in body_walk(fm) if isinstance(n, ast.Call) and src(n.func) in ('PreparedStatement', 'cls')]
    if len(ctor) < 2:
        raise AnalysisError('PreparedStatement.from_message: constructor calls not found')
    carried = {'query_id': 'query_id', 'query_string': 'query', 'keyspace': 'prepared_keyspace', 'protocol_version': 'protocol_version',
               'result_metadata': 'result_metadata', 'result_metadata_id': 'result_metadata_id', 'column_encryption_policy': 'column_encryption_policy'}
    for c in ctor:
        got = {}
        for i, a in enumerate(c.args):
            if i < len(iparams):
                got[iparams[i]] = src(a)
        for k in c.keywords:
            if k.arg:
                got[k.arg] = src(k.value)
        bad = sorted('%s=%s (want %s)' % (p_, got.get(p_), w) for p_, w in carried.items() if p_ in iparams and w in fparams and got.get(p_) != w)
        chk.judge(not bad, 'C19.carry', c, 'from_message -> PreparedStatement(...): keyspace / query / ids / metadata passed through',
                  'this arm builds the statement with %s: a later re-prepare after UNPREPARED is sent without what the statement was prepared with' % '; '.join(bad))
    # what a PreparedStatement remembers as its keyspace is what the PREPARE request named - whatever the session keyspace is now or will be later
    chk.rule('C19.remember', 'Session.prepare records the keyspace argument of the PREPARE (or None) in the PreparedStatement, independent of the session keyspace')
    from ..sem import resolve as _res19
    sp_ = cl.func('Session.prepare')
    pk_ = [st_ for st_ in body_walk(sp_) if isinstance(st_, ast.Assign) and src(st_.targets[0]) == 'prepared_keyspace']
    okp_ = len(pk_) == 1 and set(x_.id for x_ in ast.walk(_res19(sp_, pk_[0].value)) if isinstance(x_, ast.Name)) <= set(['keyspace']) and \
        not any(isinstance(x_, ast.Attribute) for x_ in ast.walk(pk_[0].value))
    chk.judge(okp_, 'C19.remember', pk_[0] if pk_ else sp_, 'prepared_keyspace depends on the keyspace argument only',
              'the recorded keyspace also depends on %s: a statement prepared with the session\'s current keyspace named explicitly forgets it, and after a later USE the re-PREPARE goes out '
              'without it - the node returns another id and the request fails with "ID mismatch"' % sorted(set(src(x_) for st_ in pk_ for x_ in ast.walk(st_.value) if isinstance(x_, ast.Attribute))))
