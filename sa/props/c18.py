"""C18 - paging (narrow): who writes the paging state, ordering around completion, guards of the page-fetching API."""
import ast

from ..core import AnalysisError, src, body_walk, walk_no_nested, qual_of
from ..cfg import CFG, Flow
from ..rfutil import CLUSTER, classify_call, TERMINAL
from .c09 import attr_writes


def check(chk):
    chk.decides = ('the paging state has one writer (the ROWS arm) which stores the state of the page that just arrived before the outcome is delivered; '
                   'a next page is requested only with a non-empty state, which is copied into the message before sending; the blocking result set asks for '
                   'another page only when has_more_pages, and stops iterating when there is none')
    chk.does_not_decide = 'that the concatenation of pages equals the server\'s rows for all page sequences'
    chk.rule('C18.writer', '_paging_state is written only in the ROWS arm of _set_result, from response.paging_state')
    chk.rule('C18.order', 'result-describing fields (_paging_state, _col_names, _col_types) are written before the terminal outcome call of that path')
    chk.rule('C18.next', 'start_fetching_next_page: raises QueryExhausted without a paging state; copies it into the message; resets the outcome; sends')
    chk.rule('C18.resultset', 'ResultSet.fetch_next_page / next(): another page is requested only under has_more_pages; exhausted iteration raises StopIteration')
    cl = chk.repo.mod(CLUSTER)
    ws = [(st, f) for st, tgt, f in attr_writes(cl, '_paging_state') if isinstance(st, ast.Assign)]
    chk.judge(len(ws) == 1 and qual_of(ws[0][1]) == 'ResponseFuture._set_result' and src(ws[0][0].value) == 'response.paging_state', 'C18.writer',
              ws[0][0] if ws else cl.func('ResponseFuture._set_result'), '_paging_state = response.paging_state only in _set_result',
              '_paging_state writers: %s' % [(qual_of(f), src(st)) for st, f in ws])
    sr = cl.func('ResponseFuture._set_result')
    g = CFG(sr)
    fields = ('self._paging_state', 'self._col_names', 'self._col_types')

    def step(node, c):
        term, late = c
        if node.ast is not None and node.kind == 'stmt':
            if term and isinstance(node.ast, ast.Assign) and src(node.ast.targets[0]) in fields:
                late = late + (src(node.ast.targets[0]),)
            for n in walk_no_nested(node.ast):
                if isinstance(n, ast.Call) and classify_call(n) in TERMINAL:
                    term = True
        return (term, late)
    fl = Flow(g, (False, ()), step)
    late = set()
    for n in g.nodes:
        for _f, (term, l) in fl.at(n):
            late.update(l)
    chk.judge(not late, 'C18.order', sr, 'ROWS arm: paging state / column info stored before the outcome is delivered',
              '%s written after the final-result call: callbacks and the waiting thread run inside/after that call and still see the previous page\'s state '
              '(has_more_pages / start_fetching_next_page act on stale state)' % sorted(late))
    # the ROWS arm writes the state on every path to its terminal call
    fl2 = Flow(g, False, lambda node, c: True if (node.ast is not None and node.kind == 'stmt' and isinstance(node.ast, ast.Assign) and src(node.ast.targets[0]) == 'self._paging_state') else c)
    rows_terms = [n for n in g.stmt_nodes() if n.kind == 'stmt' and ('self.row_factory(response.column_names, response.parsed_rows)' in src(n.ast) or '_handle_continuous_paging_first_response' in src(n.ast))]
    ok = bool(rows_terms) and all(c for n in rows_terms for _f, c in fl2.at(n))
    chk.judge(ok, 'C18.order', sr, 'every ROWS completion has stored the page\'s paging state first', 'a ROWS completion path skips storing the paging state')
    hm = cl.func('ResponseFuture.has_more_pages')
    chk.judge('return self._paging_state is not None' in src(hm), 'C18.next', hm, 'has_more_pages = _paging_state is not None', 'has_more_pages changed')
    nf = cl.func('ResponseFuture.start_fetching_next_page')
    body = [st for st in nf.body if not (isinstance(st, ast.Expr) and isinstance(st.value, ast.Constant))]
    s = [src(x) for x in body]
    first = body[0]
    good = isinstance(first, ast.If) and src(first.test) == 'not self._paging_state' and isinstance(first.body[0], ast.Raise) and 'QueryExhausted' in src(first.body[0])
    chk.judge(good, 'C18.next', nf, 'no paging state -> QueryExhausted', 'a page is requested without a paging state')
    idx = dict((t, i) for i, t in enumerate(s))
    need = ['self.message.paging_state = self._paging_state', 'self._event.clear()', 'self._final_result = _NOT_SET', 'self._final_exception = None', 'self.send_request()']
    good = all(t in idx for t in need) and all(idx[t] < idx['self.send_request()'] for t in need[:-1]) and 'self._make_query_plan()' in idx
    chk.judge(good, 'C18.next', nf, 'state copied into the message, outcome reset, new plan, then send', 'next-page preparation incomplete or after the send: %s' % [t for t in need if t not in idx])
    # ResultSet
    fn = cl.func('ResultSet.fetch_next_page')
    # path facts, not nesting: the fetch and the take-over of the new rows happen exactly on the paths where has_more_pages held,
    # every other path leaves the current page empty, and every path does one of the two
    gfn = CFG(fn)

    def _step(node, c):
        if node.kind == 'stmt' and node.ast is not None:
            t = src(node.ast)
            if 'self.response_future.start_fetching_next_page()' in t:
                return c + ('fetch',)
            if t.startswith('self._current_rows = result._current_rows'):
                return c + ('take',)
            if t.startswith('self._current_rows = []'):
                return c + ('empty',)
        return c
    flfn = Flow(gfn, (), _step)
    outs = [(fa.knows('self.response_future.has_more_pages'), c) for fa, c in flfn.at(gfn.exit)]
    good = bool(outs) and all((k is True and c == ('fetch', 'take')) or (k is False and c == ('empty',)) for k, c in outs) \
        and any(k is True for k, c in outs) and any(k is False for k, c in outs)
    chk.judge(good, 'C18.resultset', fn, 'fetch_next_page: only under has_more_pages; takes the rows of the new page; else empty', 'fetch_next_page changed')
    nx = cl.func('ResultSet.next')
    g = CFG(nx, may_raise=lambda n: ['StopIteration'] if any(isinstance(x, ast.Call) and src(x.func) == 'next' for x in walk_no_nested(n)) else [])
    fl = Flow(g, 0, lambda n, c: c)
    fetch = [n for n in g.stmt_nodes() if n.kind == 'stmt' and src(n.ast) == 'self.fetch_next_page()']
    ok = bool(fetch) and all(fa.knows('self.response_future.has_more_pages') is True for n in fetch for fa, _ in fl.at(n))
    chk.judge(ok, 'C18.resultset', nx, 'next(): fetches another page only when the page iterator is exhausted and has_more_pages', 'next() may fetch without has_more_pages')
    s = src(nx)
    chk.judge('self._page_iter = iter(self._current_rows)' in s and 'return self.next()' in s and 'raise' in s, 'C18.resultset', nx,
              'next(): new page iterator, recursion handles empty pages, StopIteration when no more pages', 'iteration over pages changed')
    rs = cl.func('ResponseFuture.result')
    chk.judge('ResultSet(self, self._final_result)' in src(rs), 'C18.resultset', rs, 'each page result is wrapped in a ResultSet bound to this future', 'result wrapping changed')

    # list mode (indexing, ==, len-like uses): every page is pulled first, through the paging iteration; only then does the set answer from its list
    chk.rule('C18.listmode', '_enter_list_mode sets _list_mode only after _fetch_all() (which iterates through all pages while __iter__ still pages)')
    elm = cl.func('ResultSet._enter_list_mode')
    gel = CFG(elm)
    fa_nodes = [n for n in gel.stmt_nodes() if n.kind == 'stmt' and any(isinstance(c, ast.Call) and src(c.func) == 'self._fetch_all' for c in ast.walk(n.ast))]
    sets = [n for n in gel.stmt_nodes() if n.kind == 'stmt' and isinstance(n.ast, ast.Assign) and src(n.ast.targets[0]) == 'self._list_mode' and src(n.ast.value) == 'True']
    if len(fa_nodes) != 1 or not sets:
        raise AnalysisError('ResultSet._enter_list_mode: _fetch_all() / _list_mode = True not found')
    it = cl.func('ResultSet.__iter__')
    reads_flag = any(isinstance(x, ast.Attribute) and x.attr == '_list_mode' for x in ast.walk(it))
    chk.judge(reads_flag and all(gel.dominates(fa_nodes[0], n) for n in sets), 'C18.listmode', elm, '_fetch_all() precedes _list_mode = True on every path',
              'the flag is raised before the rows are fetched: __iter__ then answers from the current page only (list mode), so rs[i], rs == rows and len(list) see the first page and '
              'the remaining pages are never requested')
    fa = cl.func('ResultSet._fetch_all')
    chk.judge('self._current_rows = list(self)' in src(fa), 'C18.listmode', fa, '_fetch_all materialises by iterating the set itself (page by page)', '_fetch_all no longer iterates through the pages')

    # the paging state travels in the request body: its position among the optional fields is the wire layout of QUERY / EXECUTE
    chk.rule('C18.wire', 'QUERY / EXECUTE bodies carry <paging_state> at the position and under the flag the specification gives')
    chk.borrow('C03', {'C03.layout': 'C18.wire'}, 'the server reads another field where the paging state is expected: page 2 restarts or fails')
