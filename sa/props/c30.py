"""C30 - prepared-statement binding and routing keys (structure)."""
import ast

from ..core import AnalysisError, src, body_walk, walk_no_nested, parent
from ..cfg import CFG, Flow
from ..fold import Folder

QUERY = 'cassandra/query.py'


def check(chk):
    chk.decides = ('bind(): values are matched to columns in bind-marker order (dicts by iterating the column metadata), a missing name becomes UNSET only on '
                   'protocol >= 4 (else KeyError), too many values raise, UNSET below v4 raises, trailing columns are filled with UNSET only on v4+, and every '
                   'UNSET goes through _append_unset_value which refuses partition-key positions; the routing key is the single component raw, or the '
                   '[uint16 length][bytes][0x00] concatenation in routing-index order, identically in Statement and BoundStatement; routing indexes are the '
                   'server\'s pk_indexes or, failing that, follow the table\'s partition key order')
    chk.does_not_decide = 'the serialized bytes themselves (C01/C02)'
    chk.rule('C30.order', 'values are serialized in column (bind marker) order: dict arm iterates col_meta, sequence arm zips values with col_meta')
    chk.rule('C30.unset', 'missing/UNSET handling by protocol version; every UNSET append goes through _append_unset_value (raise dominates append for routing-key indexes)')
    chk.rule('C30.arity', 'more values than columns raise ValueError')
    chk.rule('C30.key', 'composite routing key component layout ">H%dsB" (len, bytes, 0); single component raw; same rule in Statement._set_routing_key and BoundStatement.routing_key; index order')
    chk.rule('C30.pk', 'from_message: pk_indexes win; otherwise indexes follow table_meta.partition_key order (component i = position of that column in the statement)')
    q = chk.repo.mod(QUERY)
    bind = q.func('BoundStatement.bind')
    g = CFG(bind, may_raise=lambda n: ['KeyError'] if 'values_dict[col.name]' in src(n) and isinstance(n, (ast.Expr, ast.Assign)) else [])
    fl = Flow(g, 0, lambda n, c: c)

    # dict arm
    dloops = [n for n in body_walk(bind) if isinstance(n, ast.For) and src(n.iter) == 'col_meta' and src(n.target) == 'col']
    chk.judge(len(dloops) == 1 and 'values.append(values_dict[col.name])' in src(dloops[0]), 'C30.order', bind, 'dict arm: for col in col_meta: values.append(values_dict[col.name])',
              'named values are no longer collected in column order')
    d_if = parent(dloops[0]) if dloops else None
    chk.judge(isinstance(d_if, ast.If) and src(d_if.test) == 'isinstance(values, dict)', 'C30.order', bind, 'dict arm only for dict values', 'dict arm condition changed')
    unset_apps = [n for n in g.stmt_nodes() if n.kind == 'stmt' and src(n.ast) == 'values.append(UNSET_VALUE)']
    ok = len(unset_apps) == 1 and all(fa.knows('proto_version < 4') is False for fa, _ in fl.at(unset_apps[0]))
    chk.judge(ok, 'C30.unset', bind, 'missing name -> UNSET_VALUE only when proto_version >= 4', 'a missing named value becomes UNSET below protocol 4')
    kerr = [n for n in g.nodes if n.kind == 'raise_stmt' and 'KeyError' in src(n.ast)]
    ok = len(kerr) == 1 and all(fa.knows('proto_version < 4') is True for fa, _ in fl.at(kerr[0]))
    chk.judge(ok, 'C30.unset', bind, 'missing name below v4 -> KeyError', 'missing named value below v4 is not rejected')
    # arity
    too = [n for n in g.nodes if n.kind == 'raise_stmt' and 'Too many arguments' in src(n.ast)]
    ok = len(too) == 1 and all(fa.knows('col_meta_len < value_len') is True for fa, _ in fl.at(too[0]))
    s = src(bind)
    chk.judge(ok and 'value_len = len(values)' in s and 'col_meta_len = len(col_meta)' in s, 'C30.arity', bind, 'len(values) > len(col_meta) -> ValueError', 'extra positional values are accepted')
    # pre-v4 short sequences: nothing becomes UNSET there, so a sequence that does not reach the highest partition-key marker is refused here
    chk.rule('C30.short', 'below protocol 4 a positional sequence that stops before the highest routing-key index is rejected (compared with max(routing_key_indexes), not their count)')
    few = [n for n in g.nodes if n.kind == 'raise_stmt' and 'Too few arguments' in src(n.ast)]
    if len(few) != 1:
        raise AnalysisError('bind: the pre-v4 "Too few arguments" rejection was not found')
    okv = all(fa.knows('proto_version < 4') is True for fa, _ in fl.at(few[0]))
    guard_if = parent(few[0].ast)
    cmps = [c for c in ast.walk(guard_if.test) if isinstance(c, ast.Compare) and any(isinstance(x, ast.Name) and x.id == 'value_len' for x in ast.walk(c))] if isinstance(guard_if, ast.If) else []
    verdict, counter = False, None
    if len(cmps) == 1:
        class _Sub(ast.NodeTransformer):
            def visit_Call(self, node):
                if isinstance(node.func, ast.Name) and node.func.id in ('max', 'len') and len(node.args) == 1 and src(node.args[0]).endswith('routing_key_indexes'):
                    return ast.copy_location(ast.Name(id='M' if node.func.id == 'max' else 'L', ctx=ast.Load()), node)
                return self.generic_visit(node)
        import copy as _copy
        e = _Sub().visit(_copy.deepcopy(cmps[0]))
        names = set(x.id for x in ast.walk(e) if isinstance(x, ast.Name))
        if names <= set(['M', 'L', 'value_len']) and all(isinstance(x, (ast.Compare, ast.BinOp, ast.Name, ast.Constant, ast.Load, ast.cmpop, ast.operator)) for x in ast.walk(e)):
            code = compile(ast.fix_missing_locations(ast.Expression(e)), '<C30.short>', 'eval')
            verdict = True
            import itertools as _it
            for idx in [c for r in (1, 2, 3) for c in _it.combinations(range(4), r)]:
                for V in range(0, 6):
                    got = bool(eval(code, {'__builtins__': {}}, {'M': max(idx), 'L': len(idx), 'value_len': V}))
                    if got != (V <= max(idx)):
                        verdict, counter = False, (idx, V, got)
                        break
                if not verdict:
                    break
    chk.judge(okv and verdict, 'C30.short', few[0].ast, 'below v4: value count <= highest routing-key index -> ValueError (decided over index sets within 0..3, 0..5 values)',
              'the guard %s lets a short sequence through: routing_key_indexes %s with %s value(s) is %s although marker %s is unbound - bind succeeds, nothing is UNSET below v4, '
              'and routing_key raises IndexError when the statement is executed' % (src(guard_if.test)[:120] if isinstance(guard_if, ast.If) else '?', list(counter[0]) if counter else '?',
                                                                                 counter[1] if counter else '?', 'rejected' if counter and counter[2] else 'accepted', max(counter[0]) if counter else '?'))
    # main loop
    loops = [n for n in body_walk(bind) if isinstance(n, ast.For) and src(n.iter) == 'zip(values, col_meta)']
    if len(loops) != 1:
        raise AnalysisError('bind: main zip loop not found')
    lp = loops[0]
    chk.judge(isinstance(lp.target, ast.Tuple) and [src(e) for e in lp.target.elts] == ['value', 'col_spec'], 'C30.order', lp, 'for value, col_spec in zip(values, col_meta)', 'value/column pairing changed')
    apps = [n for n in g.stmt_nodes() if n.kind == 'stmt' and any(isinstance(x, ast.Call) and src(x.func) == 'self.values.append' for x in walk_no_nested(n.ast))]
    direct_unset = [a for a in apps if 'UNSET_VALUE' in src(a.ast)]
    chk.judge(not direct_unset, 'C30.unset', bind, 'bind never appends UNSET_VALUE directly', 'UNSET is appended without the routing-key check of _append_unset_value')
    none_app = [a for a in apps if src(a.ast) == 'self.values.append(None)']
    ok = len(none_app) == 1 and all(fa.knows('value is None') is True for fa, _ in fl.at(none_app[0]))
    chk.judge(ok, 'C30.unset', bind, 'None is bound as null (None)', 'None handling changed')
    uc = [n for n in g.stmt_nodes() if n.kind == 'stmt' and src(n.ast) == 'self._append_unset_value()']
    inloop = [n for n in uc if any(n.ast is x for x in ast.walk(lp))]
    ok = len(inloop) == 1 and all(fa.knows('value is UNSET_VALUE') is True and fa.knows('proto_version < 4') is False for fa, _ in fl.at(inloop[0]))
    chk.judge(ok, 'C30.unset', bind, 'explicit UNSET_VALUE -> _append_unset_value() only on v4+', 'explicit UNSET accepted below v4')
    uerr = [n for n in g.nodes if n.kind == 'raise_stmt' and 'UNSET_VALUE while using unsuitable protocol' in src(n.ast)]
    chk.judge(len(uerr) == 1 and all(fa.knows('proto_version < 4') is True for fa, _ in fl.at(uerr[0])), 'C30.unset', bind, 'explicit UNSET below v4 -> ValueError', 'UNSET below v4 not rejected')
    fill = [n for n in uc if n not in inloop]
    ok = len(fill) == 1 and all(fa.knows('proto_version < 4') is False for fa, _ in fl.at(fill[0]))
    from ..sem import resolve
    from ..core import parent as _parent
    count_ok = False
    if fill:
        lpf = _parent(fill[0].ast)
        while lpf is not None and not isinstance(lpf, (ast.For, ast.While, ast.FunctionDef)):
            lpf = _parent(lpf)
        if isinstance(lpf, ast.For):
            want_ = src(resolve(bind, ast.parse('range(col_meta_len - len(self.values))', mode='eval').body))
            count_ok = src(resolve(bind, lpf.iter)) == want_
    chk.judge(ok and count_ok, 'C30.unset', bind, 'trailing columns filled with UNSET only on v4+, exactly col_meta_len - len(values) times',
              'trailing fill happens below v4 or with a wrong count')
    ser = [n for n in body_walk(lp) if isinstance(n, ast.Call) and src(n.func) == 'col_type.serialize']
    chk.judge(len(ser) == 1 and [src(a) for a in ser[0].args] == ['value', 'proto_version'], 'C30.order', lp, 'each value serialized with its own column type and the statement protocol version', 'serialization call changed')
    ct = [st for st in body_walk(lp) if isinstance(st, ast.Assign) and src(st.targets[0]) == 'col_type']
    chk.judge(len(ct) == 1 and src(ct[0].value) == 'ce_policy.column_type(col_desc) if uses_ce else col_spec.type', 'C30.order', lp, 'column type = the bind column\'s type (or the encryption policy\'s)', 'column type source changed')
    au = q.func('BoundStatement._append_unset_value')
    ga = CFG(au)
    fla = Flow(ga, 0, lambda n, c: c)
    ap = [n for n in ga.stmt_nodes() if n.kind == 'stmt' and src(n.ast) == 'self.values.append(UNSET_VALUE)']
    ok = len(ap) == 1 and all(fa.knows('self.prepared_statement.is_routing_key_index(next_index)') is False for fa, _ in fla.at(ap[0]))
    chk.judge(ok and 'next_index = len(self.values)' in src(au) and any(n.kind == 'raise_stmt' for n in ga.nodes), 'C30.unset', au,
              '_append_unset_value: raises for a routing-key index, appends otherwise (index = current length)', 'UNSET can be bound for a partition-key component')
    irk = q.func('PreparedStatement.is_routing_key_index')
    # the membership set as a function of routing_key_indexes (None / empty / some): folded
    from ..fold import Folder as _F30, Unfoldable as _U30
    import copy as _copy30
    sets_ = [st for st in body_walk(irk) if isinstance(st, ast.Assign) and src(st.targets[0]) == 'self._routing_key_index_set']
    oks = len(sets_) == 1 and 'return i in self._routing_key_index_set' in src(irk)
    if oks:
        class _R(ast.NodeTransformer):
            def visit_Attribute(s_, n_):
                return ast.Name(id='_rki', ctx=ast.Load()) if src(n_) == 'self.routing_key_indexes' else n_
        e_ = _R().visit(_copy30.deepcopy(sets_[0].value))
        fo_ = _F30(q)
        try:
            oks = [fo_.eval(e_, env={'_rki': v_}) for v_ in (None, (), (2, 0))] == [set(), set(), set([0, 2])]
        except (_U30, TypeError):
            oks = False
    chk.judge(oks, 'C30.unset', irk, 'routing-key index set built from routing_key_indexes (empty for None)', 'routing index membership changed')

    # routing key layout
    kp = q.func('Statement._key_parts_packed')
    packs = [n for n in body_walk(kp) if isinstance(n, ast.Call) and src(n.func) == 'struct.pack']
    good = len(packs) == 1 and isinstance(packs[0].args[0], ast.BinOp) and isinstance(packs[0].args[0].left, ast.Constant) and packs[0].args[0].left.value == '>H%dsB' \
        and [src(a) for a in packs[0].args[1:]] == ['l', 'p', '0'] and src(packs[0].args[0].right) == 'l' and 'l = len(p)' in src(kp)
    chk.judge(good, 'C30.key', kp, 'component = struct.pack(">H%dsB" % len(p), len(p), p, 0)', 'composite key component layout changed: %s' % (src(packs[0]) if packs else None))
    rk = q.func('BoundStatement.routing_key')
    srk = q.func('Statement._set_routing_key')
    s1, s2 = src(rk), src(srk)
    good = 'if len(routing_indexes) == 1' in s1 and 'self._routing_key = self.values[routing_indexes[0]]' in s1 and \
        "b''.join(self._key_parts_packed((self.values[i] for i in routing_indexes)))" in s1
    chk.judge(good, 'C30.key', rk, 'BoundStatement.routing_key: one index -> raw value; else join of packed parts in routing-index order', 'bound routing key rule changed')
    good = 'if len(key) == 1' in s2 and 'self._routing_key = key[0]' in s2 and "b''.join(self._key_parts_packed(key))" in s2
    chk.judge(good, 'C30.key', srk, 'Statement._set_routing_key: one component -> raw; else join of packed parts', 'statement routing key rule changed')
    from .. import sem as _sem
    grk, flrk = _sem.flow_of(rk)
    aliases = ['self.prepared_statement.routing_key_indexes'] + [src(st.targets[0]) for st in body_walk(rk) if isinstance(st, ast.Assign) and len(st.targets) == 1 and
                                                                  isinstance(st.targets[0], ast.Name) and src(st.value) == 'self.prepared_statement.routing_key_indexes']
    nones = [n for n in grk.stmt_nodes() if n.kind == 'return' and (n.ast.value is None or (isinstance(n.ast.value, ast.Constant) and n.ast.value.value is None))]
    writes = [n for n in grk.stmt_nodes() if n.kind == 'stmt' and isinstance(n.ast, ast.Assign) and src(n.ast.targets[0]) == 'self._routing_key']
    ok_none = bool(nones) and all(any(fa.knows(a) is False for a in aliases) for n in nones for fa, _c in flrk.at(n))
    ok_w = bool(writes) and all(any(fa.knows(a) is True for a in aliases) for n in writes for fa, _c in flrk.at(n))
    chk.judge(ok_none and ok_w, 'C30.key', rk, 'no routing indexes -> no routing key; a key is computed only with indexes', 'routing key invented without indexes')
    # from_message
    fm = q.func('PreparedStatement.from_message')
    gf = CFG(fm)
    flf = Flow(gf, 0, lambda n, c: c)
    a1 = [n for n in gf.stmt_nodes() if n.kind == 'stmt' and src(n.ast) == 'routing_key_indexes = pk_indexes']
    chk.judge(len(a1) == 1 and all(fa.knows('pk_indexes') is True for fa, _ in flf.at(a1[0])), 'C30.pk', fm, 'pk_indexes from the server are used when present', 'server pk_indexes ignored')
    comp = [n for n in body_walk(fm) if isinstance(n, ast.ListComp) and 'partition_key_columns' in src(n)]
    good = len(comp) == 1 and src(comp[0].elt) == 'statement_indexes[c.name]' and src(comp[0].generators[0].iter) == 'partition_key_columns' and not comp[0].generators[0].ifs
    chk.judge(good, 'C30.pk', fm, 'routing_key_indexes = [statement_indexes[c.name] for c in partition_key_columns] (partition-key order)',
              'routing indexes are no longer listed in partition-key order: a composite key bound with markers in another order gets the wrong routing key / token')
    s = src(fm)
    # the index map: {column name: position in the statement's column metadata}, as a dict() over a generator or a dict comprehension, whatever the variable names
    def _is_index_map(v):
        comp_, key_, val_ = None, None, None
        if isinstance(v, ast.DictComp):
            comp_, key_, val_ = v, v.key, v.value
        elif isinstance(v, ast.Call) and src(v.func) == 'dict' and len(v.args) == 1 and isinstance(v.args[0], (ast.GeneratorExp, ast.ListComp)) and isinstance(v.args[0].elt, ast.Tuple) and len(v.args[0].elt.elts) == 2:
            comp_, key_, val_ = v.args[0], v.args[0].elt.elts[0], v.args[0].elt.elts[1]
        if comp_ is None or len(comp_.generators) != 1 or comp_.generators[0].ifs:
            return False
        gen_ = comp_.generators[0]
        if src(gen_.iter) != 'enumerate(column_metadata)' or not (isinstance(gen_.target, ast.Tuple) and len(gen_.target.elts) == 2):
            return False
        iv, cv = src(gen_.target.elts[0]), src(gen_.target.elts[1])
        return src(key_) == '%s.name' % cv and src(val_) == iv
    maps_ = [st for st in body_walk(fm) if isinstance(st, ast.Assign) and src(st.targets[0]) == 'statement_indexes']
    from ..sem import elementwise as _ew30
    ew_ = _ew30(fm).get('statement_indexes', [])
    # comprehension, dict(generator) or an empty dict filled in a loop: {column name: position} over enumerate(column_metadata)
    map_ok = (len(maps_) == 1 and _is_index_map(maps_[0].value)) or \
        (len(ew_) == 1 and ew_[0][0] == ('dict', 'enumerate(column_metadata)', ('_e1.name', '_e0')))
    chk.judge(map_ok and 'partition_key_columns = table_meta.partition_key' in s, 'C30.pk', fm,
              'statement_indexes maps column name -> bind position; key columns from table_meta.partition_key', 'index map / key column source changed')
    chk.judge('except KeyError' in s, 'C30.pk', fm, 'a missing key component leaves routing_key_indexes None', 'partial key produces a routing key')
    calls = [n for n in body_walk(fm) if isinstance(n, ast.Call) and src(n.func) == 'PreparedStatement']
    chk.judge(all(len(c.args) >= 3 and src(c.args[2]) in ('routing_key_indexes', 'None') for c in calls) and len(calls) == 2, 'C30.pk', fm, 'indexes passed as the routing_key_indexes argument', 'argument roles changed')

    # the routing key is cached on first use: binding new values must drop the cached key, or the statement is routed by the previous row's token
    chk.rule('C30.cache', 'BoundStatement.bind, which rebinds self.values, resets the cached _routing_key')
    qm_ = chk.repo.mod('cassandra/query.py')
    bind_ = qm_.func('BoundStatement.bind')
    writes_values = [a for a in body_walk(bind_) if isinstance(a, ast.Assign) and any(src(t) == 'self.values' for t in a.targets)]
    resets = [a for a in body_walk(bind_) if isinstance(a, ast.Assign) and any(src(t) == 'self._routing_key' for t in a.targets) and src(a.value) == 'None']
    if not writes_values:
        raise AnalysisError('BoundStatement.bind: assignment of self.values not found')
    rk_ = qm_.func('BoundStatement.routing_key')
    cached = any(isinstance(a, ast.Assign) and any(src(t) == 'self._routing_key' for t in a.targets) for a in body_walk(rk_))
    chk.judge(bool(resets) or not cached, 'C30.cache', bind_, 'bind() resets self._routing_key when it rebinds self.values',
              'routing_key caches its result in self._routing_key and bind() never clears it: a BoundStatement that is bound again after its routing key was read '
              'keeps the key (and token) of the previous values')
