"""C38 - cqlengine routing keys (narrow)."""
import ast

from ..core import AnalysisError, src, body_walk, walk_no_nested
from ..cfg import CFG, Flow

Q = 'cassandra/cqlengine/query.py'
MODELS = 'cassandra/cqlengine/models.py'
ST = 'cassandra/cqlengine/statements.py'


def check(chk):
    chk.decides = ('the model metaclass builds the key serializer from the partition-key columns in key order (cql_type.to_binary per component, zipped with the '
                   'values); statement.partition_key_values puts each equality value at its key index; _execute_statement attaches the routing key exactly when '
                   'no component is None (0, "" and False are values) and hands the component list to Statement.routing_key, whose composite layout is C30\'s')
    chk.does_not_decide = 'equality with Cassandra\'s encoding for all values (C01/C02) '
    chk.rule('C38.serializer', 'key_serializer = [t.to_binary(p, proto) for t, p in zip(key_cql_types, parts)] with key_cql_types from the partition keys in order')
    chk.rule('C38.values', 'partition_key_values: a list of len(index map) filled by index from equality WHERE clauses (and assignments for INSERT/UPDATE)')
    chk.rule('C38.attach', 'routing key attached iff every component is not None (falsy values count as present); keyspace set with it')
    q = chk.repo.mod(Q)
    m = chk.repo.mod(MODELS)
    st = chk.repo.mod(ST)
    ex0 = q.func('_execute_statement')
    # the routing key may be attached in _execute_statement itself or in a module-level helper it hands the statement to
    cands = [ex0] + [q.get(c_.func.id) for c_ in body_walk(ex0) if isinstance(c_, ast.Call) and isinstance(c_.func, ast.Name) and q.has(c_.func.id) and isinstance(q.get(c_.func.id), ast.FunctionDef)]
    holders = [f_ for f_ in cands if any(isinstance(st_, ast.Assign) and isinstance(st_.targets[0], ast.Attribute) and st_.targets[0].attr == 'routing_key' for st_ in body_walk(f_))]
    if len(holders) != 1:
        raise AnalysisError('_execute_statement: routing key assignment not found')
    ex = holders[0]
    g = CFG(ex)
    fl = Flow(g, 0, lambda n, c: c)
    att = [n for n in g.stmt_nodes() if n.kind == 'stmt' and isinstance(n.ast, ast.Assign) and isinstance(n.ast.targets[0], ast.Attribute) and n.ast.targets[0].attr == 'routing_key']
    if len(att) != 1:
        raise AnalysisError('_execute_statement: routing key assignment not found')
    svar = src(att[0].ast.targets[0].value)
    good = False
    why = None
    # form 1: a guard expression  not any(v is None for v in key_values)  /  all(v is not None for v in key_values)
    for gi in [n for n in body_walk(ex) if isinstance(n, ast.If) and 'key_values' in src(n.test)]:
        t = gi.test
        if isinstance(t, ast.UnaryOp) and isinstance(t.op, ast.Not) and isinstance(t.operand, ast.Call) and src(t.operand.func) == 'any' and t.operand.args and isinstance(t.operand.args[0], ast.GeneratorExp):
            ge = t.operand.args[0]
            v_ = src(ge.generators[0].target)
            if src(ge.elt) == '%s is None' % v_ and src(ge.generators[0].iter) == 'key_values' and any(att[0].ast is x for st_ in gi.body for x in ast.walk(st_)):
                good, why = True, src(t)
        elif isinstance(t, ast.Call) and src(t.func) == 'all' and t.args and isinstance(t.args[0], ast.GeneratorExp):
            ge = t.args[0]
            v_ = src(ge.generators[0].target)
            if src(ge.elt) == '%s is not None' % v_ and src(ge.generators[0].iter) == 'key_values' and any(att[0].ast is x for st_ in gi.body for x in ast.walk(st_)):
                good, why = True, src(t)
    # form 2: a loop over the components that leaves the function at the first None, before the key is computed
    if not good:
        for lp_ in [n for n in body_walk(ex) if isinstance(n, ast.For) and src(n.iter) == 'key_values' and isinstance(n.target, ast.Name) and not n.orelse]:
            v_ = lp_.target.id
            b_ = lp_.body
            if len(b_) == 1 and isinstance(b_[0], ast.If) and not b_[0].orelse and src(b_[0].test) == '%s is None' % v_ and len(b_[0].body) == 1 and isinstance(b_[0].body[0], ast.Return) \
                    and b_[0].body[0].value is None:
                ln = [n for n in g.nodes if n.kind == 'for_iter' and n.ast is lp_]
                if ln and g.dominates(ln[0], att[0]):
                    good, why = True, 'for %s in key_values: if %s is None: return' % (v_, v_)
    chk.judge(good, 'C38.attach', ex, 'routing key attached iff no component is None: %s' % why,
              'the guard tests truthiness (or something else) instead of "is None": a key component equal to 0, "", b"" or False counts as missing and the statement is sent without routing key')
    s = src(ex)
    rk_val = att[0].ast.value
    if isinstance(rk_val, ast.Name):
        pdefs = [st_ for st_ in body_walk(ex) if isinstance(st_, ast.Assign) and src(st_.targets[0]) == rk_val.id]
        rk_val = pdefs[0].value if len(pdefs) == 1 else rk_val
    chk.judge('key_values = statement.partition_key_values(model._partition_key_index)' in s and src(rk_val).startswith('model._routing_key_from_values(key_values,') and
              '%s.keyspace = model._get_keyspace()' % svar in s,
              'C38.attach', ex, 'values from the statement by the model\'s key index, serialized by the model, attached with the keyspace', 'routing key hand-over changed')
    pk_states = list(fl.at(att[0]))
    chk.judge(bool(pk_states) and all(fa.knows('model._partition_key_index') is True for fa, _c in pk_states), 'C38.attach', ex, 'only models that compute routing keys', 'guard on _partition_key_index changed')
    rk = m.func('BaseModel._routing_key_from_values')
    from ..sem import resolve
    rets_rk = [n for n in body_walk(rk) if isinstance(n, ast.Return)]
    fresh = bool(rets_rk) and all(r.value is not None and src(resolve(rk, r.value)) == 'cls._key_serializer(pk_values, protocol_version)' for r in rets_rk)
    chk.judge(fresh, 'C38.serializer', rk, '_routing_key_from_values: every result is computed by this model\'s _key_serializer for these values',
              'a routing key is returned that this call did not compute with the model\'s own serializer (%s): a value cached or shared across models / equal-but-differently-encoded values '
              'yields another key\'s bytes and the statement is routed to the wrong replicas' % [src(r.value)[:50] for r in rets_rk if r.value is not None and src(resolve(rk, r.value)) != 'cls._key_serializer(pk_values, protocol_version)'])
    meta = m.func('ModelMetaClass.__new__')
    s = src(meta)
    _serializer_rules(chk, meta)
    # dense numbering: a position taken from the running counter is the one the column keeps (a column that overrides an inherited one
    # reuses the inherited position and must not consume a new one), otherwise the index map has a gap and parts[index] overflows
    chk.rule('C38.dense', 'the running partition-key counter is advanced only for a column that keeps the position taken from it (no later overwrite of v._partition_key_index in the same iteration)')
    gm = CFG(meta)
    incs = [n for n in gm.stmt_nodes() if n.kind == 'stmt' and isinstance(n.ast, ast.AugAssign) and src(n.ast.target) == 'partition_key_index']
    if not incs:
        raise AnalysisError('ModelMetaClass.__new__: counter increment not found')
    for inc in incs:
        seen, work, bad = set(), [x for x, _l in inc.succ], []
        while work:
            n = work.pop()
            if n.id in seen or n.kind == 'for_iter':
                continue
            seen.add(n.id)
            if n.kind == 'stmt' and isinstance(n.ast, ast.Assign) and any(src(t).endswith('._partition_key_index') for t in n.ast.targets) and src(n.ast.value) != 'partition_key_index':
                bad.append(n)
                continue
            work.extend(x for x, _l in n.succ)
        chk.judge(not bad, 'C38.dense', inc.ast, 'counter advanced only for a column that keeps its position',
                  'after the counter was advanced the same column\'s position is overwritten (%s): a subclass that re-declares an inherited partition key and adds another one gets a gapped '
                  'index map ({a: 0, b: 1, c: 3}); partition_key_values allocates 3 slots and parts[3] raises IndexError for every statement that fixes the whole key' % [src(b.ast) for b in bad])
    # the driver type a key column is serialized with: looked up from this column's own db_type each time (db_type differs per subclass - a value cached on a class is
    # inherited by every subclass that has not cached its own yet)
    chk.rule('C38.type', 'Column.cql_type is _cqltypes[self.db_type], computed per call from the column\'s own db_type (no class-level cache)')
    colm = chk.repo.mod('cassandra/cqlengine/columns.py')
    ct = colm.func('Column.cql_type')
    rets_ct = [r for r in body_walk(ct) if isinstance(r, ast.Return) and r.value is not None]
    okct = bool(rets_ct) and all(src(resolve(ct, r.value)) == '_cqltypes[self.db_type]' for r in rets_ct)
    cls_writes = [x for x in body_walk(ct) if isinstance(x, (ast.Assign, ast.AugAssign)) and any(isinstance(t, ast.Attribute) and src(t.value) in ('cls', 'type(self)', 'self.__class__') for t in (x.targets if isinstance(x, ast.Assign) else [x.target]))]
    chk.judge(okct and not cls_writes, 'C38.type', ct, 'cql_type -> _cqltypes[self.db_type]',
              'cql_type returns a value remembered on the class (%s): attribute lookup goes through inheritance, so once an Integer column has been asked, TinyInt / SmallInt / BigInt '
              '(subclasses) answer Int32Type - their partition-key components are serialized with 4 bytes and the routing key is not the row\'s' % [src(x)[:50] for x in cls_writes])
    pk = st.func('BaseCQLStatement.partition_key_values')
    up = st.func('BaseCQLStatement._update_part_key_values')
    chk.judge('parts = [None] * len(field_index_map)' in src(pk) and 'w.operator.__class__ == EqualsOperator' in src(pk) and 'return parts' in src(pk), 'C38.values', pk,
              'parts pre-filled with None; only equality clauses contribute', 'partition_key_values changed')
    # each clause whose field is a key column puts its value at that column's index: the membership test may be a filter() predicate or an if inside the loop
    from .. import sem as _sem38
    gup, flup = _sem38.flow_of(up)
    puts = [n for n in gup.stmt_nodes() if n.kind == 'stmt' and isinstance(n.ast, ast.Assign) and isinstance(n.ast.targets[0], ast.Subscript) and src(n.ast.targets[0].value) == 'parts']
    okv = len(puts) == 1
    if okv:
        tgt = puts[0].ast.targets[0]
        loops_up = [lp_ for lp_ in body_walk(up) if isinstance(lp_, ast.For) and any(puts[0].ast is x for x in ast.walk(lp_))]
        okv = len(loops_up) == 1 and isinstance(loops_up[0].target, ast.Name)
    if okv:
        cv = loops_up[0].target.id
        okv = src(tgt.slice) == 'field_index_map[%s.field]' % cv and src(puts[0].ast.value) == '%s.value' % cv
        it_ = loops_up[0].iter
        filtered = isinstance(it_, ast.Call) and src(it_.func) == 'filter' and len(it_.args) == 2 and isinstance(it_.args[0], ast.Lambda) and src(it_.args[1]) == 'clauses' and \
            src(it_.args[0].body) == '%s.field in field_index_map' % it_.args[0].args.args[0].arg
        tested = src(it_) == 'clauses' and all(fa.knows('%s.field in field_index_map' % cv) is True for fa, _c in flup.at(puts[0]))
        okv = okv and (filtered or tested)
    chk.judge(okv, 'C38.values', up, 'value placed at its key index', 'value placement changed')
    apk = st.func('AssignmentStatement.partition_key_values')
    chk.judge('self._update_part_key_values(field_index_map, self.assignments, parts)' in src(apk) and 'super(AssignmentStatement, self).partition_key_values(field_index_map)' in src(apk), 'C38.values', apk,
              'INSERT/UPDATE also take key values from their assignments', 'assignment contribution changed')


def _stored_name(meta, key):
    st = [x for x in body_walk(meta) if isinstance(x, ast.Assign) and len(x.targets) == 1 and isinstance(x.targets[0], ast.Subscript)
          and src(x.targets[0].value) == 'attrs' and isinstance(x.targets[0].slice, ast.Constant) and x.targets[0].slice.value == key]
    if len(st) != 1 or not isinstance(st[0].value, ast.Name):
        raise AnalysisError("ModelMetaClass.__new__: attrs[%r] = <local> not found" % key)
    return st[0].value.id, st[0]


def _serializer_rules(chk, meta):
    """the key serializer and the index map, whatever statements build them: the serializer maps (parts, proto) to
    [T_i.to_binary(parts_i, proto)] with T the cql types of partition_keys.values() in order, whenever routing keys are computed for the model;
    the index map sends each of those columns' db_field_name to its _partition_key_index"""
    from .. import sem
    FLAG = "attrs.get('__compute_routing_key__', True)"
    g, fl = sem.flow_of(meta)
    ew = sem.elementwise(meta)
    ser_name, ser_store = _stored_name(meta, '_key_serializer')
    idx_name, idx_store = _stored_name(meta, '_partition_key_index')

    def over_partition_keys(it, depth=3):
        """does the iterable text denote the partition key columns in key order"""
        if it in ('partition_keys.values()', 'list(partition_keys.values())', 'tuple(partition_keys.values())'):
            return True
        if depth and it in ew:
            ds = ew[it]
            return len(ds) == 1 and ds[0][0][0] == 'list' and ds[0][0][2] == '_e0' and over_partition_keys(ds[0][0][1], depth - 1)
        return False

    def flag_at(stmt):
        n = sem.node_of(g, stmt)
        vals = set(fa.knows(FLAG) for fa, _c in fl.at(n))
        return vals

    # --- the serializer functions
    sites = []
    for st in body_walk(meta):
        if isinstance(st, ast.Assign) and len(st.targets) == 1 and src(st.targets[0]) == ser_name:
            v = st.value
            if not (isinstance(v, ast.Call) and src(v.func) == 'staticmethod' and len(v.args) == 1):
                raise AnalysisError('ModelMetaClass.__new__: %s is not a staticmethod(...)' % ser_name)
            fn = v.args[0]
            if isinstance(fn, ast.Lambda):
                sites.append((fn, st))
            elif isinstance(fn, ast.Name):
                defs = [d for d in body_walk(meta) if isinstance(d, ast.FunctionDef) and d.name == fn.id]
                if not defs:
                    raise AnalysisError('ModelMetaClass.__new__: serializer function %s not found' % fn.id)
                sites.extend((d, d) for d in defs)
            else:
                raise AnalysisError('ModelMetaClass.__new__: serializer %s not recognised' % src(fn)[:60])
    if not sites:
        raise AnalysisError('ModelMetaClass.__new__: no assignment of %s' % ser_name)

    def describe(fn):
        """'null' | ('zip', types name) | text of what is not recognised"""
        ps = [a.arg for a in fn.args.args]
        if len(ps) != 2:
            return 'takes %d parameters' % len(ps)
        if isinstance(fn, ast.Lambda):
            rv = [fn.body]
            loc = {}
        else:
            rv = [r.value for r in body_walk(fn) if isinstance(r, ast.Return)]
            loc = sem.elementwise(fn)
        if all(r is None or (isinstance(r, ast.Constant) and r.value is None) for r in rv):
            return 'null'
        if len(rv) != 1:
            return 'has %d results' % len(rv)
        r = rv[0]
        d = None
        if isinstance(r, ast.Name) and len(loc.get(r.id, ())) == 1:
            d = loc[r.id][0][0]
        elif r is not None:
            d = sem._comp_descr(r)
        if d is None or d[0] != 'list':
            return 'result %s is not built element by element' % src(r)[:60]
        it = ast.parse(d[1], mode='eval').body
        if not (isinstance(it, ast.Call) and src(it.func) == 'zip' and len(it.args) == 2 and not it.keywords and all(isinstance(a_, ast.Name) for a_ in it.args)):
            return 'iterates %s' % d[1]
        a0, a1 = it.args[0].id, it.args[1].id
        if a1 == ps[0] and d[2] == '_e0.to_binary(_e1, %s)' % ps[1]:
            return ('zip', a0)
        if a0 == ps[0] and d[2] == '_e1.to_binary(_e0, %s)' % ps[1]:
            return ('zip', a1)
        return 'element %s over %s' % (d[2], d[1])

    nzip = 0
    for fn, site in sites:
        d = describe(fn)
        flags = flag_at(site)
        if d == 'null':
            chk.judge(flags == {False}, 'C38.serializer', site, 'the serializer that yields no key is chosen only when __compute_routing_key__ is false',
                      'a serializer that returns None is installed although routing keys are to be computed for the model (flag %s here)' % sorted(map(str, flags)))
            continue
        if isinstance(d, tuple):
            tn = d[1]
            tds = ew.get(tn, [])
            okt = len(tds) == 1 and tds[0][0][0] == 'list' and tds[0][0][2] == '_e0.cql_type' and over_partition_keys(tds[0][0][1])
            nzip += 1
            chk.judge(okt, 'C38.serializer', site, 'serializer: [T.to_binary(p, proto) for T, p in zip(%s, parts)], %s = cql types of partition_keys.values() in key order' % (tn, tn),
                      'the type list %s the serializer zips with the key values is not the cql_type of each partition key column in key order (%s)'
                      % (tn, [x[0] for x in tds] or 'not built element by element'))
        else:
            chk.viol('C38.serializer', site, 'key serializer: [T.to_binary(part, proto) for T, part in zip(types, parts)]',
                     'the key serializer is not the element-wise to_binary of the partition key values (%s): a key component is encoded differently from the column\'s codec (a falsy value - 0, False, '
                     'the epoch - as empty bytes, say) and the statement is routed to the wrong replicas' % d)
    chk.judge(nzip >= 1, 'C38.serializer', meta, 'a serializing key serializer exists', 'no serializer that encodes the key components is installed')

    # --- the index map
    live = [(d, st) for d, st in ew.get(idx_name, []) if flag_at(st) != {False}]
    okm = len(live) == 1 and live[0][0][2] == ('_e0.db_field_name', '_e0._partition_key_index') and over_partition_keys(live[0][0][1])
    chk.judge(okm, 'C38.serializer', live[0][1] if live else meta, 'index map: db_field_name -> _partition_key_index for each column of partition_keys.values()',
              'the index map is not {col.db_field_name: col._partition_key_index for col in partition_keys.values()} (%s)' % [d for d, _s in live])
    if live:
        # nothing rebinds the map between its construction and the store on the class (other than the arm for models without routing keys)
        start = sem.node_of(g, live[0][1])
        seen, work, bad = set(), [x for x, _l in start.succ], []
        while work:
            n = work.pop()
            if n.id in seen:
                continue
            seen.add(n.id)
            if n.kind == 'stmt' and n.ast is idx_store:
                continue
            if n.kind == 'stmt' and n.ast is not live[0][1] and isinstance(n.ast, (ast.Assign, ast.AugAssign)) and \
                    any(isinstance(t, ast.Name) and t.id == idx_name for t in (n.ast.targets if isinstance(n.ast, ast.Assign) else [n.ast.target])):
                bad.append(n)
                continue
            work.extend(x for x, _l in n.succ)
        chk.judge(not bad, 'C38.serializer', idx_store, 'the map built is the one stored on the class', 'the index map is rebound before it is stored (%s)' % [src(b.ast)[:60] for b in bad])

    # --- positions are handed out from a running counter in declaration order
    okc = False
    for body in [n.body for n in ast.walk(meta) if isinstance(n, (ast.If, ast.For))] + [n.orelse for n in ast.walk(meta) if isinstance(n, ast.If)]:
        for i, st in enumerate(body):
            if isinstance(st, ast.Assign) and len(st.targets) == 1 and isinstance(st.targets[0], ast.Attribute) and st.targets[0].attr == '_partition_key_index' \
                    and isinstance(st.value, ast.Name):
                c = st.value.id
                for nx in body[i + 1:]:
                    if isinstance(nx, ast.AugAssign) and isinstance(nx.op, ast.Add) and src(nx.target) == c and src(nx.value) == '1':
                        okc = True
                    if isinstance(nx, ast.Assign) and src(nx.targets[0]) == c and src(nx.value) in ('%s + 1' % c, '1 + %s' % c):
                        okc = True
    chk.judge(okc, 'C38.serializer', meta, 'partition key positions assigned from a counter advanced by one per key column, in declaration order', 'key position assignment changed')
