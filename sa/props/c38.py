"""C38 - cqlengine routing keys (narrow)."""
import ast

from ..core import AnalysisError, src, body_walk, walk_no_nested
from ..cfg import CFG, Flow

Q = 'cassandra/cqlengine/query.py'
MODELS = 'cassandra/cqlengine/models.py'
ST = 'cassandra/cqlengine/statements.py'


def check(chk):
    chk.decides = ('the model metaclass builds the key serializer from the partition-key columns in key order (cql_type.to_binary per component, zipped with the '
                   'values); statement.partition_key_values puts each equality value at its key index; _execute_statement attaches the routing key exactly when '
                   'no component is None (0, "" and False are values) and hands the component list to Statement.routing_key, whose composite layout is C30\'s')
    chk.does_not_decide = 'equality with Cassandra\'s encoding for all values (C01/C02) '
    chk.rule('C38.serializer', 'key_serializer = [t.to_binary(p, proto) for t, p in zip(key_cql_types, parts)] with key_cql_types from the partition keys in order')
    chk.rule('C38.values', 'partition_key_values: a list of len(index map) filled by index from equality WHERE clauses (and assignments for INSERT/UPDATE)')
    chk.rule('C38.attach', 'routing key attached iff every component is not None (falsy values count as present); keyspace set with it')
    q = chk.repo.mod(Q)
    m = chk.repo.mod(MODELS)
    st = chk.repo.mod(ST)
    ex = q.func('_execute_statement')
    g = CFG(ex)
    fl = Flow(g, 0, lambda n, c: c)
    att = [n for n in g.stmt_nodes() if n.kind == 'stmt' and src(n.ast).startswith('s.routing_key =')]
    if len(att) != 1:
        raise AnalysisError('_execute_statement: routing key assignment not found')
    guard = [n for n in body_walk(ex) if isinstance(n, ast.If) and 'key_values' in src(n.test)]
    good = False
    if len(guard) == 1:
        t = guard[0].test
        # not any(v is None for v in key_values)   |   all(v is not None for v in key_values)
        if isinstance(t, ast.UnaryOp) and isinstance(t.op, ast.Not) and isinstance(t.operand, ast.Call) and src(t.operand.func) == 'any':
            ge = t.operand.args[0]
            good = isinstance(ge, ast.GeneratorExp) and src(ge.elt) in ('v is None',) and src(ge.generators[0].iter) == 'key_values'
        elif isinstance(t, ast.Call) and src(t.func) == 'all' and isinstance(t.args[0], ast.GeneratorExp):
            ge = t.args[0]
            good = src(ge.elt) == 'v is not None' and src(ge.generators[0].iter) == 'key_values'
    chk.judge(good, 'C38.attach', ex, 'routing key attached iff no component is None: %s' % (src(guard[0].test) if guard else None),
              'the guard tests truthiness (or something else) instead of "is None": a key component equal to 0, "", b"" or False counts as missing and the statement is sent without routing key')
    s = src(ex)
    chk.judge('key_values = statement.partition_key_values(model._partition_key_index)' in s and 'model._routing_key_from_values(key_values,' in s and 's.routing_key = parts' in s and 's.keyspace = model._get_keyspace()' in s,
              'C38.attach', ex, 'values from the statement by the model\'s key index, serialized by the model, attached with the keyspace', 'routing key hand-over changed')
    chk.judge('if model._partition_key_index' in s, 'C38.attach', ex, 'only models that compute routing keys', 'guard on _partition_key_index changed')
    rk = m.func('BaseModel._routing_key_from_values')
    from ..sem import resolve
    rets_rk = [n for n in body_walk(rk) if isinstance(n, ast.Return)]
    fresh = bool(rets_rk) and all(r.value is not None and src(resolve(rk, r.value)) == 'cls._key_serializer(pk_values, protocol_version)' for r in rets_rk)
    chk.judge(fresh, 'C38.serializer', rk, '_routing_key_from_values: every result is computed by this model\'s _key_serializer for these values',
              'a routing key is returned that this call did not compute with the model\'s own serializer (%s): a value cached or shared across models / equal-but-differently-encoded values '
              'yields another key\'s bytes and the statement is routed to the wrong replicas' % [src(r.value)[:50] for r in rets_rk if r.value is not None and src(resolve(rk, r.value)) != 'cls._key_serializer(pk_values, protocol_version)'])
    meta = m.func('ModelMetaClass.__new__')
    s = src(meta)
    good = 'key_cols = [c for c in partition_keys.values()]' in s and 'key_cql_types = [c.cql_type for c in key_cols]' in s and \
        '[t.to_binary(p, proto_version) for t, p in zip(key_cql_types, parts)]' in s and \
        'partition_key_index = dict(((col.db_field_name, col._partition_key_index) for col in key_cols))' in s
    chk.judge(good, 'C38.serializer', meta, 'serializer zips the partition-key cql types (key order) with the parts; index map db_field_name -> key position', 'key serializer construction changed')
    chk.judge('v._partition_key_index = partition_key_index' in s and 'partition_key_index += 1' in s, 'C38.serializer', meta, 'partition key positions assigned in declaration order', 'key position assignment changed')
    # dense numbering: a position taken from the running counter is the one the column keeps (a column that overrides an inherited one
    # reuses the inherited position and must not consume a new one), otherwise the index map has a gap and parts[index] overflows
    chk.rule('C38.dense', 'the running partition-key counter is advanced only for a column that keeps the position taken from it (no later overwrite of v._partition_key_index in the same iteration)')
    gm = CFG(meta)
    incs = [n for n in gm.stmt_nodes() if n.kind == 'stmt' and isinstance(n.ast, ast.AugAssign) and src(n.ast.target) == 'partition_key_index']
    if not incs:
        raise AnalysisError('ModelMetaClass.__new__: counter increment not found')
    for inc in incs:
        seen, work, bad = set(), [x for x, _l in inc.succ], []
        while work:
            n = work.pop()
            if n.id in seen or n.kind == 'for_iter':
                continue
            seen.add(n.id)
            if n.kind == 'stmt' and isinstance(n.ast, ast.Assign) and any(src(t).endswith('._partition_key_index') for t in n.ast.targets) and src(n.ast.value) != 'partition_key_index':
                bad.append(n)
                continue
            work.extend(x for x, _l in n.succ)
        chk.judge(not bad, 'C38.dense', inc.ast, 'counter advanced only for a column that keeps its position',
                  'after the counter was advanced the same column\'s position is overwritten (%s): a subclass that re-declares an inherited partition key and adds another one gets a gapped '
                  'index map ({a: 0, b: 1, c: 3}); partition_key_values allocates 3 slots and parts[3] raises IndexError for every statement that fixes the whole key' % [src(b.ast) for b in bad])
    chk.judge("attrs['_partition_key_index'] = partition_key_index" in s and "attrs['_key_serializer'] = key_serializer" in s, 'C38.serializer', meta, 'both stored on the model class', 'storage of index/serializer changed')
    # the driver type a key column is serialized with: looked up from this column's own db_type each time (db_type differs per subclass - a value cached on a class is
    # inherited by every subclass that has not cached its own yet)
    chk.rule('C38.type', 'Column.cql_type is _cqltypes[self.db_type], computed per call from the column\'s own db_type (no class-level cache)')
    colm = chk.repo.mod('cassandra/cqlengine/columns.py')
    ct = colm.func('Column.cql_type')
    rets_ct = [r for r in body_walk(ct) if isinstance(r, ast.Return) and r.value is not None]
    okct = bool(rets_ct) and all(src(resolve(ct, r.value)) == '_cqltypes[self.db_type]' for r in rets_ct)
    cls_writes = [x for x in body_walk(ct) if isinstance(x, (ast.Assign, ast.AugAssign)) and any(isinstance(t, ast.Attribute) and src(t.value) in ('cls', 'type(self)', 'self.__class__') for t in (x.targets if isinstance(x, ast.Assign) else [x.target]))]
    chk.judge(okct and not cls_writes, 'C38.type', ct, 'cql_type -> _cqltypes[self.db_type]',
              'cql_type returns a value remembered on the class (%s): attribute lookup goes through inheritance, so once an Integer column has been asked, TinyInt / SmallInt / BigInt '
              '(subclasses) answer Int32Type - their partition-key components are serialized with 4 bytes and the routing key is not the row\'s' % [src(x)[:50] for x in cls_writes])
    pk = st.func('BaseCQLStatement.partition_key_values')
    up = st.func('BaseCQLStatement._update_part_key_values')
    chk.judge('parts = [None] * len(field_index_map)' in src(pk) and 'w.operator.__class__ == EqualsOperator' in src(pk) and 'return parts' in src(pk), 'C38.values', pk,
              'parts pre-filled with None; only equality clauses contribute', 'partition_key_values changed')
    chk.judge('parts[field_index_map[clause.field]] = clause.value' in src(up) and 'c.field in field_index_map' in src(up), 'C38.values', up, 'value placed at its key index', 'value placement changed')
    apk = st.func('AssignmentStatement.partition_key_values')
    chk.judge('self._update_part_key_values(field_index_map, self.assignments, parts)' in src(apk) and 'super(AssignmentStatement, self).partition_key_values(field_index_map)' in src(apk), 'C38.values', apk,
              'INSERT/UPDATE also take key values from their assignments', 'assignment contribution changed')
