"""C40 - GraphSON (narrow): registry closure per version, uniqueness of type tags, presence of @value for falsy payloads."""
import ast

from ..core import AnalysisError, src, body_walk, chain
from ..guards import tri_eval, tri_vars, NONE, FALSY, TRUTHY

GS = 'cassandra/datastax/graph/graphson.py'


def check(chk):
    chk.decides = ('for GraphSON 2 and 3: every TypeIO the serializer can select (registry entries and the specialisations they return) that emits a typed value has '
                   'its tag registered in the same version\'s deserializer table; tags "prefix:base" are unique per table; a typed value carries "@value" whenever '
                   'the payload is not None (0, 0.0, "", empty containers included); a TypeIO that changes the representation on the way out converts it back on the way in')
    chk.does_not_decide = 'value round trips (durations with fractions or sign, dates before year 1, float formatting, time zones)'
    chk.rule('C40.closure', 'every typed TypeIO reachable from a version\'s serializer registry is in that version\'s deserializer _TYPES')
    chk.rule('C40.unique', 'graphson_type tags are unique within each deserializer table')
    chk.rule('C40.value', 'GraphSON2Serializer.serialize attaches "@value" for every payload that is not None; the reader looks the tag up and hands "@value" to the TypeIO')
    chk.rule('C40.pair', 'a TypeIO with its own serialize that appears in a deserializer table has its own deserialize')
    chk.rule('C40.duration', 'DurationTypeIO.serialize: the sub-second part (microseconds / 1e6) is added to an integer number of seconds (int-kind dataflow); the text format has no exponent form and the reader accepts what the writer can emit (sign of the day count)')
    m = chk.repo.mod(GS)
    _duration_rule(chk, m)
    chk.rule('C40.lossless', 'date / time / instant text forms are produced by isoformat() without a precision limit')
    _lossless_rule(chk, m)
    classes = dict((q, c) for q, c in m.classes() if '.' not in q)

    def attr(cname, name):
        c = classes.get(cname)
        guard = 0
        while c is not None and guard < 8:
            guard += 1
            for st in c.body:
                if isinstance(st, ast.Assign) and isinstance(st.targets[0], ast.Name) and st.targets[0].id == name and isinstance(st.value, ast.Constant):
                    return st.value.value
            b = [chain(x) for x in c.bases]
            nxt = [x[-1] for x in b if x and x[-1] in classes]
            c = classes.get(nxt[0]) if nxt else None
        return None

    def own(cname, meth):
        c = classes.get(cname)
        return c is not None and any(isinstance(st, ast.FunctionDef) and st.name == meth for st in c.body)

    def tag(cname):
        base = attr(cname, 'graphson_base_type')
        return None if base is None else '%s:%s' % (attr(cname, 'prefix'), base)
    mt = m.func('_GraphSONTypeType.graphson_type')
    chk.judge("'{0}:{1}'.format(cls.prefix, cls.graphson_base_type)" in src(mt), 'C40.unique', mt, 'graphson_type = prefix:base_type', 'tag construction changed')

    # registries
    def names_in(node):
        if isinstance(node, (ast.List, ast.Tuple)):
            return [src(e) for e in node.elts]
        if isinstance(node, ast.BinOp) and isinstance(node.op, ast.Add):
            return names_in(node.left) + names_in(node.right)
        if isinstance(node, ast.Attribute) and node.attr == '_TYPES':
            return types_of(src(node.value))
        raise AnalysisError('unrecognised _TYPES expression: %s' % src(node))

    def types_of(cname):
        c = classes.get(cname)
        for st in c.body:
            if isinstance(st, ast.Assign) and src(st.targets[0]) == '_TYPES':
                return names_in(st.value)
        raise AnalysisError('%s._TYPES not found' % cname)
    ser = {}
    c1 = classes['GraphSON1Serializer']
    lit = [st for st in c1.body if isinstance(st, ast.Assign) and src(st.targets[0]) == '_serializers']
    if not lit or not (isinstance(lit[0].value, ast.Call) and lit[0].value.args and isinstance(lit[0].value.args[0], ast.List)):
        raise AnalysisError('GraphSON1Serializer._serializers literal not recognised')
    ser[1] = dict((src(e.elts[0]), src(e.elts[1])) for e in lit[0].value.args[0].elts)
    regs = {1: [], 2: [], 3: []}
    for st in m.tree.body:
        if isinstance(st, ast.Expr) and isinstance(st.value, ast.Call) and isinstance(st.value.func, ast.Attribute) and st.value.func.attr == 'register':
            who = src(st.value.func.value)
            v = {'GraphSON1Serializer': 1, 'GraphSON2Serializer': 2, 'GraphSON3Serializer': 3}.get(who)
            if v:
                regs[v].append((src(st.value.args[0]), src(st.value.args[1])))
    for k, v in regs[1]:
        ser[1][k] = v
    chk.judge('GraphSON1Serializer.get_type_definitions()' in src(classes['GraphSON2Serializer']) and 'GraphSON2Serializer.get_type_definitions()' in src(classes['GraphSON3Serializer']),
              'C40.closure', classes['GraphSON2Serializer'], 'GraphSON2/3 registries start from the previous version\'s', 'registry inheritance changed')
    # module-level order: a version's table is a snapshot (.copy()) taken when its class body runs; what is registered on the older
    # version afterwards never reaches it
    chk.rule('C40.order', 'every register() on a serializer class runs before the class statement of the next version, which snapshots that table')
    pos = dict((st.name, i) for i, st in enumerate(m.tree.body) if isinstance(st, ast.ClassDef))
    nxt_cls = {'GraphSON1Serializer': 'GraphSON2Serializer', 'GraphSON2Serializer': 'GraphSON3Serializer'}
    late = []
    for i, st in enumerate(m.tree.body):
        if isinstance(st, ast.Expr) and isinstance(st.value, ast.Call) and isinstance(st.value.func, ast.Attribute) and st.value.func.attr == 'register':
            who = src(st.value.func.value)
            if who in nxt_cls and nxt_cls[who] in pos and i > pos[nxt_cls[who]]:
                late.append((st, who))
    for st, who in late:
        chk.viol('C40.order', st, src(st)[:80], 'registered on %s after %s has copied its table: GraphSON %s cannot serialize this python type although GraphSON %s can'
                 % (who, nxt_cls[who], nxt_cls[who][8], who[8]))
    if not late:
        chk.ok('C40.order', m.tree, '%d register() calls precede the next version\'s class statement' % sum(len(v) for v in regs.values()))
    ser[2] = dict(ser[1]); ser[2].update(regs[2])
    ser[3] = dict(ser[2]); ser[3].update(regs[3])
    if len(ser[3]) < 20:
        raise AnalysisError('serializer registry too small (%d)' % len(ser[3]))
    # specialisations returned by get_specialized_serializer
    spec = {}
    for cname, c in classes.items():
        for st in c.body:
            if isinstance(st, ast.FunctionDef) and st.name == 'get_specialized_serializer':
                outs = set()
                for n in body_walk(st):
                    if isinstance(n, ast.Return) and n.value is not None:
                        for x in ast.walk(n.value):
                            if isinstance(x, ast.Name) and x.id in classes:
                                outs.add(x.id)
                spec[cname] = outs
    for ver, dname in ((2, 'GraphSON2Deserializer'), (3, 'GraphSON3Deserializer')):
        types = types_of(dname)
        tags = {}
        for t in types:
            tags.setdefault(tag(t), []).append(t)
        dup = dict((k, v) for k, v in tags.items() if len(v) > 1)
        chk.judge(not dup, 'C40.unique', classes[dname], 'GraphSON%d deserializer tags are unique (%d types)' % (ver, len(types)), 'two TypeIOs share a tag (the later silently wins): %s' % dup)
        reach = set(ser[ver].values())
        for r in list(reach):
            reach |= spec.get(r, set())
        for t in sorted(reach):
            if t not in classes:
                raise AnalysisError('serializer registry names unknown class %s' % t)
            if tag(t) is None:
                chk.ok('C40.closure', classes[t], 'GraphSON%d: %s emits an untyped JSON value' % (ver, t), nontrivial=False)
                continue
            chk.judge(tag(t) in tags, 'C40.closure', classes[t], 'GraphSON%d: %s (%s) can be serialized and is registered for deserialization' % (ver, t, tag(t)),
                      'GraphSON%d serializes values with %s (tag %s) but the deserializer table does not know that tag: the value comes back as a raw {"@type": ...} dict' % (ver, t, tag(t)))
            if own(t, 'serialize') and t in types:
                chk.judge(own(t, 'deserialize') or any(own(b, 'deserialize') for b in _bases(classes, t)), 'C40.pair', classes[t], '%s converts both ways' % t,
                          '%s changes the representation in serialize but inherits the identity deserialize' % t)
    chk.judge("{t.graphson_type: t for t in _TYPES}" in src(classes['GraphSON3Deserializer']) and 't.graphson_type: t' in src(classes['GraphSON2Deserializer']), 'C40.closure', classes['GraphSON3Deserializer'],
              'deserializer tables are keyed by graphson_type over _TYPES', 'deserializer table construction changed')
    # @value guard
    sz = m.func('GraphSON2Serializer.serialize')
    ifs = [n for n in body_walk(sz) if isinstance(n, ast.If) and any('self.VALUE_KEY' in src(x) for x in n.body)]
    if len(ifs) != 1:
        raise AnalysisError('GraphSON2Serializer.serialize: @value guard not found')
    t = ifs[0].test
    vs, op = tri_vars(t)
    res = {}
    for state in (NONE, FALSY, TRUTHY):
        env = dict((v, TRUTHY) for v in vs)
        env['val'] = state
        res[state] = tri_eval(t, env, dict((o, True) for o in op))
    chk.judge(res == {NONE: False, FALSY: True, TRUTHY: True}, 'C40.value', ifs[0], '"@value" attached whenever the payload is not None (guard: %s)' % src(t),
              'guard %s drops "@value" for falsy payloads (0, 0.0, empty blob/list/map): the reader then returns the bare {"@type": ...} dict' % src(t))
    s = src(sz)
    # decided on the paths: what is returned is the bare payload exactly when the TypeIO has no base type, otherwise the {TYPE_KEY: tag} envelope
    from .. import sem as _sem40
    g40, fl40 = _sem40.flow_of(sz)
    env_ok, seen_kinds = True, set()
    for r in [n for n in g40.stmt_nodes() if n.kind == 'return' and n.ast.value is not None]:
        v = src(r.ast.value)
        for fa, _c in fl40.at(r):
            untyped = fa.knows('graphson_base_type is None')
            if v == 'val':
                env_ok = env_ok and untyped is True
                seen_kinds.add('bare')
            elif v == 'out':
                env_ok = env_ok and (untyped is False or 'out = val' in s)
                seen_kinds.add('envelope')
            else:
                env_ok = False
    if 'out = val' in s:
        outs_ = [n for n in g40.stmt_nodes() if n.kind == 'stmt' and src(n.ast) == 'out = val']
        env_ok = env_ok and all(fa.knows('graphson_base_type is None') is True for n in outs_ for fa, _c in fl40.at(n))
        seen_kinds.add('bare')
    envs_ = [n for n in g40.stmt_nodes() if n.kind == 'stmt' and src(n.ast) == 'out = {self.TYPE_KEY: graphson_type}']
    env_ok = env_ok and len(envs_) == 1 and all(fa.knows('graphson_base_type is None') is False for fa, _c in fl40.at(envs_[0]))
    chk.judge(env_ok and seen_kinds == set(['bare', 'envelope']), 'C40.value', sz, 'typed values are {"@type": tag[, "@value": payload]}; untyped TypeIOs emit the bare payload', 'envelope construction changed')
    rd = m.func('GraphSON2Reader.deserialize')
    s = src(rd)
    chk.judge('self.deserializer.get_deserializer(obj[GraphSON2Serializer.TYPE_KEY])' in s.replace('self.TYPE_KEY', 'GraphSON2Serializer.TYPE_KEY') or 'TYPE_KEY' in s, 'C40.value', rd,
              'reader selects the TypeIO by "@type"', 'reader dispatch changed')
    chk.require('C40.closure', 30)
    _registry_rule(chk, m)
    _hashable_rule(chk, m)


def _bases(classes, t):
    out = []
    c = classes.get(t)
    guard = 0
    while c is not None and guard < 8:
        guard += 1
        nxt = [x[-1] for x in [chain(b) for b in c.bases] if x and x[-1] in classes]
        if not nxt or nxt[0] == 'GraphSONTypeIO':
            break
        out.append(nxt[0])
        c = classes.get(nxt[0])
    return out


INT, FLOAT, UNK = 'int', 'float', '?'


def _kind(e, env):
    """numeric kind of an expression over {int, float}"""
    if isinstance(e, ast.Constant):
        return INT if isinstance(e.value, int) and not isinstance(e.value, bool) else FLOAT if isinstance(e.value, float) else UNK
    if isinstance(e, ast.Name):
        return env.get(e.id, UNK)
    if isinstance(e, ast.Attribute):
        if e.attr in ('days', 'seconds', 'microseconds'):
            return INT
        if e.attr.startswith('_seconds_in_'):
            return INT
        return UNK
    if isinstance(e, ast.Call):
        f = src(e.func)
        if f == 'int':
            return INT
        if f == 'float' or f.endswith('.total_seconds'):
            return FLOAT
        if f in ('abs', 'round') and e.args:
            return _kind(e.args[0], env)
        return UNK
    if isinstance(e, ast.BinOp):
        if isinstance(e.op, ast.Div):
            return FLOAT
        a, b = _kind(e.left, env), _kind(e.right, env)
        if FLOAT in (a, b):
            return FLOAT
        return INT if a == b == INT else UNK
    if isinstance(e, ast.UnaryOp):
        return _kind(e.operand, env)
    return UNK


def _duration_rule(chk, mod):
    f = mod.func('DurationTypeIO.serialize')
    env = {}
    found = 0
    for st in f.body:
        if isinstance(st, ast.Assign):
            v = st.value
            t = st.targets[0]
            if isinstance(v, ast.Call) and src(v.func) == 'divmod' and isinstance(t, ast.Tuple) and len(t.elts) == 2:
                k = FLOAT if FLOAT in (_kind(v.args[0], env), _kind(v.args[1], env)) else (INT if _kind(v.args[0], env) == _kind(v.args[1], env) == INT else UNK)
                for e in t.elts:
                    env[src(e)] = k
            elif isinstance(t, ast.Name) and isinstance(v, ast.BinOp) and isinstance(v.op, ast.Add) and 'microseconds' in src(v.right) and isinstance(v.left, ast.Name):
                # the same step spelled with a new name: `seconds = whole + value.microseconds / 1e6`
                found += 1
                k = env.get(v.left.id, UNK)
                chk.judge(k == INT, 'C40.duration', st, '%s is a whole number of seconds when the microseconds are added' % v.left.id,
                          'the fraction of a second is added to `%s`, which already is a %s value derived from total_seconds(): the sub-second part is counted twice (1.25 s is written as 1.5 s)' % (v.left.id, k))
                env[t.id] = FLOAT
            elif isinstance(t, ast.Name):
                env[t.id] = _kind(v, env)
        elif isinstance(st, ast.AugAssign) and isinstance(st.op, ast.Add) and 'microseconds' in src(st.value):
            found += 1
            k = env.get(src(st.target), UNK)
            chk.judge(k == INT, 'C40.duration', st, '%s is a whole number of seconds when the microseconds are added' % src(st.target),
                      'the fraction of a second is added to `%s`, which already is a %s value derived from total_seconds(): the sub-second part is counted twice (1.25 s is written as 1.5 s)' % (src(st.target), k))
            env[src(st.target)] = FLOAT
    if found != 1:
        raise AnalysisError('DurationTypeIO.serialize: the `+= value.microseconds / 1e6` step was not found')
    cls = mod.cls('DurationTypeIO')
    fmt = [st for st in cls.body if isinstance(st, ast.Assign) and src(st.targets[0]) == '_duration_format']
    rx = [st for st in cls.body if isinstance(st, ast.Assign) and src(st.targets[0]) == '_duration_regex']
    ok = False
    if len(fmt) == 1 and isinstance(fmt[0].value, ast.Constant) and isinstance(fmt[0].value.value, str):
        import string
        specs = [spec for _lit, field, spec, _conv in string.Formatter().parse(fmt[0].value.value) if field == 'seconds']
        ok = len(specs) == 1 and specs[0].endswith('f')
    chk.judge(ok, 'C40.duration', fmt[0] if fmt else cls, 'seconds are printed in fixed-point notation (a float below 1e-4 would otherwise print with an exponent the reader rejects)',
              'seconds are printed with the default float format: durations below 100 microseconds become e.g. 1e-06S, which the reader\'s pattern rejects')
    pat = rx[0].value.args[0].value if rx and isinstance(rx[0].value, ast.Call) and rx[0].value.args and isinstance(rx[0].value.args[0], ast.Constant) else ''
    chk.judge('(?P<days>-?' in pat, 'C40.duration', rx[0] if rx else cls, 'the reader accepts a negative day count (timedelta normalises a negative duration to negative days)',
              'the writer emits a negative day count for negative durations but the reader\'s pattern only accepts digits')


def _lossless_rule(chk, m):
    """text forms written by the TypeIO serializers keep the whole value: no precision-limiting argument to isoformat()"""
    n = 0
    for q, f in m.functions():
        if not q.endswith('.serialize'):
            continue
        for c in body_walk(f):
            if isinstance(c, ast.Call) and isinstance(c.func, ast.Attribute) and c.func.attr == 'isoformat':
                n += 1
                kw = [k.arg for k in c.keywords]
                chk.judge('timespec' not in kw and len(c.args) <= 1, 'C40.lossless', c, '%s: %s keeps full (microsecond) precision' % (q, src(c)),
                          'isoformat is given a precision limit (%s): the sub-millisecond part of an instant is dropped on serialization and does not come back' % src(c))
            if isinstance(c, ast.Call) and isinstance(c.func, ast.Attribute) and c.func.attr == 'strftime':
                n += 1
                # only a format with a year field is affected; the format is a class constant (cls.FORMAT / cls.FORMATS[k])
                fmt_txt = src(c.args[0]) if c.args else ''
                cn = q.split('.')[0]
                consts_ = ' '.join(src(st.value) for st in m.cls(cn).body if isinstance(st, ast.Assign) and any(src(t).split('[')[0] in fmt_txt for t in st.targets)) \
                    if m.has(cn) else ''
                if isinstance(c.args[0] if c.args else None, ast.Constant):
                    consts_ = fmt_txt
                if '%Y' not in consts_:
                    chk.ok('C40.lossless', c, '%s: %s has no year field' % (q, src(c)), nontrivial=False)
                    continue
                chk.viol('C40.lossless', c, '%s: %s' % (q, src(c)), 'the text form is produced by strftime: the C library does not zero-pad %Y, so a date before year 1000 is written '
                         'as e.g. 999-12-31, which the reader (strptime with the same format) rejects and hands back as a raw string')
    if n < 2:
        raise AnalysisError('C40.lossless: date / time formatting calls in the TypeIO serializers not found (%d)' % n)


def _registry_rule(chk, mod):
    """each GraphSON protocol level has its own table of TypeIOs: a subclass starts from a copy of its parent's table"""
    chk.rule('C40.registry', 'get_type_definitions returns a copy of the class\'s serializer table (every serializer class then registers into its own dict)')
    f = mod.func('_BaseGraphSONSerializer.get_type_definitions')
    rets = [r for r in body_walk(f) if isinstance(r, ast.Return) and r.value is not None]
    def fresh(v):
        return (isinstance(v, ast.Call) and isinstance(v.func, ast.Attribute) and v.func.attr == 'copy' and src(v.func.value) == 'cls._serializers') or \
            (isinstance(v, ast.Call) and isinstance(v.func, ast.Name) and v.func.id in ('dict', 'OrderedDict') and v.args and src(v.args[0]) == 'cls._serializers') or \
            isinstance(v, ast.DictComp)
    chk.judge(bool(rets) and all(fresh(r.value) for r in rets), 'C40.registry', f, 'get_type_definitions -> cls._serializers.copy()',
              'the table itself is handed out (%s): the GraphSON 1, 2 and 3 serializers then share one dict, and a later register() for one level (GraphSON3: dict -> MapTypeIO) '
              'replaces the TypeIO of the others - GraphSON 2 starts writing g:Map, which its own reader does not know' % [src(r.value) for r in rets])
    users = [c for q, fn in mod.functions() for c in body_walk(fn) if isinstance(c, ast.Call) and isinstance(c.func, ast.Attribute) and c.func.attr == 'get_type_definitions']
    cls_users = [st for cls in mod.tree.body if isinstance(cls, ast.ClassDef) for st in cls.body if isinstance(st, ast.Assign) and 'get_type_definitions()' in src(st.value)]
    if len(users) + len(cls_users) < 1:
        raise AnalysisError('C40.registry: no user of get_type_definitions found')


def _hashable_rule(chk, mod):
    """g:Set members and g:Map keys are put into a Python set / dict by the reader: a TypeIO whose deserialize returns an unhashable object
    (bytearray(...), a list, dict or set display / call) cannot come back inside them"""
    chk.rule('C40.hashable', 'what a TypeIO.deserialize returns can be a member of the set / a key of the dict that SetTypeIO / MapTypeIO build (no bytearray, list, dict, set), '
                             'or those readers guard the construction')
    unhash = []
    for cls in mod.tree.body:
        if not (isinstance(cls, ast.ClassDef) and cls.name.endswith('TypeIO') and cls.name not in ('SetTypeIO', 'MapTypeIO', 'ListTypeIO', 'JsonMapTypeIO')):
            continue
        # value types only: the TypeIOs that name a CQL type (graph structure readers - properties, paths - are not written by the serializer)
        if not any(isinstance(st, ast.Assign) and src(st.targets[0]) == 'cql_type' for st in cls.body):
            continue
        for fn in cls.body:
            if isinstance(fn, ast.FunctionDef) and fn.name == 'deserialize':
                for r in body_walk(fn):
                    if isinstance(r, ast.Return) and r.value is not None:
                        v = r.value
                        if (isinstance(v, ast.Call) and isinstance(v.func, ast.Name) and v.func.id in ('bytearray', 'list', 'dict', 'set')) or isinstance(v, (ast.List, ast.Dict, ast.Set, ast.ListComp, ast.DictComp, ast.SetComp)):
                            unhash.append((cls.name, src(v)[:50]))
    st_ = mod.func('SetTypeIO.deserialize')
    mp_ = mod.func('MapTypeIO.deserialize')
    guarded = all(any(isinstance(t, ast.Try) and any(h.type is None or 'TypeError' in src(h.type) for h in t.handlers) for t in body_walk(f_)) for f_ in (st_, mp_))
    scalar_unhash = [u for u in unhash if u[0] not in ('TupleTypeIO', 'UserTypeIO', 'PathTypeIO')]
    chk.judge(not scalar_unhash or guarded, 'C40.hashable', st_, 'scalar TypeIOs return hashable values (or set / map construction is guarded)',
              '%s deserialize to an unhashable object while SetTypeIO.deserialize builds set(...) and MapTypeIO.deserialize uses the decoded key as a dict key: a set of such values, or a map '
              'keyed by them, is written by the serializer and raises TypeError when it is read back' % sorted(set(u[0] for u in scalar_unhash)))
