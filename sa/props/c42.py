"""C42 - node-list refreshes make cluster metadata mirror the system tables (structure)."""
import ast
import itertools

from ..core import AnalysisError, src, body_walk, walk_no_nested, parent
from .. import sem as _sem
from ..cfg import CFG, Flow
from ..locks import holds
from ..guards import tri_eval, tri_vars, NONE, FALSY, TRUTHY

CLUSTER = 'cassandra/cluster.py'
META = 'cassandra/metadata.py'


def unconditional(call, stmt):
    """is `call` evaluated whenever `stmt` runs (not the lazy operand of and/or/if-else/comprehension)?"""
    n = call
    p = parent(n)
    while p is not None and p is not stmt:
        if isinstance(p, ast.BoolOp) and p.values[0] is not n:
            return False
        if isinstance(p, ast.IfExp) and n is not p.test:
            return False
        if isinstance(p, (ast.ListComp, ast.GeneratorExp, ast.SetComp, ast.DictComp, ast.Lambda)):
            return False
        n, p = p, parent(p)
    return True


def check(chk):
    chk.decides = ('a peer row is used only if address, host id, datacenter and rack are all present (and tokens, when that column exists); invalid rows and rows '
                   'repeating an endpoint are skipped before any use; an unknown endpoint is announced once through add_host(signal=True); a known host has its '
                   'location compared on every refresh (the comparison call is not short-circuited away) and a change reaches the policies bracketed by '
                   'on_down/on_up; every known host absent from the rows is removed; the rebuild flag is raised on each of the three kinds of change and guards '
                   'the token-map rebuild; metadata add/remove are test-and-set under the hosts lock and listeners hear only real changes')
    chk.does_not_decide = 'sequences of snapshots; that token changes without membership change trigger a rebuild (they do not set the flag today)'
    chk.rule('C42.valid', '_is_valid_peer: true iff every required field is present (truthy), over all presence combinations')
    chk.rule('C42.skip', 'invalid and duplicate rows `continue` before the row is used')
    chk.rule('C42.change', 'new host -> add_host(..., signal=True, refresh_nodes=False) and flag; existing host -> _update_location_info evaluated unconditionally and or-ed into the flag; vanished host -> remove_host and flag')
    chk.rule('C42.endpoint', 'a peer row is identified by its own address and port: the factory falls back to the configured port only when the row has none')
    chk.rule('C42.rebuild', 'rebuild_token_map(partitioner, token_map) exactly under `partitioner and should_rebuild_token_map`')
    chk.rule('C42.live', '_update_location_info calls profile_manager.on_up only for a host that is not marked down (host.is_up is not False)')
    chk.rule('C42.location', '_update_location_info: unchanged -> False; changed -> profile_manager.on_down, set_location_info, profile_manager.on_up, True')
    chk.rule('C42.atomic', 'Metadata.add_or_return_host / remove_host are test-and-set under _hosts_lock; Cluster.add_host / remove_host signal only on change')
    cl = chk.repo.mod(CLUSTER)
    vp = cl.func('ControlConnection._is_valid_peer')
    # the predicate is interpreted for every presence combination of the six things a row can have (guard clauses, loops over column names and a
    # single boolean expression all come out the same)
    from ..absint import Interp as _I42
    names42 = ('address', 'host_id', 'data_center', 'rack', 'tokens', 'tokens column exists')
    bad, n_combo = [], 0
    for combo in itertools.product((False, True), repeat=6):
        pres = dict(zip(names42, combo))
        if pres['tokens'] and not pres['tokens column exists']:
            continue
        row = {}
        for k_ in ('host_id', 'data_center', 'rack'):
            row[k_] = 'x' if pres[k_] else None
        if pres['tokens column exists']:
            row['tokens'] = ('1',) if pres['tokens'] else None
        used = set()

        def effect(interp, node, c, args, kwargs, env, row=row, pres=pres, used=used):
            if c == ('row', 'get') and args and isinstance(args[0], str):
                used.add(args[0])
                return row.get(args[0], args[1] if len(args) > 1 else None)
            if c == ('_NodeInfo', 'get_broadcast_rpc_address'):
                used.add('address')
                return '10.0.0.1' if pres['address'] else None
            return NotImplemented
        it42 = _I42(cl, effect=effect)
        try:
            outs42 = it42.run_all(vp, {'row': row})
        except Exception as e42:
            raise AnalysisError('_is_valid_peer could not be interpreted: %s' % e42)
        n_combo += 1
        want = all(pres[a] for a in ('address', 'host_id', 'data_center', 'rack')) and (not pres['tokens column exists'] or pres['tokens'])
        for o in outs42:
            if o.kind != 'ok' or isinstance(o.value, (type(None),)) and want or bool(o.value) != want or not isinstance(o.value, bool):
                bad.append((dict(pres), o.value))
    atoms = names42
    chk.judge(not bad, 'C42.valid', vp, '_is_valid_peer interpreted over %d presence combinations; the result is a bool' % n_combo, 'a row is accepted/rejected wrongly for %s' % bad[:2])

    rf = cl.func('ControlConnection._refresh_node_list_and_token_map')
    loops = [n for n in rf.body if isinstance(n, ast.For) and src(n.iter) == 'peers_result']
    if len(loops) != 1:
        raise AnalysisError('_refresh_node_list_and_token_map: peer loop not found')
    lp = loops[0]
    first = lp.body[0]
    good = isinstance(first, ast.If) and src(first.test) == 'not self._is_valid_peer(row)' and isinstance(first.body[-1], ast.Continue)
    chk.judge(good, 'C42.skip', lp, 'invalid row -> continue, first thing in the loop', 'an invalid peer row is used before it is validated')
    dup = [n for n in lp.body if isinstance(n, ast.If) and src(n.test) == 'endpoint in found_hosts']
    chk.judge(len(dup) == 1 and isinstance(dup[0].body[-1], ast.Continue), 'C42.skip', lp, 'repeated endpoint -> continue', 'duplicate rows are processed twice')
    idx = dict((id(st), i) for i, st in enumerate(lp.body))
    adds = [st for st in lp.body if src(st) == 'found_hosts.add(endpoint)']
    chk.judge(len(adds) == 1 and dup and idx[id(dup[0])] < idx[id(adds[0])] and all(idx[id(st)] > idx[id(adds[0])] for st in lp.body if 'get_host(endpoint)' in src(st)), 'C42.skip', lp,
              'endpoint recorded after the duplicate test and before the host is looked up', 'ordering of duplicate test / recording changed')
    # new vs existing
    br = [n for n in lp.body if isinstance(n, ast.If) and src(n.test) == 'host is None']
    if len(br) != 1:
        raise AnalysisError('peer loop: `if host is None` not found')
    new_arm, old_arm = br[0].body, br[0].orelse
    ah = [x for st in new_arm for x in ast.walk(st) if isinstance(x, ast.Call) and src(x.func) == 'self._cluster.add_host']
    good = len(ah) == 1 and [src(a) for a in ah[0].args] == ['endpoint', 'datacenter', 'rack'] and dict((k.arg, src(k.value)) for k in ah[0].keywords) == {'signal': 'True', 'refresh_nodes': 'False'}
    chk.judge(good and any(src(st) == 'should_rebuild_token_map = True' for st in new_arm), 'C42.change', br[0], 'unknown endpoint: add_host(endpoint, dc, rack, signal=True, refresh_nodes=False) and flag',
              'new hosts are not announced / do not raise the rebuild flag')
    ul = [(st, x) for st in old_arm for x in ast.walk(st) if isinstance(x, ast.Call) and src(x.func) == 'self._update_location_info']
    good = len(ul) == 1 and [src(a) for a in ul[0][1].args] == ['host', 'datacenter', 'rack'] and unconditional(ul[0][1], ul[0][0])
    st0 = ul[0][0] if ul else None
    flagged = st0 is not None and ((isinstance(st0, ast.AugAssign) and src(st0.target) == 'should_rebuild_token_map' and isinstance(st0.op, ast.BitOr)) or
                                   (isinstance(st0, ast.Assign) and src(st0.targets[0]) == 'should_rebuild_token_map' and isinstance(st0.value, ast.BoolOp)
                                    and isinstance(st0.value.op, ast.Or) and src(st0.value.values[-1]) == 'should_rebuild_token_map') or
                                   (isinstance(st0, ast.If) and any(src(x) == 'should_rebuild_token_map = True' for x in st0.body)))
    chk.judge(good and flagged, 'C42.change', br[0], 'known host: _update_location_info(host, dc, rack) evaluated on every refresh, result or-ed into the flag',
              'the location comparison is the lazy operand of a short-circuit expression (or missing): once the flag is set a datacenter/rack change of a later row never reaches the Host or the load-balancing policies')
    # the flag only ever goes up while the rows are walked: a plain assignment of a computed value inside a loop would forget what an earlier row raised
    for lp_ in [n for n in body_walk(rf) if isinstance(n, (ast.For, ast.While))]:
        for w in ast.walk(lp_):
            if isinstance(w, ast.Assign) and any(src(t) == 'should_rebuild_token_map' for t in w.targets):
                v = w.value
                mono = (isinstance(v, ast.Constant) and v.value is True) or \
                    (isinstance(v, ast.BoolOp) and isinstance(v.op, ast.Or) and any(src(x) == 'should_rebuild_token_map' for x in v.values)) or \
                    (isinstance(v, ast.BinOp) and isinstance(v.op, ast.BitOr) and any(src(x) == 'should_rebuild_token_map' for x in (v.left, v.right)))
                chk.judge(mono, 'C42.change', w, 'inside the row loop the rebuild flag is only raised (%s)' % src(w)[:60],
                          'the flag is overwritten with the result for this row: an unchanged row that follows a new host (or a forced rebuild) clears the request and the token map stays stale')
    rm = [n for n in rf.body if isinstance(n, ast.For) and 'all_hosts()' in src(n.iter)]
    good = len(rm) == 1
    if good:
        s = src(rm[0])
        good = 'old_host.endpoint not in found_hosts' in s and 'self._cluster.remove_host(old_host)' in s
    if good:
        # a removal always leads to a rebuild (when a partitioner is known): no path from remove_host(...) leaves the function without rebuild_token_map(...)
        g_rm = CFG(rf)

        def _st(n, c):
            removed, rebuilt = c
            if n.kind == 'stmt' and n.ast is not None:
                t_ = src(n.ast)
                if 'self._cluster.remove_host(old_host)' in t_:
                    removed = True
                if 'rebuild_token_map(' in t_:
                    rebuilt = True
            return (removed, rebuilt)
        fl_rm = Flow(g_rm, (False, False), _st)
        for fa, c in fl_rm.at(g_rm.exit):
            if c[0] and not c[1] and fa.knows('partitioner') is not False:
                good = False
    chk.judge(good, 'C42.change', rf, 'known host absent from the rows: remove_host and flag', 'vanished hosts are not removed / do not raise the flag')
    chk.judge(src(rf).index('for row in peers_result') < src(rf).index('all_hosts()'), 'C42.change', rf, 'removal pass runs after every row was seen', 'removal pass order changed')
    g = CFG(rf)
    fl = Flow(g, 0, lambda n, c: c)
    rb = [n for n in g.stmt_nodes() if n.kind == 'stmt' and 'rebuild_token_map(' in src(n.ast)]
    ok = len(rb) == 1 and 'self._cluster.metadata.rebuild_token_map(partitioner, token_map)' in src(rb[0].ast) and all(fa.knows('partitioner') is True and fa.knows('should_rebuild_token_map') is True for fa, _ in fl.at(rb[0]))
    chk.judge(ok, 'C42.rebuild', rf, 'token map rebuilt exactly when a partitioner is known and the flag is set', 'rebuild guard changed')
    init = [st for st in rf.body if isinstance(st, ast.Assign) and src(st.targets[0]) == 'should_rebuild_token_map']
    chk.judge(len(init) == 1 and src(init[0].value) == 'force_token_rebuild or self._cluster.metadata.partitioner is None', 'C42.rebuild', rf, 'flag starts as forced / nothing built yet', 'initial flag changed')
    # tokens: with unchanged membership the tokens collected from the rows still decide - some contribution to the flag, made after every row
    # was read, is computed from the collected {host: tokens}; it can only raise the flag
    chk.rule('C42.tokens', 'after the row loop the rebuild flag also depends on the collected token_map (a comparison with the tokens the current map was built from) and is only raised by it')
    loops_ = [n for n in g.stmt_nodes() if n.kind == 'for_iter' and src(n.ast.iter) == 'peers_result']
    if len(loops_) != 1 or len(rb) != 1:
        raise AnalysisError('_refresh_node_list_and_token_map: peers loop / rebuild call not recognised')
    contrib = []
    for n in g.stmt_nodes():
        if n.kind == 'stmt' and isinstance(n.ast, (ast.Assign, ast.AugAssign)):
            tg = n.ast.targets if isinstance(n.ast, ast.Assign) else [n.ast.target]
            if any(src(t) == 'should_rebuild_token_map' for t in tg) and any(isinstance(x, ast.Name) and x.id == 'token_map' for x in ast.walk(n.ast.value)):
                contrib.append(n)
    in_loop = set(id(x) for x in ast.walk(loops_[0].ast))
    after = [n for n in contrib if id(n.ast) not in in_loop and n.ast.lineno > loops_[0].ast.end_lineno and g.dominates(loops_[0], n)]
    chk.judge(bool(after), 'C42.tokens', rf, 'the collected tokens are compared with the current token map after the last row (%s)' % [src(n.ast)[:90] for n in after],
              'no contribution to the rebuild flag reads the collected tokens: when a known node now owns other tokens (same hosts, same datacenters) the refresh keeps the old token map, '
              'get_replicas answers from the old ring and token-aware routing sends statements to nodes that no longer own the row')
    for n in after:
        v = n.ast.value
        raise_only = isinstance(n.ast, ast.AugAssign) and isinstance(n.ast.op, ast.BitOr) or \
            (isinstance(v, ast.BoolOp) and isinstance(v.op, ast.Or) and any(src(x) == 'should_rebuild_token_map' for x in v.values)) or \
            all(fa.knows('should_rebuild_token_map') is False for fa, _c in fl.at(n))
        chk.judge(raise_only, 'C42.tokens', n.ast, 'the token comparison only raises the flag (%s)' % src(n.ast)[:80],
                  'the comparison overwrites a flag that a new / removed / relocated host has raised: with unchanged tokens the rebuild for the membership change is skipped')
    td = chk.repo.mod(META).func('Metadata.token_ownership_differs')
    gt, flt = _sem.flow_of(td)
    for r in [n for n in gt.stmt_nodes() if n.kind == 'return']:
        v = _sem.resolve(td, r.ast.value) if r.ast.value is not None else None
        none_arm = all(fa.knows('current is None') is True or fa.knows('self.token_map is None') is True for fa, _c in flt.at(r))
        if none_arm:
            okr = isinstance(v, ast.Constant) and v.value is True
            label = 'nothing built yet -> differs'
        else:
            okr = isinstance(v, ast.Compare) and len(v.ops) == 1 and isinstance(v.ops[0], ast.NotEq) and any('token_to_host_owner' in src(x) for x in (v.left, v.comparators[0]))
            label = 'built map: the {token: host} owners computed from the rows != token_to_host_owner'
        chk.judge(okr, 'C42.tokens', r.ast, 'token_ownership_differs: ' + label, 'the comparison no longer compares token ownership (%s)' % (src(r.ast)[:80]))
    tm_ = [n for n in g.stmt_nodes() if n.kind == 'stmt' and isinstance(n.ast, ast.Assign) and src(n.ast.targets[0]) == 'token_map[host]' and any(x is n.ast for x in ast.walk(lp))]
    okt = len(tm_) == 1
    if okt:
        val = n_ = tm_[0]
        vname = src(tm_[0].ast.value)
        defs_ = [x for x in ast.walk(lp) if isinstance(x, ast.Assign) and src(x.targets[0]) == vname]
        for _i in range(3):     # a copy of a copy inside the loop body: follow it to the row access
            if len(defs_) == 1 and isinstance(defs_[0].value, ast.Name):
                defs_ = [x for x in ast.walk(lp) if isinstance(x, ast.Assign) and src(x.targets[0]) == defs_[0].value.id]
        okt = len(defs_) == 1 and src(_sem.resolve(rf, defs_[0].value)) in ("row.get('tokens', None)", "row.get('tokens')") and \
            all(fa.knows('partitioner') is True and fa.knows(vname) is True and fa.knows('self._token_meta_enabled') is True for fa, _c in fl.at(tm_[0])) and bool(list(fl.at(tm_[0])))
    chk.judge(okt, 'C42.rebuild', lp, 'peer tokens collected per host when a partitioner is known, the row has tokens and token metadata is enabled', 'token collection changed')
    # removal: a known host is dropped exactly when its endpoint is not among the endpoints found; nothing in the guard may identify hosts by IP address alone
    chk.rule('C42.removal', 'the guard of remove_host(old_host) is `old_host.endpoint not in found_hosts`; any further conjunct compares whole endpoints, never bare addresses of two hosts')
    rms = [n for n in ast.walk(rf) if isinstance(n, ast.If) and any(isinstance(x, ast.Call) and src(x.func) == 'self._cluster.remove_host' for st_ in n.body for x in ast.walk(st_))]
    if not rms:
        raise AnalysisError('_refresh_node_list_and_token_map: guard of remove_host not found')
    from ..core import parent as _par42
    atoms_ = []
    g_ = rms[0]
    while isinstance(g_, ast.If):
        t_ = g_.test
        atoms_ += list(t_.values) if isinstance(t_, ast.BoolOp) and isinstance(t_.op, ast.And) else [t_]
        g_ = _par42(g_)
    has_member = any(src(a_) == 'old_host.endpoint not in found_hosts' for a_ in atoms_)
    by_addr = [src(a_) for a_ in atoms_ if isinstance(a_, ast.Compare) and len(a_.ops) == 1 and src(a_.left).endswith('.address') and src(a_.comparators[0]).endswith('.address')]
    chk.judge(has_member and not by_addr, 'C42.removal', rms[0], 'a host is removed when its endpoint is not among those found (%s)' % ' and '.join(src(a_) for a_ in atoms_)[:120],
              'the removal guard compares bare addresses (%s): a node that shares the control node\'s IP on another port (peers_v2, port-mapped or local clusters) is never removed when it '
              'leaves the ring - it stays in the metadata and the policies and is not announced again when it returns' % by_addr if by_addr else 'the removal guard no longer tests membership in found_hosts')
    # location
    ul_ = cl.func('ControlConnection._update_location_info')
    pass
    gu, flu = _sem.flow_of(ul_)

    def _calls(text):
        return [n for n in gu.stmt_nodes() if n.kind == 'stmt' and isinstance(n.ast, ast.Expr) and src(n.ast.value) == text]
    dn, sl, up = _calls('self._cluster.profile_manager.on_down(host)'), _calls('host.set_location_info(datacenter, rack)'), _calls('self._cluster.profile_manager.on_up(host)')
    if len(dn) != 1 or len(sl) != 1 or len(up) != 1:
        raise AnalysisError('_update_location_info: on_down / set_location_info / on_up statements not recognised (%d/%d/%d)' % (len(dn), len(sl), len(up)))
    unchanged = 'host.datacenter == datacenter and host.rack == rack'
    # stage along a path: nothing yet -> on_down -> set_location_info -> on_up; what each return reports is read per path (a literal, or a local whose value the facts know)
    from ..cfg import Flow as _Flow42

    def _stage(n, c):
        if n is dn[0]:
            return 'down' if c == 'start' else 'bad'
        if n is sl[0]:
            return 'set' if c == 'down' else 'bad'
        if n is up[0]:
            return 'up' if c == 'set' else 'bad'
        return c
    fs_ = _Flow42(gu, 'start', _stage)
    rets = [n for n in gu.stmt_nodes() if n.kind == 'return']
    good, order_ok = bool(rets), True
    for n in rets:
        for fa, stg in fs_.at(n):
            v = n.ast.value
            truth = v.value if isinstance(v, ast.Constant) and isinstance(v.value, bool) else (fa.value(src(v)) if v is not None else None)
            same = fa.value(unchanged)
            if truth is False:
                good = good and same is True and stg == 'start'
            elif truth is True:
                good = good and same is False
                order_ok = order_ok and stg in ('set', 'up')
            else:
                good = False
    for n in dn + sl:
        good = good and bool(list(fs_.at(n))) and all(fa.value(unchanged) is False for fa, _c in fs_.at(n))
    order_ok = order_ok and all(c_ != 'bad' for n in rets + dn + sl + up for _f, c_ in fs_.at(n))
    chk.judge(bool(good) and order_ok, 'C42.location', ul_, 'unchanged -> False; changed -> on_down, set_location_info, on_up, True',
              '_update_location_info changed: %s' % [src(x) for x in ul_.body][-4:])
    # a host that is marked down is not handed back to the policies as live by a location change
    live_only = bool(list(flu.at(up[0]))) and all(fa.knows('host.is_up is False') is False for fa, _c in flu.at(up[0]))
    chk.judge(live_only, 'C42.live', up[0].ast, 'profile_manager.on_up(host) after a location change only when the host is not marked down',
              'a datacenter / rack change reported for a node that is down calls on_up unconditionally: every policy files the down host as live again and plans contain it until the next down event')
    # "newly seen hosts are announced once": the refresh hands a new host to Cluster.add_host -> on_add, whose completion logic decides how often listeners hear of it
    chk.rule('C42.announce', 'Cluster.on_add finalises a new host exactly once (callbacks attached after the set of pool futures is complete; direct completion guarded by a flag)')
    chk.borrow('C25', {'C25.register': 'C42.announce'}, 'a host found by a node-list refresh is announced to the listeners twice')
    # atomic
    meta = chk.repo.mod(META)
    ar = meta.func('Metadata.add_or_return_host')
    w = [st for st in ar.body if isinstance(st, ast.With)]
    good = len(w) == 1 and src(w[0].items[0].context_expr) == 'self._hosts_lock'
    if good:
        # inside the one locked region: the lookup, the insertion and both returns (temporaries followed one step)
        region = w[0]
        inside = set(id(x) for x in ast.walk(region))
        looks = [x for x in ast.walk(region) if isinstance(x, ast.Subscript) and src(x) == 'self._hosts[host.endpoint]' and isinstance(x.ctx, ast.Load)]
        ins = [st for st in ast.walk(region) if isinstance(st, ast.Assign) and src(st.targets[0]) == 'self._hosts[host.endpoint]' and src(st.value) == 'host']
        rets_ = [r for r in body_walk(ar) if isinstance(r, ast.Return)]
        kinds = set()
        for r in rets_:
            v = r.value
            if not (isinstance(v, ast.Tuple) and len(v.elts) == 2 and isinstance(v.elts[1], ast.Constant) and isinstance(v.elts[1].value, bool)):
                kinds.add('other')
                continue
            first = v.elts[0]
            if isinstance(first, ast.Name) and first.id != 'host':
                ds = [st for st in ast.walk(region) if isinstance(st, ast.Assign) and len(st.targets) == 1 and src(st.targets[0]) == first.id]
                first = ds[0].value if len(ds) == 1 else first
            if src(first) == 'self._hosts[host.endpoint]' and v.elts[1].value is False:
                kinds.add('known')
            elif src(first) == 'host' and v.elts[1].value is True:
                kinds.add('new')
            else:
                kinds.add('other')
            if id(r) not in inside:
                # a return after the region is fine only if it hands on what was read inside it
                if not (isinstance(v.elts[0], ast.Name) and v.elts[0].id != 'host'):
                    kinds.add('other')
        good = len(looks) == 1 and len(ins) == 1 and kinds == set(['known', 'new'])
    chk.judge(good, 'C42.atomic', ar, 'add_or_return_host: lookup-or-insert under _hosts_lock, reports whether it inserted', 'add_or_return_host is no longer an atomic test-and-set')
    rh = meta.func('Metadata.remove_host')
    good = 'with self._hosts_lock' in src(rh) and 'return bool(self._hosts.pop(host.endpoint, False))' in src(rh)
    chk.judge(good, 'C42.atomic', rh, 'remove_host: pop under _hosts_lock, reports whether it removed', 'remove_host is no longer an atomic test-and-clear')
    # endpoint of a row: the port the row advertises wins over the cluster-wide default (two nodes behind one address differ only by port)
    cm_ = chk.repo.mod('cassandra/connection.py')
    cr = cm_.func('DefaultEndPointFactory.create')
    gcr = CFG(cr)
    flcr = Flow(gcr, 0, lambda n, c: c)
    pas = [n for n in gcr.stmt_nodes() if n.kind == 'stmt' and isinstance(n.ast, ast.Assign) and any(src(t) == 'port' for t in n.ast.targets)]
    if not pas:
        raise AnalysisError('DefaultEndPointFactory.create: port assignment not found')
    row_first = [n for n in pas if src(n.ast.value) == '_NodeInfo.get_broadcast_rpc_port(row)']
    others = [n for n in pas if n not in row_first]
    ok_ = len(row_first) == 1 and all(fa.knows('port is None') is True for n in others for fa, _c in flcr.at(n)) and \
        not any(isinstance(x, ast.Name) and x.id == 'port' for n in others[:0] for x in ())
    # the row value is taken unconditionally (no earlier assignment can pre-empt it)
    ok_ = ok_ and all(not any(fa.knows('port is None') is not None for fa, _c in flcr.at(n)) or True for n in row_first)
    pre = [n for n in others if n.line() < row_first[0].line()] if row_first else others
    chk.judge(ok_ and not pre, 'C42.endpoint', cr, 'create(): port = the row\'s native/rpc port; self.port / 9042 only when the row has none',
              'the configured port takes precedence over the port in the peer row (%s): with system.peers_v2 two nodes sharing an address collapse into one endpoint, so a '
              'valid row is dropped as a duplicate and a vanished node is never removed' % [src(n.ast) for n in pas])
    cah = cl.func('Cluster.add_host')
    chk.judge('if new and signal' in src(cah) and 'self.on_add(host, refresh_nodes)' in src(cah), 'C42.atomic', cah, 'Cluster.add_host announces only a host that is new', 'known hosts are announced again')
    crh = cl.func('Cluster.remove_host')
    chk.judge('if host and self.metadata.remove_host(host)' in src(crh) and 'self.on_remove(host)' in src(crh), 'C42.atomic', crh, 'Cluster.remove_host signals only when the host was present', 'removal signalled for unknown hosts')
