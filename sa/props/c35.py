"""C35 - cqlengine persistence (narrow): key-selection flags, name-kind agreement, deletion predicate."""
import ast

from ..core import AnalysisError, src, body_walk, walk_no_nested, qual_of, parent
from ..cfg import CFG, Flow
from ..guards import tri_eval

Q = 'cassandra/cqlengine/query.py'
COLS = 'cassandra/cqlengine/columns.py'


def check(chk):
    chk.decides = ('the "static only" flags that decide whether clustering keys go into WHERE are and-accumulated on every arm (a non-static column on any arm '
                   'forces the full primary key); every field name handed to a statement or compared with a condition\'s field is the database field name; '
                   'the null-column deletion runs unless only static columns were saved; a value counts as deleted when it is null and was explicitly set or '
                   'previously non-null; key columns selected for WHERE: partition keys when static-only, all primary keys otherwise')
    chk.does_not_decide = 'that the emitted CQL, under Cassandra\'s semantics, leaves the row equal to the instance (needs a CQL interpreter)'
    chk.rule('C35.static', 'static_only / static_changed_only are updated with `and` semantics on every arm and select partition keys vs primary keys')
    chk.rule('C35.names', 'names given to DeleteStatement/add_field/updated_columns/nulled_columns and compared with condition.field are db_field_name')
    chk.rule('C35.deleted', 'ValueManager.deleted: null now and (explicitly set or previously non-null)')
    chk.rule('C35.flow', 'save(): insert unless empty, then delete nulled columns unless static-only; update(): delete nulled columns unless the clustering key is null')
    chk.rule('C35.renumber', 'statements renumbered for a batch give every clause its own placeholder ids (update_context_id advances by each clause size)')
    chk.rule('C35.snapshot', 'previous_value is a snapshot: it is assigned None, a number, or a copy (deepcopy / copy) of the current value - never the live value object itself, or in-place edits of collections compare equal and are not written')
    q = chk.repo.mod(Q)
    cols = chk.repo.mod(COLS)
    _snapshot_rule(chk, cols)
    dn = q.func('DMLQuery._delete_null_columns')
    upd = [n for n in body_walk(dn) if isinstance(n, (ast.AugAssign, ast.Assign)) and src(n.targets[0] if isinstance(n, ast.Assign) else n.target) == 'static_only']
    inits = [n for n in upd if isinstance(n, ast.Assign)]
    augs = [n for n in upd if isinstance(n, ast.AugAssign)]
    chk.judge(len(inits) == 1 and src(inits[0].value) == 'True', 'C35.static', dn, 'static_only starts True', 'static_only initial value changed')
    if len(augs) < 1:
        raise AnalysisError('_delete_null_columns: static_only updates not found')
    # every column added to the DELETE takes part in the flag: between ds.add_field(...) and the next iteration the flag is and-ed with col.static
    gdn = CFG(dn)
    adds_ = [n for n in gdn.stmt_nodes() if n.kind == 'stmt' and any(isinstance(c, ast.Call) and src(c.func) == 'ds.add_field' for c in ast.walk(n.ast))]
    if not adds_:
        raise AnalysisError('_delete_null_columns: ds.add_field not found')
    for a_ in adds_:
        seen_, work_, escaped = set(), [x for x, l_ in a_.succ if not (l_ and l_[0] == 'exc')], False
        while work_:
            n_ = work_.pop()
            if n_.id in seen_:
                continue
            seen_.add(n_.id)
            if n_.kind == 'stmt' and n_.ast in augs:
                continue
            if n_.kind in ('for_iter', 'exit'):
                escaped = True
                break
            work_.extend(x for x, l_ in n_.succ if not (l_ and l_[0] == 'exc'))
        chk.judge(not escaped, 'C35.static', a_.ast, '%s is followed by static_only &= col.static' % src(a_.ast).strip()[:50],
                  'a column is added to the DELETE on an arm that does not update static_only: a non-static column deleted there leaves the flag True and the clustering key out of WHERE')
    for a in augs:
        chk.judge(isinstance(a.op, ast.BitAnd) and src(a.value) == 'col.static', 'C35.static', a, '%s: static_only &= col.static' % src(a),
                  'this arm updates the flag with %s: after a non-static column was seen the flag can turn True again, so the DELETE is restricted by the partition key only and '
                  'omits the clustering key' % type(a.op).__name__)
    keysel = [n for n in body_walk(dn) if isinstance(n, ast.IfExp) and 'static_only' in src(n.test)]
    chk.judge(len(keysel) == 1 and src(keysel[0].body) == 'self.model._partition_keys' and src(keysel[0].orelse) == 'self.model._primary_keys', 'C35.static', dn,
              'WHERE keys: partition keys if static_only else all primary keys', 'key selection changed')
    up = q.func('DMLQuery.update')
    su = src(up)
    _update_flags(chk, up)
    # names
    for n in body_walk(dn):
        if isinstance(n, ast.Call) and src(n.func) == 'ds.add_field' and n.args:
            a = n.args[0]
            chk.judge(src(a) in ('col.db_field_name', 'uc'), 'C35.names', n, '_delete_null_columns: add_field(%s)' % src(a), 'deleted column named by %s' % src(a))
        if isinstance(n, ast.Call) and src(n.func) == 'MapDeleteClause' and n.args:
            chk.judge(src(n.args[0]) == 'col.db_field_name', 'C35.names', n, 'MapDeleteClause(col.db_field_name, ...)', 'map delete named by %s' % src(n.args[0]))
    qs = q.func('ModelQuerySet.update')
    adds = [n for n in body_walk(qs) if isinstance(n, ast.Call) and isinstance(n.func, ast.Attribute) and n.func.attr == 'add' and src(n.func.value) in ('nulled_columns', 'updated_columns')]
    if len(adds) != 2:
        raise AnalysisError('ModelQuerySet.update: nulled/updated column bookkeeping not found')
    for a in adds:
        chk.judge(src(a.args[0]) == 'col.db_field_name', 'C35.names', a, 'ModelQuerySet.update: %s.add(col.db_field_name)' % src(a.func.value),
                  '%s collects %s: a column declared with db_field is deleted / filtered under its attribute name (DELETE "attr" instead of DELETE "db_field")' % (src(a.func.value), src(a.args[0])))
    for f in (up, qs):
        cmps = [n for n in body_walk(f, nested=True) if isinstance(n, ast.Compare) and src(n.left) == 'condition.field']
        for c in cmps:
            chk.judge(src(c.comparators[0]) == 'updated_columns', 'C35.names', c, '%s: condition.field compared with updated_columns (db field names)' % qual_of(f), 'condition filter compares with %s' % src(c.comparators[0]))
    chk.judge('updated_columns.add(col.db_field_name)' in su, 'C35.names', up, 'DMLQuery.update collects db field names', 'updated_columns collects attribute names')
    sv = q.func('DMLQuery.save')
    chk.judge('nulled_fields.add(col.db_field_name)' in src(sv), 'C35.names', sv, 'save(): nulled fields by db field name', 'nulled fields named differently')
    iff = q.func('AbstractQuerySet.iff') if q.has('AbstractQuerySet.iff') else None
    if iff is not None:
        chk.judge('WhereClause(column.db_field_name, operator, query_val)' in src(iff), 'C35.names', iff, 'iff(): condition clause named by db_field_name', 'iff clause naming changed')
    # deleted predicate
    bvm = cols.func('BaseValueManager.deleted')
    rets = [n for n in body_walk(bvm) if isinstance(n, ast.Return)]
    if len(rets) != 1:
        raise AnalysisError('BaseValueManager.deleted: single return expected')
    e = rets[0].value
    env_keys = {'self.column._val_is_null(self.value)': 'null_now', 'self.explicit': 'explicit', 'self.column._val_is_null(self.previous_value)': 'null_before'}
    import itertools
    table = {}
    from ..guards import tri_vars, TRUTHY, FALSY
    vs, op = tri_vars(e)
    for combo in itertools.product((False, True), repeat=3):
        val = dict(zip(('null_now', 'explicit', 'null_before'), combo))
        env = {}
        oenv = {}
        for text, k in env_keys.items():
            if text in vs:
                env[text] = TRUTHY if val[k] else FALSY
            else:
                oenv[text] = val[k]
        for o in op:
            oenv.setdefault(o, False)
        for v_ in vs:
            env.setdefault(v_, FALSY)
        try:
            table[combo] = tri_eval(e, env, oenv)
        except KeyError as ke:
            raise AnalysisError('deleted predicate uses an unknown atom %s' % ke)
    want = dict((c, c[0] and (c[1] or not c[2])) for c in table)
    bad = [c for c in table if table[c] != want[c]]
    chk.judge(not bad, 'C35.deleted', bvm, 'deleted == null now and (explicit or not null before): %s' % src(e),
              'deleted predicate differs for (null_now, explicit, null_before) = %s: e.g. an explicit None on a never-loaded instance no longer issues the DELETE' % bad[:3])
    # flow
    s = src(sv)
    chk.judge('if not insert.is_empty' in s and 'self._execute(insert)' in s and 'if not static_save_only' in s and 'self._delete_null_columns()' in s, 'C35.flow', sv,
              'save(): insert when non-empty, then _delete_null_columns unless static-only', 'save flow changed')
    chk.judge('if not null_clustering_key' in su and 'self._delete_null_columns(delete_conditionals)' in su and 'if statement.assignments' in su, 'C35.flow', up,
              'update(): UPDATE when there are assignments; nulled columns deleted unless the clustering key is null', 'update flow changed')
    dl = q.func('DMLQuery.delete')
    chk.judge('if val is None and (not col.partition_key)' in src(dl) and 'self.model._primary_keys.items()' in src(dl), 'C35.flow', dl, 'delete(): all primary keys, skipping null clustering keys', 'delete key selection changed')

    # batched saves / updates / deletes: the statement is renumbered before it is merged into the batch
    from .c37 import renumber_loops
    renumber_loops(chk, 'C35.renumber')
    chk.borrow('C37', {'C37.lists': 'C35.renumber'}, 'in a batch the placeholders of that list keep ids that collide with other clauses or statements')


def _snapshot_rule(chk, cols):
    n = 0
    for q, f in cols.functions():
        for st in body_walk(f):
            if isinstance(st, ast.Assign) and any(isinstance(t, ast.Attribute) and t.attr == 'previous_value' for t in st.targets):
                n += 1
                v = st.value
                live = [x for x in ast.walk(v) if isinstance(x, ast.Attribute) and x.attr == 'value' and not _under_copy(x, v)]
                chk.judge(not live, 'C35.snapshot', st, '%s: %s' % (q, src(st)),
                          'previous_value becomes the same object as value: after a save/load, an in-place change of a collection column (add, append, item assignment) leaves value == previous_value, so no CQL is emitted and the row silently diverges from the instance')
    if n < 3:
        raise AnalysisError('C35.snapshot: writers of previous_value not found (%d)' % n)
    # the generic manager holds plain and (nested, frozen) collection values: its snapshot must not share inner containers with the live value
    brp = cols.func('BaseValueManager.reset_previous_value')
    asg = [st for st in body_walk(brp) if isinstance(st, ast.Assign) and any(isinstance(t, ast.Attribute) and t.attr == 'previous_value' for t in st.targets)]
    deep = len(asg) == 1 and isinstance(asg[0].value, ast.Call) and src(asg[0].value.func) in ('deepcopy', 'copy.deepcopy') and src(asg[0].value.args[0]) == 'self.value'
    chk.judge(deep, 'C35.snapshot', brp, 'BaseValueManager.reset_previous_value: previous_value = deepcopy(self.value)',
              'the snapshot of a column value is a shallow copy (%s): a list of lists / map of sets shares its inner containers with the live value, so an in-place edit of an inner container '
              'after a save compares equal to the snapshot and no UPDATE is emitted' % (src(asg[0].value) if asg else None))

    # after a save / update the snapshot is refreshed for every value the statements wrote: the predicates of the value manager that make
    # DMLQuery emit something (changed -> SET / INSERT, deleted -> DELETE column) must all select the value in _set_persisted
    chk.rule('C35.baseline', 'Model._set_persisted refreshes previous_value for every value manager that DMLQuery wrote: its filter covers each emitting predicate (changed, deleted)')
    qm = chk.repo.mod('cassandra/cqlengine/query.py')
    cm = chk.repo.mod('cassandra/cqlengine/columns.py')
    props = set()
    for cls_ in cm.tree.body:
        if isinstance(cls_, ast.ClassDef) and cls_.name == 'BaseValueManager':
            for fn in cls_.body:
                if isinstance(fn, ast.FunctionDef) and any(src(d) == 'property' for d in fn.decorator_list):
                    props.add(fn.name)
    emitting = set()
    for q_ in ('DMLQuery._delete_null_columns', 'DMLQuery.update', 'DMLQuery.save'):
        for x in body_walk(qm.func(q_)):
            if isinstance(x, ast.Attribute) and x.attr in props and x.attr in ('changed', 'deleted') and isinstance(x.ctx, ast.Load):
                emitting.add(x.attr)
    if emitting != set(['changed', 'deleted']):
        raise AnalysisError('C35.baseline: emitting predicates of DMLQuery not recognised: %s' % sorted(emitting))
    sp = chk.repo.mod('cassandra/cqlengine/models.py').func('BaseModel._set_persisted')
    resets = [c for c in body_walk(sp) if isinstance(c, ast.Call) and isinstance(c.func, ast.Attribute) and c.func.attr == 'reset_previous_value']
    if len(resets) != 1:
        raise AnalysisError('_set_persisted: reset_previous_value call not found')
    filt = [x for x in body_walk(sp) if isinstance(x, ast.comprehension) and x.ifs] + [x for x in body_walk(sp) if isinstance(x, ast.If)]
    covered = set()
    unfiltered = not filt
    for fx in filt:
        for t in (fx.ifs if isinstance(fx, ast.comprehension) else [fx.test]):
            terms = t.values if isinstance(t, ast.BoolOp) and isinstance(t.op, ast.Or) else [t]
            for term in terms:
                if isinstance(term, ast.Attribute) and term.attr in props:
                    covered.add(term.attr)
    missing = sorted(emitting - covered) if not unfiltered else []
    chk.judge(not missing, 'C35.baseline', sp, '_set_persisted selects values that are %s (or all when forced)' % ' or '.join(sorted(covered) or ['<every value>']),
              'a value that DMLQuery wrote because it was %s keeps its old previous_value: p.tags.clear(); p.save() emits DELETE "tags" but the snapshot stays {1, 2}, so the next '
              'p.tags.add(1); p.save() emits "tags" = "tags" - {2} and never adds 1 - the row keeps null while the instance holds {1}' % '/'.join(missing))


def _under_copy(node, root):
    p = parent(node)
    while p is not None:
        if isinstance(p, ast.Call) and src(p.func) in ('deepcopy', 'copy', 'copy.deepcopy', 'copy.copy', 'list', 'dict', 'set', 'tuple'):
            return True
        if p is root:
            break
        p = parent(p)
    return False


def _update_flags(chk, up):
    """update(): the two sticky flags and the WHERE selection they drive, by dataflow (whatever statements express them)"""
    from .. import sem
    from ..fold import Folder, Unfoldable
    g, fl = sem.flow_of(up)

    def loop_of(n):
        from ..core import enclosing
        return enclosing(n.ast, ast.For)
    # --- static_changed_only: starts True, and-accumulates col.static for every column that is added to the UPDATE
    inits, accs, others = sem.and_flag(up, 'static_changed_only', g, fl)
    ok = len(inits) == 1 and src(inits[0].ast.value) == 'True' and not others and bool(accs) and all(t == 'col.static' for _n, t in accs) and loop_of(inits[0]) is None
    chk.judge(ok, 'C35.static', up, 'update(): static_changed_only starts True and is and-accumulated with col.static',
              'static_changed_only is not `True and col.static and ...` over the updated columns (starts: %s; accumulates: %s; other writes: %s): after a non-static column was seen the flag '
              'can be true again and the UPDATE omits the clustering key' % ([src(n.ast) for n in inits], [t for _n, t in accs], [src(n.ast)[:50] for n in others]))
    adds = [n for n in g.stmt_nodes() if n.kind == 'stmt' and any(isinstance(c, ast.Call) and src(c.func) == 'statement.add_update' for c in ast.walk(n.ast))]
    if not adds:
        raise AnalysisError('DMLQuery.update: statement.add_update not found')
    acc_ids = set(n.id for n, _t in accs)
    from ..cfg import Flow

    def step_acc(n, c):
        if n.kind == 'for_iter':
            return 'no'
        return 'yes' if n.id in acc_ids else c
    fa_ = Flow(g, 'no', step_acc)
    for ad in adds:
        okp = loop_of(ad) is not None and all(c == 'yes' or f_.knows('static_changed_only') is False for f_, c in fa_.at(ad))
        chk.judge(okp, 'C35.static', ad.ast, 'every column added to the UPDATE takes part in static_changed_only (or the flag is already false)',
                  'a column reaches add_update on a path of the iteration that does not and-accumulate col.static: a changed non-static column leaves the flag True and the clustering key out of WHERE')
    # --- null_clustering_key: there is a clustering key and every clustering column is null
    inits, accs, others = sem.and_flag(up, 'null_clustering_key', g, fl)
    okn = len(inits) == 1 and not others and bool(accs) and all(t == 'col._val_is_null(getattr(self.instance, name, None))' for _n, t in accs)
    if okn:
        # the starting value as a function of the number of clustering keys: False for none, True otherwise
        class L(ast.NodeTransformer):
            def visit_Call(s_, n):
                if src(n) == 'len(self.instance._clustering_keys)':
                    return ast.Name(id='_n', ctx=ast.Load())
                return s_.generic_visit(n)

            def visit_Attribute(s_, n):
                if src(n) == 'self.instance._clustering_keys':
                    return ast.Name(id='_ck', ctx=ast.Load())
                return n
        import copy
        e = L().visit(copy.deepcopy(inits[0].ast.value))
        fo = Folder(chk.repo.mod(Q))
        try:
            vals = [bool(fo.eval(e, env={'_n': k, '_ck': (None,) * k})) for k in (0, 1, 2, 5)]
        except Unfoldable as ex:
            raise AnalysisError('DMLQuery.update: starting value of null_clustering_key not understood (%s): %s' % (src(inits[0].ast.value), ex))
        okn = vals == [False, True, True, True]
    for n, _t in accs:
        lp = loop_of(n)
        okn = okn and lp is not None and src(lp.iter) == 'self.instance._clustering_keys.items()' and src(lp.target).replace('(', '').replace(')', '') == 'name, col'
    chk.judge(okn, 'C35.static', up, 'update(): null_clustering_key = (there are clustering keys) and every clustering column is null',
              'null clustering key computation changed (starts: %s; accumulates: %s; other writes: %s)' % ([src(n.ast) for n in inits], [t for _n, t in accs], [src(n.ast)[:50] for n in others]))
    # --- WHERE: partition keys always; clustering keys unless the clustering key is null or only static columns changed
    wh = [n for n in g.stmt_nodes() if n.kind == 'stmt' and any(isinstance(c, ast.Call) and src(c.func) == 'statement.add_where' for c in ast.walk(n.ast))]
    if len(wh) != 1:
        raise AnalysisError('DMLQuery.update: statement.add_where: %d sites' % len(wh))
    lp = loop_of(wh[0])
    okw = lp is not None and src(lp.iter) == 'self.model._primary_keys.items()'
    if okw:
        for fa, _c in fl.at(wh[0]):
            pk = fa.value('col.partition_key')
            okw = okw and (pk is True or (fa.value('null_clustering_key') is False and fa.value('static_changed_only') is False))
        # and the converse: an iteration that does not add the column is one of a clustering column under (null key or static only)
        heads = [n for n in g.nodes if n.kind == 'for_iter' and n.ast is lp]
        skips = [n for n in g.stmt_nodes() if n.kind == 'stmt' and isinstance(n.ast, ast.Continue) and loop_of(n) is lp]
        for sk in skips:
            for fa, _c in fl.at(sk):
                okw = okw and fa.value('col.partition_key') is False and fa.value('null_clustering_key or static_changed_only') is True
        okw = okw and len(heads) == 1
    chk.judge(okw, 'C35.static', wh[0].ast, 'update(): WHERE takes every partition key, and the clustering keys unless the clustering key is null or only static columns changed',
              'clustering key selection in update changed')
