"""C07 - compiled extensions behave like the pure-Python driver (sibling structure over .pyx / .c / .py)."""
import ast
import re

from ..core import AnalysisError, src, body_walk, walk_no_nested, parent, chain
from ..fold import Folder, Unfoldable
from ..pyx import PyxModule, walk, text, fname
from ..valuecodec import Codecs
from .c03 import load_spec

DES = 'cassandra/deserializers.pyx'
PXD = 'cassandra/deserializers.pxd'
IOUTILS = 'cassandra/ioutils.pyx'
OBJ = 'cassandra/obj_parser.pyx'
ROW = 'cassandra/row_parser.pyx'
CQLTYPES = 'cassandra/cqltypes.py'
PROTOCOL = 'cassandra/protocol.py'
CMURMUR = 'cassandra/cmurmur3.c'
MURMUR = 'cassandra/murmur3.py'

CTYPE_FMT = {'int8_t': '>b', 'int16_t': '>h', 'int32_t': '>i', 'int64_t': '>q', 'uint8_t': '>B', 'uint16_t': '>H', 'uint32_t': '>I', 'uint64_t': '>Q', 'float': '>f', 'double': '>d'}
# (bits, signed) of the C integer types that appear as declared locals
CINT = {'int8_t': (8, True), 'int16_t': (16, True), 'int32_t': (32, True), 'int64_t': (64, True), 'uint8_t': (8, False), 'uint16_t': (16, False), 'uint32_t': (32, False),
        'uint64_t': (64, False), 'int': (32, True), 'Py_ssize_t': (64, True), 'long': (64, True), 'short': (16, True)}


def tname(n):
    return type(n).__name__


def unpack_types(node):
    """[(T, call node)] for unpack_num[T](...) calls below node"""
    out = []
    for n in walk(node):
        if tname(n) == 'SimpleCallNode' and tname(n.function) == 'IndexNode' and text(n.function.base) == 'unpack_num':
            out.append((text(n.function.index), n))
    return out


def calls_named(node, name):
    return [n for n in walk(node) if tname(n) in ('SimpleCallNode', 'GeneralCallNode') and text(n.function) == name]


def cdecls(node):
    """{local name: declared C type} for cdef declarations below node"""
    out = {}
    for n in walk(node):
        if tname(n) == 'CVarDefNode' and tname(n.base_type) == 'CSimpleBaseTypeNode':
            for d in n.declarators:
                nm = getattr(d, 'name', None)
                if nm:
                    out[nm] = n.base_type.name
    return out


def fits(declared, produced):
    """can a C variable of type `declared` hold every value of type `produced`?"""
    if declared not in CINT or produced not in CINT:
        return True
    db, ds = CINT[declared]
    pb, ps = CINT[produced]
    if ds == ps:
        return db >= pb
    if ds and not ps:
        return db > pb
    return False     # unsigned variable receiving a signed value


def py_of(node):
    """python ast of a Cython expression (via the small unparser)"""
    try:
        return ast.parse(text(node).replace('&', ''), mode='eval').body
    except SyntaxError:
        raise AnalysisError('cannot read Cython expression %s' % text(node))


def stale_loop_values(pyx):
    """per loop of a .pyx module: variables that a statement at the top level of the loop body reads although, in this iteration,
    they have only been assigned under a condition (or not yet) - the value of the previous iteration leaks in.  Accumulators (every
    assignment in the loop is `v op= e` / `v = f(v ...)`) and the loop targets are carried on purpose and are not reported.
    -> [(function name, line, variable, reading statement text)]"""
    out = []

    def names_read(n):
        return [x.name for x in walk(n) if tname(x) == 'NameNode']

    def filled(call):
        """names V of a C struct filled through out-parameters: f(..., &V.ptr, &V.size) / f(..., &V)"""
        out_ = []
        for a in getattr(call, 'args', None) or []:
            if tname(a) == 'AmpersandNode':
                o = a.operand
                if tname(o) == 'AttributeNode' and tname(o.obj) == 'NameNode':
                    out_.append(o.obj.name)
        return out_

    def assigns(n):
        """[(name, is_update)] assigned anywhere inside n"""
        res = []
        for x in walk(n):
            t = tname(x)
            if t == 'SimpleCallNode' and tname(x.function) == 'NameNode' and x.function.name == 'PyBytes_AsStringAndSize':
                res.extend((v, False) for v in filled(x))
            if t == 'SingleAssignmentNode' and tname(x.lhs) == 'NameNode':
                res.append((x.lhs.name, x.lhs.name in names_read(x.rhs)))
            elif t == 'InPlaceAssignmentNode' and tname(x.lhs) == 'NameNode':
                res.append((x.lhs.name, True))
            elif t == 'CascadedAssignmentNode':
                for l in x.lhs_list:
                    if tname(l) == 'NameNode':
                        res.append((l.name, False))
        return res

    TERM = ('RaiseStatNode', 'ReraiseStatNode', 'ReturnStatNode', 'ContinueStatNode', 'BreakStatNode')

    def stats_of(n):
        if n is None:
            return []
        return n.stats if tname(n) == 'StatListNode' else [n]

    def terminates(stats):
        return bool(stats) and tname(stats[-1]) in TERM

    def proc(stats, definite, fresh, fname_):
        definite = set(definite)
        for st in stats:
            t = tname(st)

            def check(reads):
                for v in reads:
                    if v in fresh and v not in definite:
                        out.append((fname_, pyx.line(st), v, t))
            if t == 'SingleAssignmentNode':
                check(names_read(st.rhs))
                if tname(st.lhs) == 'NameNode':
                    definite.add(st.lhs.name)
                else:
                    check(names_read(st.lhs))
            elif t == 'CascadedAssignmentNode':
                check(names_read(st.rhs))
                definite.update(l.name for l in st.lhs_list if tname(l) == 'NameNode')
            elif t == 'IfStatNode':
                arms = []
                for cl in st.if_clauses:
                    check(names_read(cl.condition))
                    b_ = stats_of(cl.body)
                    d_ = proc(b_, definite, fresh, fname_)
                    if not terminates(b_):
                        arms.append(d_)
                e_ = stats_of(st.else_clause)
                d_ = proc(e_, definite, fresh, fname_)
                if not terminates(e_):
                    arms.append(d_)
                if arms:
                    definite = set.intersection(*arms)
            elif t == 'TryExceptStatNode':
                b_ = stats_of(st.body) + stats_of(st.else_clause)
                arms = []
                d_ = proc(b_, definite, fresh, fname_)
                if not terminates(b_):
                    arms.append(d_)
                for h in st.except_clauses:
                    hb = stats_of(h.body)
                    dh = proc(hb, definite, fresh, fname_)
                    if not terminates(hb):
                        arms.append(dh)
                if arms:
                    definite = set.intersection(*arms)
            elif t == 'TryFinallyStatNode':
                definite = proc(stats_of(st.body), definite, fresh, fname_)
                definite = proc(stats_of(st.finally_clause), definite, fresh, fname_)
            elif t in ('ForInStatNode', 'ForFromStatNode', 'WhileStatNode'):
                pass            # inner loops are visited on their own
            elif t == 'StatListNode':
                definite = proc(st.stats, definite, fresh, fname_)
            elif t == 'ExprStatNode' and tname(st.expr) == 'SimpleCallNode' and tname(st.expr.function) == 'NameNode' \
                    and st.expr.function.name == 'PyBytes_AsStringAndSize':
                vs = filled(st.expr)
                check([v for v in names_read(st) if v not in vs])
                definite.update(vs)
            else:
                check(names_read(st))
        return definite

    for fn in [n for n in pyx.nodes() if tname(n) in ('DefNode', 'CFuncDefNode')]:
        fname_ = fn.name if tname(fn) == 'DefNode' else fname(fn)
        for loop in [n for n in walk(fn) if tname(n) in ('ForInStatNode', 'ForFromStatNode', 'WhileStatNode')]:
            inloop = assigns(loop.body)
            fresh = set(v for v, upd in inloop if not upd) - set(v for v, upd in inloop if upd)
            target = set(names_read(loop.target)) if getattr(loop, 'target', None) is not None else set()
            proc(stats_of(loop.body), target, fresh, fname_)
    return out


def check(chk):
    chk.decides = ('every Des<Name> Cython deserializer reads the same fixed-width fields (width, signedness) as cqltypes.<Name>.deserialize, and no typed C local narrows what it '
                   'unpacked; the null / empty decision of the Cython from_binary + _ret_empty equals cqltypes._CassandraType.from_binary on all 12 (size class, empty_binary_ok, '
                   'support_empty_values) points; collection length prefixes switch on protocol_version >= 3 to int32 (else uint16) like the pure codecs and the specification, nested '
                   'values are decoded with max(3, version), the tuple null test is `>= 0`; find_deserializer pairs every Des class with the pure class of that name and mirrors its '
                   'inheritance; the compiled row parser takes metadata, names, types and column descriptors from the same places as ResultMessage.recv_results_rows; the protocol '
                   'handler swaps only the RESULT decoder; cmurmur3.c and murmur3.py agree on constants, rotations, tail table and the signedness of tail bytes')
    chk.does_not_decide = 'value equality as such (datetime_from_timestamp float arithmetic, Cython-compiled .py modules, integer overflow inside typed expressions)'
    chk.rule('C07.width', 'Des<Name>.deserialize unpack_num[T] set == struct formats read by cqltypes.<Name>.deserialize')
    chk.rule('C07.narrow', 'a cdef-typed local assigned from unpack_num[T] / read_int can represent every T value')
    chk.rule('C07.null', 'from_binary (pxd) + _ret_empty == _CassandraType.from_binary over size {<0, 0, >0} x empty_binary_ok x support_empty_values')
    chk.rule('C07.coll', 'collection prefix type by version, inner version max(3, v), tuple null test, map key bytes')
    chk.rule('C07.stale', 'in the loops of the compiled decoders a per-iteration value read at the top level of the loop body has been assigned unconditionally in that iteration')
    chk.rule('C07.dispatch', 'find_deserializer: Des + cqltype.__name__, then issubclass chain in subclass-first order; class pairs mirror inheritance')
    chk.rule('C07.rows', 'row_parser.recv_results_rows vs ResultMessage.recv_results_rows: metadata source, names md[2], types md[3], ColDesc(md[0], md[1], md[2]); FastResultMessage overrides only recv_results_rows')
    chk.rule('C07.murmur', 'cmurmur3.c vs murmur3.py: c1/c2, rotation amounts, mix constants, fmix constants, tail (case -> byte, shift) table, signed tail bytes, final mixing')
    repo = chk.repo
    des = PyxModule(repo, DES)
    C = Codecs(repo)
    cq = C.mod
    spec = load_spec()
    classes = des.classes()
    bases = dict((n, (text(c.bases.args[0]) if c.bases is not None and c.bases.args else None)) for n, c in classes.items())

    def own_deser(name):
        c = classes[name]
        return des.funcs(c).get('deserialize')

    def eff_deser(name):
        n = name
        while n is not None:
            f = own_deser(n) if n in classes else None
            if f is not None:
                return f, n
            n = bases.get(n)
        return None, None

    # ---- widths
    npairs = 0
    for name in sorted(classes):
        if not name.startswith('Des') or name in ('Deserializer',):
            continue
        pure_name = name[3:]
        if pure_name == 'BytesTypeByteArray':
            continue
        if not cq.has(pure_name) or not isinstance(cq.get(pure_name), ast.ClassDef):
            chk.viol('C07.dispatch', (DES, name, des.line(classes[name])), name, 'no class cqltypes.%s: find_deserializer can never select %s' % (pure_name, name))
            continue
        f, owner = eff_deser(name)
        if f is None or owner in ('Deserializer',):
            continue
        pc = cq.cls(pure_name)
        R, ro = C.find_method(pc, 'deserialize')
        Rs, _ = C.find_method(pc, 'deserialize_safe')
        if R is None:
            chk.viol('C07.width', (DES, name, des.line(classes[name])), name, 'cqltypes.%s has no deserialize' % pure_name)
            continue
        got = set(CTYPE_FMT.get(t, t) for t, _ in unpack_types(f))
        if calls_named(f, 'varint_unpack'):
            got.add('varint')
        # helper functions called with a fused specialisation are handled under C07.coll
        want = C.formats_in(R, 'r') | (C.formats_in(Rs, 'r') if Rs is not None and R.name == 'deserialize' and 'deserialize_safe' in src(R) else set())
        if name in ('DesListType', 'DesSetType', 'DesMapType', 'DesUserType', 'DesReversedType', 'DesFrozenType'):
            continue
        npairs += 1
        chk.judge(got == want, 'C07.width', (DES, '%s.deserialize' % owner, des.line(f)), '%s reads %s, cqltypes.%s reads %s' % (name, sorted(got), pure_name, sorted(want)),
                  'the compiled deserializer of %s unpacks %s where the pure-Python codec unpacks %s' % (pure_name, sorted(got), sorted(want)), nontrivial=bool(got or want))
    if npairs < 20:
        raise AnalysisError('only %d Des/pure class pairs compared (expected >= 20)' % npairs)
    # date constants
    ep = [n for n in des.tree.body.stats if tname(n) == 'SingleAssignmentNode' and text(n.lhs) == 'EPOCH_OFFSET_DAYS']
    folder = Folder(cq, others=[C.marshal])
    try:
        pure_ep = folder.class_const('SimpleDateType', 'EPOCH_OFFSET_DAYS')
    except Unfoldable as e:
        raise AnalysisError(str(e))
    ok = len(ep) == 1 and tname(ep[0].rhs) == 'PowNode' and int(ep[0].rhs.operand1.value) ** int(ep[0].rhs.operand2.value) == pure_ep == spec.DATE_EPOCH_OFFSET
    chk.judge(ok, 'C07.width', (DES, 'EPOCH_OFFSET_DAYS', des.line(ep[0]) if ep else 0), 'date epoch offset 2**31 on both sides', 'date epoch offsets differ')
    dd, _ = eff_deser('DesDateType')
    pd, _ = C.find_method(cq.cls('DateType'), 'deserialize')
    # a timestamp is a whole number of milliseconds and a datetime a whole number of microseconds: both decoders turn one into the other without a float
    from ..sem import float_taint
    divs = [text(n) for n in walk(dd) if tname(n) == 'DivNode' and getattr(n, 'operator', '/') == '/']
    floats = [nm for nm, ty in cdecls(dd).items() if ty in ('double', 'float')] + [text(n) for n in walk(dd) if tname(n) == 'FloatNode']
    calls_dd = [text(n.function) for n in walk(dd) if tname(n) in ('SimpleCallNode', 'GeneralCallNode')]
    why_py = None
    for r_ in [n for n in body_walk(pd) if isinstance(n, ast.Return) and n.value is not None]:
        why_py = why_py or float_taint(repo, cq, pd, r_.value)
    okc = not divs and not floats and 'datetime_from_ms_timestamp' in calls_dd
    chk.judge(okc and why_py is None, 'C07.width', (DES, 'DesDateType.deserialize', des.line(dd)),
              'timestamp: the int64 millisecond count becomes a datetime in integer arithmetic on both sides',
              'timestamp decoding goes through a float (%s): far from 1970 a double cannot hold microseconds and the decoded datetime is off by some - and the two decoders round differently'
              % ('; '.join(x for x in [('compiled: ' + ', '.join(divs + floats)) if (divs or floats) else ('compiled: does not call datetime_from_ms_timestamp' if not okc else ''),
                                       ('pure: ' + why_py) if why_py else ''] if x)))
    cu = PyxModule(repo, 'cassandra/cython_utils.pyx')
    hms = [n for n in cu.nodes() if tname(n) == 'CFuncDefNode' and fname(n) == 'datetime_from_ms_timestamp']
    if len(hms) != 1:
        raise AnalysisError('cython_utils.pyx: datetime_from_ms_timestamp not found')
    fl_ = [nm for nm, ty in cdecls(hms[0]).items() if ty in ('double', 'float')] + [text(n) for n in walk(hms[0]) if tname(n) == 'FloatNode'] + \
        [text(n) for n in walk(hms[0]) if tname(n) == 'DivNode' and getattr(n, 'operator', '/') == '/']
    chk.judge(not fl_, 'C07.width', ('cassandra/cython_utils.pyx', 'datetime_from_ms_timestamp', cu.line(hms[0])), 'datetime_from_ms_timestamp: days, seconds and microseconds by floor division of the millisecond count',
              'the compiled helper computes with floats (%s)' % ', '.join(fl_))
    # ---- the deserializer of a type: user-named classes (UDTs) are never looked up by name; subclass tests go from the more specific class to its base
    chk.rule('C07.lookup', 'find_deserializer: a UserType subclass is recognised before the lookup by class name (its name is the user\'s), and every subclass test precedes the test of its base class')
    fd = [n for n in des.nodes() if tname(n) in ('CFuncDefNode', 'DefNode') and (fname(n) if tname(n) == 'CFuncDefNode' else n.name) == 'find_deserializer']
    if len(fd) != 1:
        raise AnalysisError('deserializers.pyx: find_deserializer not found')
    conds = [text(c_.condition) for x_ in walk(fd[0]) if tname(x_) == 'IfStatNode' for c_ in x_.if_clauses]
    def _pos(t_):
        return conds.index(t_) if t_ in conds else None
    by_name = [i_ for i_, t_ in enumerate(conds) if 'globals()' in t_ or 'classes' in t_]
    udt = _pos('issubclass(cqltype, cqltypes.UserType)')
    chk.judge(udt is not None and by_name and udt < min(by_name), 'C07.lookup', (DES, 'find_deserializer', des.line(fd[0])), 'user-defined types are recognised before the lookup by class name',
              'the class of a UDT is named by the user: looked up by name first, a UDT called LongType / UUIDType / ListType is decoded by DesLongType / DesUUIDType / DesListType - the compiled '
              'parser returns 17179869189 for LongType(a=5) (or fails) where the pure parser returns the UDT')
    for sub_, base_ in (('UserType', 'TupleType'), ('DynamicCompositeType', 'CompositeType')):
        a_, b_ = _pos('issubclass(cqltype, cqltypes.%s)' % sub_), _pos('issubclass(cqltype, cqltypes.%s)' % base_)
        chk.judge(a_ is not None and b_ is not None and a_ < b_, 'C07.lookup', (DES, 'find_deserializer', des.line(fd[0])), '%s is tested before its base %s' % (sub_, base_),
                  '%s is a subclass of %s: tested after it, its values are decoded by Des%s' % (sub_, base_, base_))
    # ---- narrowing
    nn = 0
    for rel in (DES, IOUTILS, OBJ):
        pm = des if rel == DES else PyxModule(repo, rel)
        allf = [(pm.line(n), (fname(n) if tname(n) == 'CFuncDefNode' else n.name), n) for n in pm.nodes() if tname(n) in ('CFuncDefNode', 'DefNode')]
        for _ln, fn_name, f in sorted(allf, key=lambda x: x[0]):
            decl = cdecls(f)
            for n in walk(f):
                lhs = rhs = None
                if tname(n) == 'SingleAssignmentNode':
                    lhs, rhs = n.lhs, n.rhs
                elif tname(n) == 'CVarDefNode':
                    for d in n.declarators:
                        if getattr(d, 'default', None) is not None:
                            lhs, rhs = d, d.default
                if lhs is None:
                    continue
                produced = None
                if tname(rhs) == 'SimpleCallNode' and tname(rhs.function) == 'IndexNode' and text(rhs.function.base) == 'unpack_num':
                    produced = text(rhs.function.index)
                elif tname(rhs) == 'SimpleCallNode' and text(rhs.function) == 'read_int':
                    produced = 'int32_t'
                if produced is None:
                    continue
                lname = getattr(lhs, 'name', None) or text(lhs)
                declared = decl.get(lname)
                if declared is None:
                    continue   # python object: arbitrary precision
                nn += 1
                chk.judge(fits(declared, produced), 'C07.narrow', (rel, fn_name, pm.line(n)), '%s %s = <%s>' % (declared, lname, produced),
                          'a %s value is stored in a %s variable: values outside its range wrap around (a length >= 2**%d becomes negative), while the pure-Python codec keeps the full value'
                          % (produced, declared, CINT.get(declared, (0, 0))[0] - 1))
    if nn < 4:
        raise AnalysisError('typed-local assignments from unpack_num: expected >= 4, found %d' % nn)
    # ---- null / empty
    pxd = PyxModule(repo, PXD)
    fb = pxd.funcs().get('from_binary')
    re_ = des.funcs().get('_ret_empty')
    pfb, _ = C.find_method(cq.cls('_CassandraType'), 'from_binary')
    if fb is None or re_ is None or pfb is None:
        raise AnalysisError('from_binary / _ret_empty / _CassandraType.from_binary not found')

    def run_pyx(f, env):
        """evaluate a straight if/elif/else chain of returns"""
        for st in (f.body.stats if tname(f.body) == 'StatListNode' else [f.body]):
            if tname(st) == 'IfStatNode':
                for cl in st.if_clauses:
                    if folder.eval(py_of(cl.condition), env=env):
                        return ret_of(cl.body)
                if st.else_clause is not None:
                    return ret_of(st.else_clause)
            elif tname(st) == 'ReturnStatNode':
                return text(st.value)
        return None

    def ret_of(body):
        rs = [n for n in walk(body) if tname(n) == 'ReturnStatNode']
        if len(rs) != 1:
            raise AnalysisError('from_binary: arm without a single return')
        return text(rs[0].value)

    def run_py(f, env):
        for st in f.body:
            if isinstance(st, ast.Expr):
                continue
            if isinstance(st, ast.If):
                cur = st
                while True:
                    if folder.eval(cur.test, env=env):
                        return cur.body[-1]
                    if len(cur.orelse) == 1 and isinstance(cur.orelse[0], ast.If):
                        cur = cur.orelse[0]
                        continue
                    if cur.orelse:
                        return cur.orelse[-1]
                    break
            elif isinstance(st, ast.Return):
                return st
        return None
    bad = []
    for size in (-1, 0, 3):
        for ebo in (False, True):
            for sev in (False, True):
                env = {'buf': {'size': size}, 'deserializer': {'empty_binary_ok': ebo, 'cqltype': {'support_empty_values': sev}}, 'buf_size': size, 'cqltypes': {'EMPTY': 'EMPTY'}}
                try:
                    r = run_pyx(fb, env)
                    if r and r.startswith('_ret_empty('):
                        r = run_pyx(re_, env)
                    r = {'None': 'None', 'cqltypes.EMPTY': 'EMPTY'}.get(r, 'deserialize' if r and 'deserialize(' in r else r)
                    penv = {'byts': None if size < 0 else b'x' * size, 'cls': {'empty_binary_ok': ebo, 'support_empty_values': sev}, 'EMPTY': 'EMPTY'}
                    pr = run_py(pfb, penv)
                    if isinstance(pr, ast.Return):
                        v = pr.value
                        if isinstance(v, ast.Call) and src(v.func) == 'cls.deserialize':
                            p = 'deserialize'
                        else:
                            pv_ = folder.eval(v, env=penv)
                            p = 'None' if pv_ is None else str(pv_)
                    else:
                        p = '?'
                except Unfoldable as e:
                    raise AnalysisError('from_binary decision not foldable: %s' % e)
                if r != p:
                    bad.append('size=%d empty_binary_ok=%s support_empty_values=%s: compiled %s, pure %s' % (size, ebo, sev, r, p))
    chk.judge(not bad, 'C07.null', (PXD, 'from_binary', pxd.line(fb)), 'null/empty decision equal on 12 points', 'compiled and pure from_binary disagree: %s' % '; '.join(bad[:3]))
    gb = PyxModule(repo, IOUTILS).funcs().get('get_buf')
    ok = gb is not None and any(tname(n) == 'IfStatNode' and text(n.if_clauses[0].condition) == 'raw_val_size <= 0' for n in walk(gb)) and \
        any(text(n.function) == 'from_ptr_and_size' and text(n.args[1]) == 'raw_val_size' for n in calls_named(gb, 'from_ptr_and_size'))
    chk.judge(ok, 'C07.null', (IOUTILS, 'get_buf', 0), 'a cell keeps its signed length: negative = null, zero = empty', 'cell length handling changed in get_buf')
    # ---- collections
    for cname, helper, kind in (('DesListType', '_deserialize_list_or_set', 'list'), ('DesMapType', '_deserialize_map', 'map')):
        f = own_deser(cname)
        ifs = [n for n in walk(f) if tname(n) == 'IfStatNode']
        ok = len(ifs) == 1 and text(ifs[0].if_clauses[0].condition) == 'protocol_version >= 3'
        spec_ok = False
        if ok:
            then_t = [text(n.function.index) for n in walk(ifs[0].if_clauses[0].body) if tname(n) == 'SimpleCallNode' and tname(n.function) == 'IndexNode' and text(n.function.base) == helper]
            else_t = [text(n.function.index) for n in walk(ifs[0].else_clause) if tname(n) == 'SimpleCallNode' and tname(n.function) == 'IndexNode' and text(n.function.base) == helper]
            ok = then_t == ['int32_t'] and else_t == ['uint16_t']
            spec_ok = all(spec.collection_layout(kind, v) == (('>i', '>i') if v >= 3 else ('>H', '>H')) for v in spec.ALL_VERSIONS)
        chk.judge(ok and spec_ok, 'C07.coll', (DES, '%s.deserialize' % cname, des.line(f)), '%s: int32 prefixes from protocol 3, uint16 before (as cqltypes and the specification)' % cname,
                  'collection prefix width by version differs from the pure codec')
        h = des.funcs().get(helper)
        stats = [text(n.lhs) + ' = ' + text(n.rhs) for n in walk(h) if tname(n) == 'SingleAssignmentNode']
        loops = [n for n in walk(h) if tname(n) == 'ForInStatNode']
        pos_max = [des.line(n) for n in walk(h) if tname(n) == 'SingleAssignmentNode' and text(n.lhs) == 'protocol_version' and text(n.rhs) == 'max(3, protocol_version)']
        ok = len(pos_max) == 1 and len(loops) == 1 and pos_max[0] < des.line(loops[0])
        chk.judge(ok, 'C07.coll', (DES, helper, des.line(h)), '%s: nested values decoded with max(3, protocol_version)' % helper, 'inner protocol version differs from the pure codec (inner_proto = max(3, v))')
        sub = calls_named(h, 'from_binary')
        chk.judge(len(sub) == (1 if kind == 'list' else 2) and all(text(c.args[2]) == 'protocol_version' for c in sub), 'C07.coll', (DES, helper, des.line(h)), '%s: elements go through from_binary (null/empty rules apply)' % helper, 'element decoding bypasses from_binary')
    ul = des.funcs().get('_unpack_len')
    ok = ul is not None and [t for t, _ in unpack_types(ul)] == ['uint16_t', 'int32_t'] and any(tname(n) == 'IfStatNode' and text(n.if_clauses[0].condition).replace(' ', '') in ('itemlen_tisuint16_t', 'itemlen_t is uint16_t'.replace(' ', '')) for n in walk(ul))
    chk.judge(ok, 'C07.coll', (DES, '_unpack_len', des.line(ul) if ul else 0), '_unpack_len reads uint16 for the uint16 specialisation and int32 otherwise', '_unpack_len specialisations changed')
    mp = des.funcs().get('_deserialize_map')
    pm_, _ = C.find_method(cq.cls('MapType'), 'deserialize_safe')
    ok = any(text(c.function) == 'themap._insert_unchecked' and [text(a) for a in c.args] == ['key', 'to_bytes(&key_buf)', 'val'] for c in calls_named(mp, 'themap._insert_unchecked')) and \
        'themap._insert_unchecked(key, keybytes, val)' in src(pm_)
    chk.judge(ok, 'C07.coll', (DES, '_deserialize_map', des.line(mp)), 'map entries inserted with the raw key bytes on both sides', 'map insertion differs')
    # the container re-serialises looked-up keys with the version it is given; the index holds the key bytes as received (inner encoding):
    # both sides must hand the container the very version they decode the key bytes with
    om = [(n.rhs, des.line(n)) for n in walk(mp) if tname(n) == 'SingleAssignmentNode' and text(n.lhs) == 'themap']
    kd = [c for c in calls_named(mp, 'from_binary') if text(c.args[0]) == 'key_deserializer']
    ok_c = len(om) == 1 and len(kd) == 1 and tname(om[0][0]) == 'SimpleCallNode' and text(om[0][0].function) == 'util.OrderedMapSerializedKey' and text(om[0][0].args[0]) == 'key_type'
    if ok_c:
        var = text(om[0][0].args[1])
        reass = [des.line(n) for n in walk(mp) if tname(n) == 'SingleAssignmentNode' and text(n.lhs) == var]
        ok_c = text(kd[0].args[2]) == var and all(r < om[0][1] for r in reass) and all(r < des.line(kd[0]) for r in reass) and any('max(3,' in text(n.rhs) for n in walk(mp) if tname(n) == 'SingleAssignmentNode' and text(n.lhs) == var)
    pom = [n for n in body_walk(pm_) if isinstance(n, ast.Assign) and src(n.targets[0]) == 'themap']
    pkd = [n for n in body_walk(pm_) if isinstance(n, ast.Call) and src(n.func) == 'key_type.from_binary']
    ok_p = len(pom) == 1 and len(pkd) == 1 and isinstance(pom[0].value, ast.Call) and src(pom[0].value.func) == 'util.OrderedMapSerializedKey' and src(pom[0].value.args[0]) == 'key_type'
    if ok_p:
        var = src(pom[0].value.args[1])
        reass = [n for n in body_walk(pm_) if isinstance(n, ast.Assign) and src(n.targets[0]) == var]
        ok_p = src(pkd[0].args[1]) == var and all(r.lineno < pom[0].lineno for r in reass) and any('max(3,' in src(r.value) for r in reass)
    chk.judge(ok_c and ok_p, 'C07.coll', (DES, '_deserialize_map', des.line(mp)), 'map container is given the version the key bytes are decoded with (the inner, >= 3, one) on both sides',
              'the map container re-serialises keys with another version than the one its index bytes are in (compiled ok=%s, pure ok=%s): lookups by key fail on protocol 1/2' % (ok_c, ok_p))
    # collection elements: the pure readers map a negative element length to None before slicing; the compiled element reader
    # (subelem, shared by list / set / map) must do the same before slice_buffer, which rejects negative sizes
    se = des.funcs().get('subelem')
    if se is None:
        raise AnalysisError('deserializers.pyx: subelem not found')
    neg_tests = [text(cl.condition) for n in walk(se) if tname(n) == 'IfStatNode' for cl in n.if_clauses if 'elemlen' in text(cl.condition) and '<' in text(cl.condition)]
    slices = [n for n in walk(se) if tname(n) == 'SimpleCallNode' and text(n.function) == 'slice_buffer']
    pure_neg = all(any(isinstance(x, ast.If) and 'len < 0' in src(x.test).replace('item', '').replace('key', '').replace('val', '') for x in body_walk(C.find_method(cq.cls(cn_), 'deserialize_safe')[0]))
                   for cn_ in ('_SimpleParameterizedType', 'MapType'))
    chk.judge(bool(neg_tests) or not pure_neg, 'C07.null', (DES, 'subelem', des.line(se)), 'subelem: a negative element length is a null element (as in the pure list / set / map readers)',
              'subelem hands the element length to slice_buffer unchecked (%d slice call(s), no `elemlen < 0` test): a null collection element raises "Length must be positive" in the '
              'compiled parser where the pure decoder yields None' % len(slices))
    # tuple
    tf = own_deser('DesTupleType')
    pt, _ = C.find_method(cq.cls('TupleType'), 'deserialize_safe')
    cy_tests = [text(cl.condition) for n in walk(tf) if tname(n) == 'IfStatNode' for cl in n.if_clauses if 'itemlen' in text(cl.condition)]
    py_tests = [src(n.test) for n in body_walk(pt) if isinstance(n, ast.If) and 'itemlen' in src(n.test)]
    def _value_lengths(test_text, value_in_body):
        # the lengths among (-1, 0, 1) for which the arm that slices a value is taken
        try:
            code = compile(ast.parse(test_text, mode='eval'), '<tuple-null-test>', 'eval')
        except SyntaxError:
            return None
        out = set()
        for L in (-1, 0, 1):
            try:
                t_ = bool(eval(code, {'__builtins__': {}}, {'itemlen': L}))
            except Exception:
                return None
            if t_ == value_in_body:
                out.add(L)
        return out
    py_ifs = [n for n in body_walk(pt) if isinstance(n, ast.If) and 'itemlen' in src(n.test)]
    py_sets = [_value_lengths(src(n.test), any(isinstance(x, ast.Subscript) and isinstance(x.slice, ast.Slice) for st_ in n.body for x in ast.walk(st_))) for n in py_ifs]
    cy_ifs = [(cl, n) for n in walk(tf) if tname(n) == 'IfStatNode' for cl in n.if_clauses if 'itemlen' in text(cl.condition)]
    cy_sets = [_value_lengths(text(cl.condition), any(tname(x) == 'SimpleCallNode' and text(x.function) == 'slice_buffer' for x in walk(cl.body))) for cl, _n in cy_ifs]
    chk.judge(len(py_sets) == 1 and len(cy_sets) == 1 and py_sets[0] == cy_sets[0] == set([0, 1]), 'C07.coll', (DES, 'DesTupleType.deserialize', des.line(tf)), 'tuple field: length >= 0 is a value (possibly empty), negative is null - on both sides',
              'the compiled tuple/UDT decoder tests `%s` where the pure codec tests `%s`: a zero-length field (empty string/blob, EMPTY) decodes differently' % (cy_tests, py_tests))
    ok = [t for t, _ in unpack_types(tf)] == ['int32_t'] and C.formats_in(pt, 'r') == set(['>i'])
    chk.judge(ok, 'C07.coll', (DES, 'DesTupleType.deserialize', des.line(tf)), 'tuple field lengths are int32 on both sides', 'tuple field length width differs')
    ok = any(tname(n) == 'SingleAssignmentNode' and text(n.lhs) == 'protocol_version' and text(n.rhs) == 'max(3, protocol_version)' for n in walk(tf)) and 'max(3, protocol_version)' in src(pt)
    chk.judge(ok, 'C07.coll', (DES, 'DesTupleType.deserialize', des.line(tf)), 'tuple fields decoded with max(3, protocol_version) on both sides', 'inner version differs')
    more = [text(cl.condition) for n in walk(tf) if tname(n) == 'IfStatNode' for cl in n.if_clauses if 'buf.size' in text(cl.condition)]
    chk.judge(more == ['p < buf.size'] and 'if p == len(byts)' in src(pt), 'C07.coll', (DES, 'DesTupleType.deserialize', des.line(tf)), 'missing trailing fields become None on both sides', 'short tuple handling differs')
    # per-iteration values of every loop in the compiled decoders
    nloops = 0
    for rel_ in (DES, OBJ, ROW):
        pm_x = des if rel_ == DES else PyxModule(repo, rel_)
        nloops += len([n for n in pm_x.nodes() if tname(n) in ('ForInStatNode', 'ForFromStatNode', 'WhileStatNode')])
        st_ = stale_loop_values(pm_x)
        for fn_, ln_, v_, _t in st_:
            chk.viol('C07.stale', (rel_, fn_, ln_), '%s: `%s` is read in the loop body' % (fn_, v_),
                     'in this iteration `%s` is assigned only under a condition: when the condition is false (null / missing field) the value decoded in the '
                     'previous iteration is used again, where the pure decoder yields None' % v_)
        if not st_:
            chk.ok('C07.stale', (rel_, '<module>', 0), 'loops of %s: no per-iteration value leaks from the previous iteration' % rel_)
    if nloops < 8:
        raise AnalysisError('C07.stale: only %d loops found in the compiled decoders' % nloops)
    # composite
    cf = own_deser('DesCompositeType')
    pc_, _ = C.find_method(cq.cls('CompositeType'), 'deserialize_safe')
    ok = 'start = 2 + element_length + 1' in text_all(cf) and 'byts[2 + element_length + 1:]' in src(pc_)
    chk.judge(ok, 'C07.coll', (DES, 'DesCompositeType.deserialize', des.line(cf)), 'composite: 2-byte length, value, end-of-component byte on both sides', 'composite component framing differs')
    # ---- dispatch
    fd = des.funcs().get('find_deserializer')
    if fd is None:
        raise AnalysisError('find_deserializer not found')
    nm = [text(n.rhs) for n in walk(fd) if tname(n) == 'SingleAssignmentNode' and text(n.lhs) == 'name']
    chk.judge(nm == ["'Des' + cqltype.__name__"], 'C07.dispatch', (DES, 'find_deserializer', des.line(fd)), "by-name lookup: 'Des' + cqltype.__name__", 'name lookup changed: %s' % nm)
    chain_ = []
    for n in walk(fd):
        if tname(n) == 'IfStatNode':
            for cl in n.if_clauses:
                c = cl.condition
                if tname(c) == 'SimpleCallNode' and text(c.function) == 'issubclass':
                    tgt = [text(x.rhs) for x in walk(cl.body) if tname(x) == 'SingleAssignmentNode' and text(x.lhs) == 'cls']
                    chain_.append((text(c.args[1]).replace('cqltypes.', ''), tgt[0] if tgt else None))
            els = [text(x.rhs) for x in walk(n.else_clause) if tname(x) == 'SingleAssignmentNode' and text(x.lhs) == 'cls'] if n.else_clause is not None else []
            chk.judge(els == ['GenericDeserializer'], 'C07.dispatch', (DES, 'find_deserializer', des.line(fd)), 'anything else is decoded by the pure codec itself (GenericDeserializer)', 'fallback is %s' % els)
    aliases = dict((text(n.lhs), text(n.rhs)) for n in des.tree.body.stats if tname(n) == 'SingleAssignmentNode' and text(n.lhs).startswith('Des'))

    def is_sub(a, b):
        c = cq.cls(a)
        seen = 0
        while c is not None and seen < 12:
            seen += 1
            if c.name == b:
                return True
            nxt = None
            for bs in c.bases:
                bc = chain(bs)
                if bc and cq.has(bc[-1]) and isinstance(cq.get(bc[-1]), ast.ClassDef):
                    nxt = cq.get(bc[-1])
                    break
            c = nxt
        return False
    for i, (pure_name, target) in enumerate(chain_):
        tgt = aliases.get(target, target)
        ok = cq.has(pure_name) and tgt in classes
        # subclass-first: no earlier entry may be a strict superclass of this one
        shadow = [p for p, _ in chain_[:i] if cq.has(p) and cq.has(pure_name) and p != pure_name and is_sub(pure_name, p)]
        chk.judge(ok and not shadow, 'C07.dispatch', (DES, 'find_deserializer', des.line(fd)), 'issubclass(%s) -> %s' % (pure_name, target),
                  'issubclass(%s) is unreachable: %s is tested first and is its base class' % (pure_name, shadow) if shadow else 'dispatch target %s / pure class %s missing' % (target, pure_name))
        # a subclass routed to the compiled class must use the same pure codec: no cqltypes subclass of pure_name overrides deserialize_safe unless it has its own Des class
        for q, pc in cq.classes():
            if '.' in q or q == pure_name or not is_sub(q, pure_name):
                continue
            own = any(isinstance(st, ast.FunctionDef) and st.name in ('deserialize', 'deserialize_safe') for st in pc.body)
            handled = ('Des' + q) in classes or ('Des' + q) in aliases or any(p == q or (is_sub(q, p) and p != pure_name and is_sub(p, pure_name)) for p, _ in chain_[:i])
            chk.judge(not own or handled, 'C07.dispatch', (CQLTYPES, q, pc.lineno), '%s (a %s) is decoded by its own compiled class or shares the parent codec' % (q, pure_name),
                      'cqltypes.%s overrides deserialization but the compiled path decodes it with %s' % (q, target))
    if len(chain_) < 8:
        raise AnalysisError('find_deserializer issubclass chain: %d entries (expected >= 8)' % len(chain_))
    for a, b in sorted(aliases.items()):
        pa, pb = a[3:], b[3:]
        if not cq.has(pa):
            chk.viol('C07.dispatch', (DES, a, 0), '%s = %s' % (a, b), 'alias for a pure class that does not exist')
            continue
        Ra, _ = C.find_method(cq.cls(pa), 'deserialize_safe')
        Rb, _ = C.find_method(cq.cls(pb), 'deserialize_safe')
        same = Ra is Rb and Ra is not None
        neither = Ra is None
        chk.judge(same or neither, 'C07.dispatch', (DES, a, 0), '%s = %s: cqltypes.%s %s' % (a, b, pa, 'shares the codec of ' + pb if same else 'has no value codec either (both paths fail on such a value)'),
                  'the compiled path decodes %s with the layout of %s while the pure class has its own codec' % (pa, pb), nontrivial=same)
    for name in sorted(classes):
        if name.startswith('Des') and bases.get(name, '') and bases[name].startswith('Des') and cq.has(name[3:]) and cq.has(bases[name][3:]) and own_deser(name) is None:
            chk.judge(is_sub(name[3:], bases[name][3:]), 'C07.dispatch', (DES, name, des.line(classes[name])), '%s(%s) mirrors cqltypes.%s(%s)' % (name, bases[name], name[3:], bases[name][3:]),
                      '%s inherits the codec of %s but cqltypes.%s is not a %s' % (name, bases[name], name[3:], bases[name][3:]))
    # ---- rows
    row = PyxModule(repo, ROW)
    rr = [f for n, f in row.funcs().items() if n == 'recv_results_rows']
    proto = repo.mod(PROTOCOL)
    prr = proto.func('ResultMessage.recv_results_rows')
    if len(rr) != 1:
        raise AnalysisError('row_parser.recv_results_rows not found')
    t = text_all(rr[0])
    asg = dict((text(n.lhs), text(n.rhs)) for n in walk(rr[0]) if tname(n) == 'SingleAssignmentNode')
    pasg = dict((src(n.targets[0]), src(n.value)) for n in body_walk(prr) if isinstance(n, ast.Assign))
    ok = asg.get('column_metadata') == 'self.column_metadata or result_metadata' == pasg.get('column_metadata')
    chk.judge(ok, 'C07.rows', (ROW, 'recv_results_rows', row.line(rr[0])), 'column metadata: the message\'s own, else the prepared statement\'s - on both sides', 'metadata source differs: %s vs %s' % (asg.get('column_metadata'), pasg.get('column_metadata')))
    comp = [n for n in walk(rr[0]) if tname(n) == 'ComprehensionNode']
    ctext = sorted(text_comp(c) for c in comp)
    chk.judge(ctext == sorted(['ColDesc(md[0], md[1], md[2])', 'md[2]', 'md[3]']) and "[c[2] for c in column_metadata]" in src(prr) and "[c[3] for c in column_metadata]" in src(prr) and 'ColDesc(md[0], md[1], md[2])' in src(prr),
              'C07.rows', (ROW, 'recv_results_rows', row.line(rr[0])), 'names = entry[2], types = entry[3], ColDesc(entry[0], entry[1], entry[2]) on both sides', 'per-column metadata fields differ: %s' % ctext)
    first = rr[0].body.stats[0] if tname(rr[0].body) == 'StatListNode' else None
    calls = [text(n.function) for n in walk(rr[0]) if tname(n) == 'SimpleCallNode']
    chk.judge('self.recv_results_metadata' in calls and src(prr.body[0]) == 'self.recv_results_metadata(f, user_type_map)', 'C07.rows', (ROW, 'recv_results_rows', row.line(rr[0])), 'metadata section decoded by the shared recv_results_metadata', 'metadata decoding differs')
    cph = proto.func('cython_protocol_handler')
    fr = [n for n in ast.walk(cph) if isinstance(n, ast.ClassDef) and n.name == 'FastResultMessage']
    ok = len(fr) == 1 and [src(b) for b in fr[0].bases] == ['ResultMessage'] and \
        sorted(src(st.targets[0]) for st in fr[0].body if isinstance(st, ast.Assign)) == ['code_to_type', 'recv_results_rows'] and not [st for st in fr[0].body if isinstance(st, ast.FunctionDef)]
    chk.judge(ok, 'C07.rows', cph, 'FastResultMessage is ResultMessage with only recv_results_rows replaced', 'FastResultMessage overrides more than the row decoder')
    hc = [n for n in ast.walk(cph) if isinstance(n, ast.ClassDef) and n.name == 'CythonProtocolHandler']
    ok = len(hc) == 1 and 'my_opcodes = _ProtocolHandler.message_types_by_opcode.copy()' in src(hc[0]) and 'my_opcodes[FastResultMessage.opcode] = FastResultMessage' in src(hc[0]) and \
        len([st for st in hc[0].body if isinstance(st, ast.Assign) and isinstance(st.targets[0], ast.Subscript)]) == 1
    chk.judge(ok, 'C07.rows', cph, 'the Cython handler replaces exactly the RESULT opcode entry', 'the Cython protocol handler changes other decoders')
    # ---- murmur
    murmur_pair(chk)


def text_all(node):
    return ' ; '.join(text(n.lhs) + ' = ' + text(n.rhs) if tname(n) == 'SingleAssignmentNode' else text(n.value) if tname(n) == 'ReturnStatNode' and n.value is not None else ''
                      for n in walk(node) if tname(n) in ('SingleAssignmentNode', 'ReturnStatNode'))


def text_comp(c):
    # ComprehensionNode: loop body holds the appended expression
    for n in walk(c):
        if tname(n) == 'ComprehensionAppendNode':
            return text(n.expr)
    return '?'


# ----------------------------------------------------------------------------
# murmur3: C source vs python source


def c_facts(ctext):
    body = ctext[ctext.index('MurmurHash3_x64_128'):]
    body = body[:body.index('struct module_state')]
    big = lambda s: int(s, 16)
    f = {}
    m = re.search(r'int64_t c1 = BIG_CONSTANT\((0x[0-9a-fA-F]+)\)', body)
    f['c1'] = big(m.group(1)) if m else None
    m = re.search(r'int64_t c2 = BIG_CONSTANT\((0x[0-9a-fA-F]+)\)', body)
    f['c2'] = big(m.group(1)) if m else None
    f['rot'] = [(a, int(b)) for a, b in re.findall(r'(\w+)\s*=\s*ROTL64\(\w+,\s*(\d+)\)', body)]
    f['mix'] = [(a, int(m_), int(c, 16)) for a, m_, c in re.findall(r'(h[12]) = h[12]\*(\d+)\+(0x[0-9a-fA-F]+)', body)]
    f['tail'] = [(int(case), var, int(idx), int(sh)) for case, var, idx, sh in re.findall(r'case\s+(\d+):\s*(k[12])\s*\^=\s*\(\(int64_t\)\s*\(tail\[\s*(\d+)\]\)\)\s*<<\s*(\d+);', body)]
    m = re.search(r'const\s+(\w+)\s*\*\s*tail\s*=\s*\(const\s+(\w+)\s*\*\)', body)
    f['tail_type'] = (m.group(1), m.group(2)) if m else None
    m = re.search(r'const\s+(\w+)\s*\*\s*data\s*=\s*\(const\s+(\w+)\s*\*\)key', body)
    f['data_type'] = (m.group(1), m.group(2)) if m else None
    f['switch'] = re.search(r'switch\(len & 15\)', body) is not None
    f['nblocks'] = re.search(r'nblocks = len / 16', body) is not None
    fm = ctext[ctext.index('int64_t fmix'):ctext.index('int64_t MurmurHash3_x64_128')]
    f['fmix_consts'] = [int(x, 16) for x in re.findall(r'BIG_CONSTANT\((0x[0-9a-fA-F]+)\)', fm)]
    f['fmix_shifts'] = [int(x) for x in re.findall(r'\(\(uint64_t\) k\) >> (\d+)', fm)]
    f['final'] = re.sub(r'\s+', ' ', body[body.index('// finalization'):body.index('return h1;')])
    f['seed0'] = re.search(r'uint32_t seed = 0;', ctext) is not None
    f['block_type'] = re.search(r'const int64_t \* blocks', body) is not None
    # integer promotion: an array element shifted left by 24 bits or more must have been widened to 64 bits first - a (u)int8_t promoted to int
    # and shifted into bit 31 is sign-extended when it is then widened
    narrow = []
    for m_ in re.finditer(r'(\(\s*\(?\s*(?:u?int64_t|unsigned long long|long long)\s*\)?\s*\)?\s*\(?\s*)?(\w+\s*\[[^\]]+\])\s*\)*\s*<<\s*(\d+)', ctext):
        cast, operand, amount = m_.group(1), m_.group(2), int(m_.group(3))
        widened = bool(cast and re.search(r'int64_t|long long', cast))
        if amount >= 24 and not widened:
            narrow.append('%s << %d' % (re.sub(r'\s+', '', operand), amount))
    f['narrow_shifts'] = narrow
    gb = re.search(r'int64_t\s+getblock\s*\([^)]*\)\s*\{(.*?)\}', ctext, re.S)
    f['getblock'] = re.sub(r'\s+', ' ', gb.group(1)).strip() if gb else None
    # scoping of the k1 / k2 accumulators: the tail switch xors into them, so they must still be 0 when it starts
    f['tail_zero'] = {}
    lm = re.search(r'for\s*\(\s*i\s*=\s*0\s*;\s*i\s*<\s*nblocks\s*;\s*i\+\+\s*\)\s*\{', body)
    sw = body.find('switch(len & 15)')
    if lm and sw > 0:
        depth, k = 1, lm.end()
        while k < len(body) and depth:
            depth += {'{': 1, '}': -1}.get(body[k], 0)
            k += 1
        loop_txt, pre, between = body[lm.end():k - 1], body[:lm.start()], body[k:sw]
        for var in ('k1', 'k2'):
            outer0 = re.search(r'\bint64_t\s+%s\s*=\s*0\s*;' % var, pre) is not None
            shadowed = re.search(r'\bint64_t\s+%s\s*=' % var, loop_txt) is not None
            written = re.search(r'(?<![\w.])%s\s*(?:[-+*^|&]|<<|>>)?=(?!=)' % var, loop_txt) is not None
            reset = re.search(r'(?<![\w.])%s\s*=\s*0\s*;' % var, between) is not None
            f['tail_zero'][var] = (outer0 and (shadowed or not written)) or reset
    return f


def murmur_pair(chk):
    repo = chk.repo
    ctext = repo.read(CMURMUR)
    try:
        cf = c_facts(ctext)
    except ValueError as e:
        raise AnalysisError('cmurmur3.c: expected section markers not found (%s)' % e)
    pm_cur = repo.mod(MURMUR)
    # pure implementation vs reference source by expression trees; the C source is then compared, constant by constant, with that reference
    from .. import murmur as _mm
    pm = _mm.reference_module()
    bad_len, bad_op, tc_, tr_ = _mm.compare(pm_cur, pm)
    chk.judge(not bad_len and not bad_op, 'C07.murmur', (MURMUR, '_murmur3', pm_cur.func('_murmur3').lineno),
              'murmur3.py computes the reference expression for every key length 0..48 (the C source is compared with the same reference below)',
              'the pure implementation differs from the reference for key lengths %s / operators %s: %s' %
              (bad_len[:8], bad_op[:2], _mm.first_difference(tc_[bad_len[0]], tr_[bad_len[0]]) if bad_len else ''))
    folder = Folder(pm)
    f = pm.func('_murmur3')
    consts = {}
    for st in f.body:
        if isinstance(st, ast.Assign) and isinstance(st.targets[0], ast.Name) and st.targets[0].id in ('c1', 'c2'):
            consts[st.targets[0].id] = folder.eval(st.value)
    loc = (CMURMUR, 'MurmurHash3_x64_128', 0)
    ok = cf['c1'] is not None and consts.get('c1') is not None and (consts['c1'] % 2 ** 64) == cf['c1'] and (consts['c2'] % 2 ** 64) == cf['c2']
    chk.judge(ok, 'C07.murmur', loc, 'c1, c2 equal (mod 2**64) in C and Python', 'multiplication constants differ: C %s/%s, Python %s/%s' % (cf['c1'], cf['c2'], consts.get('c1'), consts.get('c2')))
    prot = [(src(n.targets[0]), folder.eval(n.value.args[1])) for n in body_walk(f) if isinstance(n, ast.Assign) and isinstance(n.value, ast.Call) and src(n.value.func) == 'rotl64']
    # C lists body (4) + tail k2 + tail k1; python lists body (4) + tail k2 + tail k1
    chk.judge(prot == cf['rot'] and len(prot) == 6, 'C07.murmur', loc, 'rotation amounts %s equal' % prot, 'rotations differ: C %s, Python %s' % (cf['rot'], prot))
    pmix = []
    for n in body_walk(f):
        if isinstance(n, ast.Assign) and isinstance(n.value, ast.BinOp) and isinstance(n.value.op, ast.Add) and isinstance(n.value.left, ast.BinOp) and isinstance(n.value.left.op, ast.Mult):
            pmix.append((src(n.targets[0]), folder.eval(n.value.left.right), folder.eval(n.value.right)))
    chk.judge(pmix == cf['mix'] and len(pmix) == 2, 'C07.murmur', loc, 'block mix h = h*5 + const equal: %s' % [(a, b, hex(c)) for a, b, c in pmix], 'mix constants differ: C %s, Python %s' % (cf['mix'], pmix))
    fm = pm.func('fmix')
    pconst = [folder.eval(n.value) for n in body_walk(fm) if isinstance(n, ast.AugAssign) and isinstance(n.op, ast.Mult)]
    pshift = [folder.eval(x.right) for n in body_walk(fm) if isinstance(n, ast.AugAssign) and isinstance(n.op, ast.BitXor) for x in ast.walk(n.value) if isinstance(x, ast.BinOp) and isinstance(x.op, ast.RShift)]
    pmask = [folder.eval(x.right) for n in body_walk(fm) if isinstance(n, ast.AugAssign) and isinstance(n.op, ast.BitXor) for x in [n.value] if isinstance(x, ast.BinOp) and isinstance(x.op, ast.BitAnd)]
    ok = pconst == cf['fmix_consts'] and pshift == cf['fmix_shifts'] == [33, 33, 33] and pmask == [2 ** 31 - 1] * 3
    chk.judge(ok, 'C07.murmur', (MURMUR, 'fmix', fm.lineno), 'fmix: same multipliers, logical >> 33 (Python masks the 31 surviving bits)', 'fmix differs: C %s %s, Python %s %s mask %s' % (cf['fmix_consts'], cf['fmix_shifts'], pconst, pshift, pmask))
    # tail table
    ctab = {}
    for case, var, idx, sh in cf['tail']:
        ctab[case] = (var, idx, sh)
    ok = sorted(ctab) == list(range(1, 16)) and all(ctab[c] == (('k2', c - 1, (c - 9) * 8) if c >= 9 else ('k1', c - 1, (c - 1) * 8)) for c in ctab)
    chk.judge(ok and cf['switch'], 'C07.murmur', loc, 'C tail switch: case n xors tail[n-1] << 8*((n-1) mod 8) into k2 (n>8) / k1, falling through', 'C tail table is not the reference one: %s' % sorted(ctab.items()))
    # python tail loops, folded over every tail length
    loops = [n for n in f.body if isinstance(n, ast.If) and 'len_tail' in src(n.test)]
    if len(loops) != 2:
        raise AnalysisError('_murmur3: two tail blocks expected')
    bad = []
    unsigned = []
    for L in range(0, 16):
        want = set((v, i, s) for c, (v, i, s) in ctab.items() if c <= L)
        got = set()
        for blk in loops:
            if not folder.eval(blk.test, env={'len_tail': L}):
                continue
            fl = [n for n in blk.body if isinstance(n, ast.For)]
            if len(fl) != 1:
                raise AnalysisError('_murmur3: tail block without a single loop')
            rng = fl[0].iter
            idxs = list(range(*[folder.eval(a, env={'len_tail': L}) for a in rng.args]))
            upd = fl[0].body[0]
            if not (isinstance(upd, ast.AugAssign) and isinstance(upd.op, ast.BitXor) and isinstance(upd.value, ast.BinOp) and isinstance(upd.value.op, ast.LShift)):
                raise AnalysisError('_murmur3: tail update is not `k ^= <byte> << <shift>`')
            if src(upd.value.left) != 'tail[i]':
                unsigned.append(src(upd.value.left))
            for i in idxs:
                got.add((src(upd.target), i, folder.eval(upd.value.right, env={'i': i})))
        if got != want:
            bad.append((L, sorted(got ^ want)))
    chk.judge(not bad, 'C07.murmur', (MURMUR, '_murmur3', f.lineno), 'Python tail loops touch exactly the C cases (byte, shift) for every tail length 0..15', 'tail handling differs for tail lengths %s' % bad[:3])
    bt = pm_cur.func('body_and_tail')
    bt_bad, signed_py = body_tail_facts(pm_cur, bt)
    signed_py = signed_py and not unsigned
    signed_c = cf['tail_type'] == ('int8_t', 'int8_t') and cf['data_type'] == ('int8_t', 'int8_t')
    tz7 = cf.get('tail_zero') or {}
    chk.judge(sorted(tz7) == ['k1', 'k2'] and all(tz7.values()), 'C07.murmur', loc, 'C: the tail accumulators k1, k2 are still 0 when the tail switch starts (as in Python, which resets them after the block loop)',
              'the C block loop writes the function-level %s that the tail switch xors into; the Python implementation resets them: the two differ for keys longer than one block whose length is not a multiple of 16' % [v for v, o_ in sorted(tz7.items()) if not o_])
    chk.judge(not cf['narrow_shifts'] and cf['getblock'] is not None, 'C07.murmur', loc, 'C: 64-bit words are loaded whole or built from bytes widened to 64 bits before shifting (getblock: %s)' % cf['getblock'],
              'a byte is shifted left by 24 or more before being widened (%s): after integer promotion a byte >= 0x80 lands in bit 31 and is sign-extended into the upper half of the word, so keys '
              'with such a byte hash differently from the Python implementation (which unpacks little-endian signed 64-bit words)' % cf['narrow_shifts'])
    chk.judge(signed_py and signed_c, 'C07.murmur', loc, 'tail bytes are signed on both sides (int8_t* in C, struct format b and no masking in Python)',
              'tail byte signedness differs: C tail pointer %s / data pointer %s, Python %s: keys with a byte >= 0x80 in the last len %% 16 bytes hash differently'
              % (cf['tail_type'], cf['data_type'], 'signed' if signed_py else 'masks the byte (%s)' % unsigned))
    chk.judge(not bt_bad and cf['block_type'] and cf['nblocks'], 'C07.murmur', (MURMUR, 'body_and_tail', bt.lineno),
              'blocks are little-endian signed 64-bit pairs, 16 bytes each, the tail is the last len %% 16 bytes, on both sides (body_and_tail interpreted for lengths 0..48)',
              'block splitting differs: %s' % (bt_bad[:2],))
    fin = [src(st) for st in f.body if isinstance(st, (ast.AugAssign, ast.Assign, ast.Return))]
    tailseq = fin[fin.index('h1 ^= total_len'):] if 'h1 ^= total_len' in fin else []
    want = ['h1 ^= total_len', 'h2 ^= total_len', 'h1 += h2', 'h2 += h1', 'h1 = fmix(h1)', 'h2 = fmix(h2)', 'h1 += h2', 'return truncate_int64(h1)']
    cfin = 'h1 ^= len; h2 ^= len; h1 += h2; h2 += h1; h1 = fmix(h1); h2 = fmix(h2); h1 += h2;' in cf['final']
    chk.judge(tailseq == want and cfin, 'C07.murmur', loc, 'finalisation sequence equal; Python wraps to signed 64 bits', 'finalisation differs: %s' % tailseq)
    chk.judge(cf['seed0'] and src(f.body[0]) == 'h1 = h2 = 0', 'C07.murmur', loc, 'seed 0 on both sides', 'seed differs')
    chk.require('C07.murmur', 10)


def body_tail_facts(pm, bt):
    """body_and_tail interpreted for every length 0..48 -> (list of lengths whose result is not (blocks, tail bytes, length) with the
    reference struct formats / offset, whether the tail format is the signed `b`)"""
    from ..absint import Interp as _Interp, Sym as _Sym

    def _bt_effect(interp, node, c, args, kwargs, env):
        if c == ('len',) and len(args) == 1 and isinstance(args[0], _Sym) and args[0].text == 'data':
            return interp._L
        if c == ('divmod',) and len(args) == 2 and all(isinstance(a, int) for a in args):
            return divmod(*args)
        if c == ('tuple',) and not args:
            return ()
        if c == ('struct', 'unpack_from') and len(args) in (2, 3) and isinstance(args[0], str) and isinstance(args[1], _Sym) and args[1].text == 'data':
            return ('unpack', args[0], args[2] if len(args) == 3 else 0)
        return NotImplemented
    bt_bad, signed_py = [], True
    for L in range(0, 49):
        it = _Interp(pm, effect=_bt_effect)
        it._L = L
        try:
            outs_ = it.run_all(bt, {'data': _Sym('data')})
        except Exception as e_:
            raise AnalysisError('body_and_tail could not be interpreted for a %d byte key: %s' % (L, e_))
        n_, t_ = divmod(L, 16)
        for o_ in outs_:
            v_ = o_.value
            want_body = ('unpack', '<' + 'qq' * n_, 0) if n_ else ()
            ok_body = isinstance(v_, tuple) and len(v_) == 3 and (v_[0] == want_body or (not n_ and v_[0] == ('unpack', '<', 0)))
            ok_tail = isinstance(v_, tuple) and len(v_) == 3 and isinstance(v_[1], tuple) and len(v_[1]) == 3 and v_[1][0] == 'unpack' and v_[1][2] in (-t_, L - t_) and len(v_[1][1]) == t_
            if ok_tail and set(v_[1][1]) - set('b'):
                signed_py = False
            if o_.kind != 'ok' or not ok_body or not ok_tail or v_[2] != L:
                bt_bad.append((L, v_))
    return bt_bad, signed_py
