"""C29 - simple-statement parameters (narrow): every substituted value passes the encoder; textual encoders quote; siblings agree with the prepared path."""
import ast

from ..core import AnalysisError, src, body_walk, walk_no_nested, chain

ENC = 'cassandra/encoder.py'
QUERY = 'cassandra/query.py'
CQLTYPES = 'cassandra/cqltypes.py'


def check(chk):
    chk.decides = ('every value substituted by bind_params is the result of encoder.cql_encode_all_types; encoders registered for text end in cql_quote and '
                   'the dispatch fallback quotes str subclasses; collection encoders recurse through the mapping for every element; the datetime and date '
                   'literal encoders use the same instant / offset computation as the prepared-statement codecs (sibling agreement); a value-preserving type is '
                   'not routed through a lossy conversion')
    chk.does_not_decide = 'that each literal, lexed by Cassandra, denotes the same value as the prepared path sends'
    chk.rule('C29.taint', 'bind_params: dict and sequence arms substitute only encoder.cql_encode_all_types(v)')
    chk.rule('C29.quote', 'str is encoded by a function that returns cql_quote(val); the type-dispatch fallback must quote text (subclass-aware)')
    chk.rule('C29.recurse', 'collection / sequence / map encoders encode every element through self.mapping.get(type(x), self.cql_encode_object)')
    chk.rule('C29.sibling', 'cql_encode_datetime and DateType.serialize compute the instant the same way; cql_encode_date_ext uses the 2**31 day offset of SimpleDateType')
    chk.rule('C29.lossless', 'no encoder converts its value through float() (or another narrowing constructor) before formatting')
    enc = chk.repo.mod(ENC)
    q = chk.repo.mod(QUERY)
    ct = chk.repo.mod(CQLTYPES)
    bp = q.func('bind_params')
    rets = [n for n in body_walk(bp) if isinstance(n, ast.Return)]
    if len(rets) != 2:
        raise AnalysisError('bind_params: expected two return arms')
    for r in rets:
        v = r.value
        ok = isinstance(v, ast.BinOp) and isinstance(v.op, ast.Mod) and src(v.left) == 'query'
        elts = []
        if ok:
            comps = [n for n in ast.walk(v.right) if isinstance(n, (ast.GeneratorExp, ast.ListComp, ast.DictComp))]
            ok = len(comps) == 1 and len(comps[0].generators) == 1 and not comps[0].generators[0].ifs
            if ok:
                cp = comps[0]
                gen = cp.generators[0]
                over_items = src(gen.iter) == 'params.items()'
                ok = over_items or src(gen.iter) == 'params'
                if isinstance(cp, ast.DictComp):
                    key_e, val = cp.key, cp.value
                else:
                    key_e, val = (cp.elt.elts[0], cp.elt.elts[1]) if isinstance(cp.elt, ast.Tuple) and len(cp.elt.elts) == 2 else (None, cp.elt)
                if over_items:
                    ok = ok and isinstance(gen.target, ast.Tuple) and len(gen.target.elts) == 2 and key_e is not None and src(key_e) == src(gen.target.elts[0])
                    vvar = src(gen.target.elts[1]) if ok else None
                else:
                    ok = ok and key_e is None and isinstance(gen.target, ast.Name)
                    vvar = src(gen.target) if ok else None
                ok = ok and isinstance(val, ast.Call) and src(val.func) == 'encoder.cql_encode_all_types' and len(val.args) == 1 and src(val.args[0]) == vvar and not val.keywords
                # nothing but the container constructor between the comprehension and the % operator
                wrap = v.right
                ok = ok and (wrap is cp or (isinstance(wrap, ast.Call) and isinstance(wrap.func, ast.Name) and wrap.func.id in ('tuple', 'dict', 'list') and len(wrap.args) == 1 and wrap.args[0] is cp and not wrap.keywords))
        chk.judge(ok, 'C29.taint', r, 'bind_params arm: query %% (... encoder.cql_encode_all_types(v) ...)', 'a parameter reaches the statement text without passing the encoder: %s' % src(v)[:90])
    # mapping table
    init = enc.func('Encoder.__init__')
    mapping = {}
    for n in body_walk(init):
        if isinstance(n, ast.Dict):
            for k, v in zip(n.keys, n.values):
                mapping[src(k)] = src(v).replace('self.', '')
    if len(mapping) < 25:
        raise AnalysisError('Encoder mapping not recognised (%d entries)' % len(mapping))
    chk.judge(mapping.get('str') == 'cql_encode_str', 'C29.quote', init, 'str -> cql_encode_str', 'str is encoded by %s' % mapping.get('str'))
    ces = enc.func('Encoder.cql_encode_str')
    rets = [n for n in body_walk(ces) if isinstance(n, ast.Return)]
    chk.judge(len(rets) == 1 and src(rets[0].value) == 'cql_quote(val)', 'C29.quote', ces, 'cql_encode_str returns cql_quote(val)', 'text is no longer quoted/escaped')
    # fallback subclass awareness
    ceo = enc.func('Encoder.cql_encode_object')
    aware = any(isinstance(n, ast.If) and 'isinstance(val, str)' in src(n.test) and any('cql_quote(val)' in src(x) for x in n.body) for n in body_walk(ceo)) \
        or any(isinstance(n, ast.Return) and src(n.value) == 'cql_quote(val)' for n in body_walk(ceo))
    sites = [n for qn, f in enc.functions() for n in body_walk(f, nested=True) if isinstance(n, ast.Call) and src(n.func) == 'self.mapping.get'
             and len(n.args) == 2 and src(n.args[1]) == 'self.cql_encode_object' and src(n.args[0]).startswith('type(')]
    # the general form: the fallback walks the value's class hierarchy and uses the encoder of the closest supported base, so that a
    # subclass of *any* supported type (bytes, float, datetime ...) is encoded like its base and never through str()
    def _whole_mro(it):
        # type(val).__mro__ or a slice of it that starts no later than the first base
        if isinstance(it, ast.Subscript) and isinstance(it.slice, ast.Slice):
            lo = it.slice.lower
            return it.slice.upper is None and it.slice.step is None and (lo is None or (isinstance(lo, ast.Constant) and lo.value in (0, 1)))
        return isinstance(it, ast.Attribute)
    def _applied_after(lp):
        # the loop leaves with `break` once a base's encoder was found and stored in a local; that local is applied to val after the loop
        if not any(isinstance(x, ast.Break) for x in ast.walk(lp)):
            return False
        found = set(t.id for x in ast.walk(lp) if isinstance(x, ast.Assign) for t in x.targets if isinstance(t, ast.Name))
        return any(isinstance(r, ast.Return) and isinstance(r.value, ast.Call) and isinstance(r.value.func, ast.Name) and r.value.func.id in found
                   and [src(a_) for a_ in r.value.args] == ['val'] and r.lineno > lp.lineno for r in body_walk(ceo))
    mro_walk = [lp for lp in body_walk(ceo) if isinstance(lp, ast.For) and '__mro__' in src(lp.iter) and _whole_mro(lp.iter) and
                any(isinstance(x, ast.Call) and src(x.func) == 'self.mapping.get' for x in ast.walk(lp)) and
                (any(isinstance(x, ast.Return) for x in ast.walk(lp)) or _applied_after(lp))]
    aware = aware or bool(mro_walk)
    if len(sites) < 6:
        raise AnalysisError('type-dispatch sites not found (%d)' % len(sites))
    chk.judge(bool(mro_walk), 'C29.quote', ceo, 'the dispatch fallback encodes a subclass of a supported type with the encoder of that base (walk over type(val).__mro__)',
              'the fallback only special-cases str: a subclass of bytes is substituted as b\'..\' (an identifier followed by a string), a subclass of datetime as a bare '
              '2020-01-01 00:00:00, a subclass of float as inf - none of which is the literal its base type gets')
    chk.judge(aware, 'C29.quote', ceo, 'dispatch by exact type() falls back to an encoder that quotes text (%d dispatch sites)' % len(sites),
              'dispatch looks parameters up by exact type and falls back to str(val): a subclass of str is inlined unquoted and can change the statement\'s structure')
    # textual encoders that build quoted literals from arbitrary text
    for name in ('cql_encode_str_quoted', 'cql_encode_time', 'cql_encode_date', 'cql_encode_ipaddress'):
        f = enc.func('Encoder.%s' % name)
        rets = [n for n in body_walk(f) if isinstance(n, ast.Return)]
        chk.judge(len(rets) == 1 and src(rets[0].value).startswith('"\'%s\'" %'), 'C29.quote', f, '%s wraps its (non user-text) value in single quotes' % name, '%s changed: %s' % (name, src(rets[0].value) if rets else None), nontrivial=False)
    # recursion
    for name in ('cql_encode_sequence', 'cql_encode_map_collection', 'cql_encode_list_collection', 'cql_encode_set_collection'):
        f = enc.func('Encoder.%s' % name)
        calls = [n for n in body_walk(f, nested=True) if isinstance(n, ast.Call) and isinstance(n.func, ast.Call) and src(n.func.func) == 'self.mapping.get']
        want = 2 if 'map' in name else 1
        good = len(calls) == want and all(len(c.args) == 1 and src(c.func.args[0]) == 'type(%s)' % src(c.args[0]) for c in calls)
        strs = [n for n in body_walk(f, nested=True) if isinstance(n, ast.Call) and isinstance(n.func, ast.Name) and n.func.id in ('str', 'repr')]
        chk.judge(good and not strs, 'C29.recurse', f, '%s encodes each element through the mapping by its own type' % name, 'elements of a collection bypass the encoder mapping')
    cat = enc.func('Encoder.cql_encode_all_types')
    chk.judge('self.mapping.get(type(val), self.cql_encode_object)(val)' in src(cat), 'C29.recurse', cat, 'cql_encode_all_types dispatches through the mapping', 'top-level dispatch changed')
    # siblings
    ced = enc.func('Encoder.cql_encode_datetime')
    ds = ct.func('DateType.serialize')

    def instant_shape(f):
        tg = [n for n in body_walk(f) if isinstance(n, ast.Call) and src(n.func) == 'calendar.timegm']
        utc = [src(t.args[0].func).split('.')[-1] for t in tg if t.args and isinstance(t.args[0], ast.Call)]
        scale = any(isinstance(n, ast.BinOp) and isinstance(n.op, ast.Mult) and src(n.right) == '1000.0' for n in body_walk(f))
        micro = any(isinstance(n, ast.BinOp) and isinstance(n.op, ast.Div) and 'microsecond' in src(n.left) and src(n.right) == '1000.0' for n in body_walk(f))
        return utc, scale, micro
    a, b = instant_shape(ced), instant_shape(ds)
    chk.judge(a[0] == ['utctimetuple'] and a[1] and a[2] and b[0][:1] == ['utctimetuple'] and b[1] and b[2], 'C29.sibling', ced,
              'datetime literal and timestamp codec: calendar.timegm(x.utctimetuple()) * 1e3 + microsecond / 1e3',
              'the literal encoder computes the instant with %s (codec: %s): an aware datetime with a non-zero offset is written shifted by that offset' % (a, b))
    cde = enc.func('Encoder.cql_encode_date_ext')
    chk.judge('val.days_from_epoch + 2 ** 31' in src(cde), 'C29.sibling', cde, 'Date literal = days_from_epoch + 2**31 (SimpleDateType offset)', 'date literal offset changed')
    # lossless
    dec = enc.func('Encoder.cql_encode_decimal')
    lossy = [src(n) for n in body_walk(dec) if isinstance(n, ast.Call) and isinstance(n.func, ast.Name) and n.func.id in ('float', 'int', 'round')]
    chk.judge(not lossy, 'C29.lossless', dec, 'cql_encode_decimal formats the Decimal itself', 'Decimal is converted with %s before formatting: values with more than 17 significant digits are silently rounded' % lossy)
    for name, f in enc.functions():
        if name.startswith('Encoder.cql_encode_') and name not in ('Encoder.cql_encode_decimal', 'Encoder.cql_encode_datetime'):
            lossy = [src(n) for n in body_walk(f) if isinstance(n, ast.Call) and isinstance(n.func, ast.Name) and n.func.id in ('float', 'round') and n.args and src(n.args[0]) == 'val']
            chk.judge(not lossy, 'C29.lossless', f, '%s does not narrow its value' % name, 'value narrowed with %s' % lossy, nontrivial=False)

    # ---- the user's statements are encoded with the session's encoder (the one carrying the session's type mappings: tuples, registered UDTs)
    chk.rule('C29.encoder', 'parameters of user statements are substituted with the session\'s encoder; a private Encoder() only where no session is known')
    qm = chk.repo.mod('cassandra/query.py')
    cm_ = chk.repo.mod('cassandra/cluster.py')
    from ..cfg import CFG as _CFG, Flow as _Flow
    n_bp = 0
    for m_, qual in ((qm, 'BatchStatement.add'), (cm_, 'Session._create_response_future')):
        f = m_.func(qual)
        g = _CFG(f)
        fl = _Flow(g, 0, lambda n, c: c)
        for nd in g.stmt_nodes():
            if nd.kind != 'stmt' or nd.ast is None:
                continue
            for c in walk_no_nested(nd.ast):
                if not (isinstance(c, ast.Call) and src(c.func) == 'bind_params' and len(c.args) == 3):
                    continue
                n_bp += 1
                enc = c.args[2]
                # resolve a local through its definitions in this function
                exprs = [enc]
                if isinstance(enc, ast.Name):
                    exprs = [a.value for a in body_walk(f) if isinstance(a, ast.Assign) and any(isinstance(t, ast.Name) and t.id == enc.id for t in a.targets)] or [enc]
                ok = True
                why = ''
                for e in exprs:
                    arms = [e]
                    if isinstance(e, ast.IfExp):
                        # `Encoder() if self._session is None else self._session.encoder`
                        k = src(e.test)
                        arms = []
                        for arm, pol in ((e.body, True), (e.orelse, False)):
                            if isinstance(arm, ast.Call) and src(arm.func) == 'Encoder':
                                from ..guards import normalise_atom
                                key, flip = normalise_atom(e.test)
                                if not (key in ('self._session is None', 'session is None') and (pol != flip)):
                                    ok, why = False, 'a fresh Encoder() is used although a session may be known (%s)' % src(e)
                            else:
                                arms.append(arm)
                    for arm in arms:
                        t = src(arm)
                        if isinstance(arm, ast.Call) and src(arm.func) == 'Encoder':
                            sts = list(fl.at(nd))
                            if not (sts and all(fa.knows('self._session is None') is True for fa, _c in sts)):
                                ok, why = False, 'a fresh Encoder() is used although a session may be known'
                        elif not t.endswith('.encoder'):
                            ok, why = False, 'encoder argument is %s' % t
                chk.judge(ok, 'C29.encoder', c, '%s: bind_params(..., %s) uses the session encoder' % (qual, src(enc)),
                          '%s: a SimpleStatement\'s parameters are encoded without the session\'s type mappings - a tuple becomes a list literal and a registered '
                          'user type instance is substituted as its repr(), which is not a CQL term' % why)
    if n_bp < 2:
        raise AnalysisError('C29.encoder: bind_params call sites in BatchStatement.add / Session._create_response_future not found (%d)' % n_bp)
