"""C13 - replacing an overloaded connection never abandons live requests."""
import ast

from ..core import AnalysisError, chain, src, body_walk, walk_no_nested, qual_of, parent
from ..cfg import CFG, Flow
from ..guards import normalise_atom
from ..locks import held, holds

POOL = 'cassandra/pool.py'
CLUSTER = 'cassandra/cluster.py'

# every connection.close() in pool.py, classified.  'drain' sites must be dominated by the drained predicate.
CLOSE_SITES = {
    'HostConnection.return_connection': 'drain',
    'HostConnection._replace': 'drain-or-new',
    'HostConnection.shutdown': 'shutdown',
    'HostConnectionPool.return_connection': 'drain',
    'HostConnectionPool._maybe_trash_connection': 'drain',
    'HostConnectionPool._replace': 'failed',         # the connection is defunct/closed already
    'HostConnectionPool.shutdown': 'shutdown',
    'HostConnectionPool._add_conn_if_under_max': 'new',
    'HostConnection.__init__': 'new',               # the constructor failed: the pool was never visible, its connections carry no request
    'HostConnectionPool.__init__': 'new',
    '_ReconnectionHandler.run': 'probe',
    '_HostReconnectionHandler.on_exception': 'other',
}


def check(chk):
    chk.decides = ('a pooled connection that is in the trash or past the orphan threshold is closed only under the drained predicate (in_flight == '
                   'number of orphaned streams / == 0), evaluated under the connection lock; the trash check in return_connection is reached for '
                   'orphaned and normal returns alike; _is_replacing is set before a replacement is submitted and reset when it completes; new borrows '
                   'avoid a replaced-and-closed connection; a connection past the threshold that still has live requests goes to the trash')
    chk.does_not_decide = 'interleavings of orphaning, replacement, responses and borrows'
    chk.rule('C13.drained', 'close() of a trashed / over-threshold connection is dominated by the drained predicate under connection.lock')
    chk.rule('C13.reach', 'the trash-drain check in return_connection is reached whether or not the stream was orphaned')
    chk.rule('C13.replace', '_is_replacing: test-and-set under the pool lock before submitting _replace; reset on completion; over-threshold connection with live requests is kept in _trash')
    chk.rule('C13.borrow', 'borrow refuses a connection that is past the threshold and closed, and re-fetches the current one')
    chk.rule('C13.sites', 'every connection close() in pool.py is one of the classified sites')
    # the drained predicate compares in_flight with the number of orphaned streams: it is only as good as the count
    chk.rule('C13.inflight', 'in_flight is lowered by a return only on a path that raised it (shared with C12.paired): otherwise the drained predicate holds while a request is still awaiting its response')
    chk.borrow('C12', {'C12.paired': 'C13.inflight'}, 'with in_flight one too low the replaced connection is closed under a live request')
    pool = chk.repo.mod(POOL)

    # ---- classify close sites
    seen = {}
    for q, f in pool.functions():
        for n in body_walk(f):
            if isinstance(n, ast.Call) and isinstance(n.func, ast.Attribute) and n.func.attr == 'close' and not n.args:
                r = src(n.func.value)
                if r in ('self', 'self._socket'):
                    continue
                seen.setdefault(q, []).append(n)
    for q, calls in sorted(seen.items()):
        chk.judge(q in CLOSE_SITES, 'C13.sites', calls[0], '%s closes a connection (%s)' % (q, CLOSE_SITES.get(q, '?')),
                  '%s closes a pooled connection but is not a known close site: it must hold the drained predicate or be a shutdown/failed-connection path' % q)
    for q in [k for k, v in CLOSE_SITES.items() if v in ('drain', 'drain-or-new')]:
        if q not in seen:
            raise AnalysisError('close site %s vanished' % q)

    # ---- drained predicate dominates
    preds = {'HostConnection': 'connection.in_flight == len(connection.orphaned_request_ids)', 'HostConnectionPool': 'connection.in_flight == 0'}
    for q, kind in sorted(CLOSE_SITES.items()):
        if kind not in ('drain', 'drain-or-new'):
            continue
        f = pool.func(q)
        g = CFG(f)
        fl = Flow(g, 0, lambda n, c: c)
        pred = preds[q.split('.')[0]]
        for call in seen[q]:
            if src(call.func.value) != 'connection':
                continue      # the new connection (conn.close()) is not the one being drained
            nd = [n for n in g.stmt_nodes() if n.kind == 'stmt' and call in list(walk_no_nested(n.ast))]
            if not nd:
                raise AnalysisError('%s: close() not in CFG' % q)
            ok = True
            for facts, _ in fl.at(nd[0]):
                # (a pool that is shut down closes everything it still holds: that is not "closed while a request is waiting" in the sense of the property)
                if facts.knows(pred) is not True and facts.knows('self.is_shutdown') is not True:
                    ok = False
            locked = holds(call, ('connection',))
            # the predicate itself must be evaluated under the lock
            tests = [n for n in body_walk(f) if isinstance(n, ast.If) and src(n.test) in (pred, 'self.is_shutdown or %s' % pred)]
            tlocked = bool(tests) and all(holds(t, ('connection',)) for t in tests)
            chk.judge(ok and tlocked, 'C13.drained', call, '%s: connection.close() only when %s (under connection.lock)' % (q, pred),
                      'the old connection can be closed while a non-orphaned request on it still awaits its response'
                      + ('' if tlocked else ' (predicate not evaluated under connection.lock)'))
    chk.require('C13.drained', 4)
    # same predicate at both v3-pool sites, same at both legacy sites (sibling agreement)
    for cls, sites in (('HostConnection', ('HostConnection.return_connection', 'HostConnection._replace')),
                       ('HostConnectionPool', ('HostConnectionPool.return_connection', 'HostConnectionPool._maybe_trash_connection'))):
        ps = set()
        for q in sites:
            f = pool.func(q)
            for n in body_walk(f):
                if isinstance(n, ast.If) and 'connection.in_flight' in src(n.test) and '==' in src(n.test):
                    t_ = src(n.test)
                    ps.add(t_[len('self.is_shutdown or '):] if t_.startswith('self.is_shutdown or ') else t_)
        chk.judge(ps == set([preds[cls]]), 'C13.drained', pool.func(sites[0]), '%s: both close sites use the predicate %s' % (cls, preds[cls]),
                  'sibling close sites use different drained predicates: %s' % sorted(ps))

    # ---- trash check reached for both kinds of return
    for cls in ('HostConnection', 'HostConnectionPool'):
        f = pool.func('%s.return_connection' % cls)
        g = CFG(f)
        fl = Flow(g, 0, lambda n, c: c)
        tests = [n for n in g.nodes if n.kind == 'test' and src(n.ast) == 'connection in self._trash' and not held(n.ast)]
        if not tests:
            raise AnalysisError('%s.return_connection: trash test not found' % cls)
        pol = set()
        for t in tests:
            for facts, _ in fl.at(t):
                pol.add(facts.knows('stream_was_orphaned'))
        if cls == 'HostConnection':
            good = True in pol and False in pol
        else:
            good = (True in pol and False in pol) or pol == set([None]) or (None in pol)
        chk.judge(good, 'C13.reach', f, '%s.return_connection: trash check reached for orphaned and for normal returns' % cls,
                  'the trash-drain check is only reached when stream_was_orphaned is %s: if the last live request on a replaced connection ends by client '
                  'timeout the connection is never closed' % sorted(str(p) for p in pol))

    # ---- replacing flag
    bc = pool.func('HostConnection.borrow_connection')
    rc = pool.func('HostConnection.return_connection')
    rp = pool.func('HostConnection._replace')
    for f in (bc, rc):
        subs = [n for n in body_walk(f) if isinstance(n, ast.Call) and src(n.func) == 'self._session.submit' and n.args and src(n.args[0]) == 'self._replace']
        if not subs:
            raise AnalysisError('%s: submit(self._replace) not found' % qual_of(f))
        for s_ in subs:
            blk = parent(parent(s_))     # Expr -> enclosing block owner
            locked = holds(s_, ('self',), '_lock')
            g = CFG(f)

            def step_r(node, c):
                if node.kind == 'stmt' and isinstance(node.ast, ast.Assign) and src(node.ast.targets[0]) == 'self._is_replacing' and src(node.ast.value) == 'True':
                    return 'set' if c == 'tested' else 'set-untested'
                return c

            def edge_r(node, succ, lab, c):
                if lab is not None and lab[0] in ('T', 'F') and src(lab[1]) == 'self._is_replacing':
                    return 'tested' if lab[0] == 'F' else 'already'
                return c
            fl = Flow(g, 'none', step_r, edge=edge_r)
            nd = [n for n in g.stmt_nodes() if n.kind == 'stmt' and s_ in list(walk_no_nested(n.ast))][0]
            tested = all(c == 'set' for _fa, c in fl.at(nd))
            # the flag is set on the same path before the submit
            region = [w for l, w in held(s_) if l == ('self', '_lock')]
            sets = region and any(isinstance(x, ast.Assign) and src(x.targets[0]) == 'self._is_replacing' and src(x.value) == 'True' for x in ast.walk(region[0]))
            chk.judge(locked and tested and sets, 'C13.replace', s_, '%s: _replace submitted once (test-and-set of _is_replacing under self._lock)' % qual_of(f),
                      'a replacement can be submitted twice, or without the pool lock')
    s = src(rp)
    resets = [n for n in body_walk(rp) if isinstance(n, ast.Assign) and src(n.targets[0]) == 'self._is_replacing' and src(n.value) == 'False']
    chk.judge(len(resets) == 1 and holds(resets[0], ('self',), '_lock'), 'C13.replace', rp, '_replace resets _is_replacing under the pool lock on success',
              '_is_replacing is never reset (no further replacement possible) or reset outside the lock')
    # over-threshold connection with live requests goes to the trash
    g = CFG(rp)
    fl = Flow(g, 0, lambda n, c: c)
    adds = [n for n in g.stmt_nodes() if n.kind == 'stmt' and src(n.ast) == 'self._trash.add(connection)']
    ok = bool(adds) and all(fa.knows('connection.orphaned_threshold_reached') is True and fa.knows(preds['HostConnection']) is False for a in adds for fa, _ in fl.at(a))
    chk.judge(ok, 'C13.replace', rp, '_replace: over-threshold connection with live requests is kept in _trash', 'a replaced connection with live requests is neither closed later nor tracked')
    chk.judge('self._stream_available_condition.notify()' in s, 'C13.replace', rp, '_replace wakes waiting borrowers', 'borrowers waiting for the replacement are not woken')
    # ---- borrow avoids the replaced-and-closed connection
    g = CFG(bc)
    fl = Flow(g, 0, lambda n, c: c)
    rets = [n for n in g.stmt_nodes() if n.kind == 'return']
    ok = bool(rets)
    for r in rets:
        for fa, _ in fl.at(r):
            a = fa.knows('conn.orphaned_threshold_reached')
            b = fa.knows('conn.is_closed')
            if not (a is False or b is False):
                ok = False
    chk.judge(ok, 'C13.borrow', bc, 'borrow hands out conn only when not (orphaned_threshold_reached and is_closed)', 'a replaced-and-closed connection can be handed out')
    s = src(bc)
    chk.judge('conn = self._get_connection()' in s and s.count('self._get_connection()') >= 2, 'C13.borrow', bc,
              'borrow re-fetches the current connection once the old one is closed', 'waiters keep spinning on the closed connection')
    cl = chk.repo.mod(CLUSTER)
    ot = cl.func('ResponseFuture._on_timeout')
    so = src(ot)
    chk.judge('len(self._connection.orphaned_request_ids) >= self._connection.orphaned_threshold' in so and 'self._connection.orphaned_threshold_reached = True' in so,
              'C13.replace', ot, 'orphaning past the threshold marks the connection for replacement', 'threshold marking changed')

    # a trashed connection whose last live request ends by a client timeout is re-examined because _on_timeout always returns it to its pool
    chk.rule('C13.recheck', 'every way a request leaves a connection (answer, timeout) reaches the pool\'s return_connection, which closes a drained trashed connection')
    chk.borrow('C09', {'C09.orphan': 'C13.recheck'}, 'the pool is not told about the orphaned stream, so a trashed connection that has only orphans left is never closed')

    # a connection marked for replacement stays marked: _replace reads the mark after it installed the successor to decide between close and trash
    chk.rule('C13.sticky', 'orphaned_threshold_reached is only ever raised (class default False, set True by _on_timeout); nothing lowers it again')
    from .c09 import attr_writes as _aw13
    n_w = 0
    for rel in ('cassandra/cluster.py', 'cassandra/connection.py', 'cassandra/pool.py'):
        mm = chk.repo.mod(rel)
        for st, tgt, f_ in _aw13(mm, 'orphaned_threshold_reached'):
            n_w += 1
            v = st.value if isinstance(st, (ast.Assign, ast.AugAssign, ast.AnnAssign)) else None
            raised = isinstance(st, ast.Assign) and isinstance(v, ast.Constant) and v.value is True
            chk.judge(raised, 'C13.sticky', st, '%s: %s' % (qual_of(f_) if f_ is not None else rel, src(st)),
                      'the replacement mark is lowered again (%s): if a late response brings the orphan count back under the threshold after a replacement was requested, _replace finds the '
                      'mark cleared and neither closes nor trashes the old connection - it stays open for ever, also after pool.shutdown()' % src(st))
    if n_w < 1:
        raise AnalysisError('C13.sticky: no writer of orphaned_threshold_reached found')

    # the heartbeat's OPTIONS request is a stream too: when its answer arrives the owning pool re-examines the connection
    chk.rule('C13.heartbeat', 'ConnectionHeartbeat.run: after giving the heartbeat\'s stream back (in_flight -= 1) a pooled connection is handed to owner.return_connection on every path')
    cm = chk.repo.mod('cassandra/connection.py')
    run = cm.func('ConnectionHeartbeat.run')
    g = CFG(run)
    decs = [n for n in g.stmt_nodes() if n.kind == 'stmt' and isinstance(n.ast, ast.AugAssign) and isinstance(n.ast.op, ast.Sub) and src(n.ast.target).endswith('.in_flight')]
    if len(decs) != 1:
        raise AnalysisError('ConnectionHeartbeat.run: the heartbeat stream release (in_flight -= 1) was not found (%d)' % len(decs))
    cname = src(decs[0].ast.target).rsplit('.', 1)[0]

    def is_return(n):
        return n.kind == 'stmt' and any(isinstance(c, ast.Call) and isinstance(c.func, ast.Attribute) and c.func.attr == 'return_connection' and c.args and src(c.args[0]) in (cname, 'f.connection')
                                        for c in ast.walk(n.ast))
    seen, work, escapes = set(), [(x, lab) for x, lab in decs[0].succ], []
    while work:
        n, lab = work.pop()
        if lab and lab[0] == 'exc':
            continue    # the failure arm defuncts and returns the connection itself (C10 / C12)
        if n.id in seen:
            continue
        seen.add(n.id)
        if is_return(n):
            continue
        if n.kind in ('for_iter', 'exit'):
            escapes.append(n)
            continue
        for x, l2 in n.succ:
            if n.kind == 'test' and l2 and src(n.ast) in ('%s.is_control_connection' % cname, 'not %s.is_control_connection' % cname):
                pos = not src(n.ast).startswith('not ')
                if (l2[0] == 'T') == pos:
                    continue        # the control connection has no pool and no trash
            work.append((x, l2))
    chk.judge(not escapes, 'C13.heartbeat', decs[0].ast, 'heartbeat answered: in_flight -= 1, then owner.return_connection(%s, ...) for a pooled connection' % cname,
              'the heartbeat gives its stream back by decrementing in_flight directly and the pool is never asked to look at the connection again: a connection that was replaced '
              'while the heartbeat was out stays in _trash, open, with only orphaned streams left, until the pool is shut down')

