"""C10 - a failed connection fails every pending request exactly once."""
import ast

from ..core import AnalysisError, chain, src, body_walk, walk_no_nested, decorators, qual_of
from ..cfg import CFG, Flow
from ..locks import held, holds
from ..sem import resolve as _resolve

CONN = 'cassandra/connection.py'
REACTORS = {
    'cassandra/io/asyncorereactor.py': 'AsyncoreConnection',
    'cassandra/io/libevreactor.py': 'LibevConnection',
    'cassandra/io/asyncioreactor.py': 'AsyncioConnection',
    'cassandra/io/twistedreactor.py': 'TwistedConnection',
    'cassandra/io/geventreactor.py': 'GeventConnection',
    'cassandra/io/eventletreactor.py': 'EventletConnection',
}
HANDLERS = ['Connection._read_frame_header', 'Connection._process_segment_buffer', 'Connection.process_msg',
            'Connection._send_options_message', 'Connection._handle_options_response', 'Connection._send_startup_message',
            'Connection._handle_startup_response', 'Connection._handle_auth_response']


def calls_in_order(func, names):
    """positions (statement index in a flattened walk) of the first call of each name."""
    pos = {}
    i = 0
    for n in body_walk(func):
        i += 1
        if isinstance(n, ast.Call):
            f = src(n.func)
            for nm in names:
                if f == nm and nm not in pos:
                    pos[nm] = i
        if isinstance(n, ast.Assign):
            t = src(n.targets[0])
            for nm in names:
                if t == nm and nm not in pos:
                    pos[nm] = i
    return pos


def latch_ok(func, flag, also=()):
    """`with self.lock: if <flag> [or ...]: return; <flag> = True` at the top of func."""
    for st in func.body:
        if isinstance(st, ast.Expr) and isinstance(st.value, ast.Constant):
            continue
        if not isinstance(st, ast.With) or 'self.lock' not in [src(i.context_expr) for i in st.items]:
            return False, 'the first statement is not `with self.lock:`'
        tests = [n for n in st.body if isinstance(n, ast.If)]
        sets = [n for n in st.body if isinstance(n, ast.Assign) and src(n.targets[0]) == flag and isinstance(n.value, ast.Constant) and n.value.value is True]
        if not tests or not sets:
            return False, 'no test-and-set of %s inside the lock region' % flag
        t = tests[0]
        names = set(src(v) for v in (t.test.values if isinstance(t.test, ast.BoolOp) and isinstance(t.test.op, ast.Or) else [t.test]))
        if flag not in names or not any(isinstance(x, ast.Return) for x in t.body):
            return False, 'the early return does not test %s' % flag
        for a in also:
            if a not in names:
                return False, 'the latch does not also test %s' % a
        if st.body.index(t) > st.body.index(sets[0]):
            return False, 'flag set before it is tested'
        return True, ''
    return False, 'empty function'


def check(chk):
    chk.decides = ('defunct() and every reactor close() are test-and-set latches under the connection lock; after the latch defunct() reaches '
                   'last_error, close(), error_all_cp_sessions, error_all_requests and connected_event.set() on every path; error_all_requests swaps the '
                   'request table out under the lock, drains the saved copy and shields each callback; send_msg refuses on a defunct/closed connection; '
                   'the event-loop handlers are wrapped by defunct_on_error; a decode failure fails its own callback and defuncts')
    chk.does_not_decide = 'the race between the unlocked is_defunct test in send_msg and a concurrent defunct(); thread interleavings in general'
    chk.rule('C10.latch', 'defunct()/close() test-and-set their flag under self.lock and return early the second time')
    chk.rule('C10.defunct', 'after the latch, defunct reaches: last_error = exc, close(), error_all_cp_sessions(exc), error_all_requests(exc), connected_event.set(), in that order, on every path')
    chk.rule('C10.swap', 'error_all_requests: under the lock the table is saved and replaced by a fresh empty one; every saved callback is invoked once, inside try/except')
    chk.rule('C10.close', 'every reactor close(): latch, then when not defunct error_all_requests(ConnectionShutdown)')
    chk.rule('C10.refuse', 'send_msg raises ConnectionShutdown on a defunct or closed connection before registering anything')
    chk.rule('C10.wrap', 'handlers that run on the event loop are decorated with defunct_on_error')
    chk.rule('C10.decode', 'a response that fails to decode fails its own (already popped) callback once and defuncts the connection')
    conn = chk.repo.mod(CONN)

    # ---- defunct
    df = conn.func('Connection.defunct')
    ok, why = latch_ok(df, 'self.is_defunct', also=('self.is_closed',))
    chk.judge(ok, 'C10.latch', df, 'defunct: latch on is_defunct (and is_closed) under self.lock', why)
    g = CFG(df)
    want = ['self.last_error', 'self.close', 'self.error_all_cp_sessions', 'self.error_all_requests', 'self.connected_event.set']

    def step(node, c):
        if node.ast is not None and node.kind in ('stmt', 'return'):
            for n in walk_no_nested(node.ast):
                key = None
                if isinstance(n, ast.Call) and src(n.func) in want:
                    key = src(n.func)
                elif isinstance(n, ast.Assign) and src(n.targets[0]) in want:
                    key = src(n.targets[0])
                if key and key not in c:
                    c = c + (key,)
        return c
    fl = Flow(g, (), step)
    bad = []
    for facts, c in fl.at(g.exit):
        if 'self.is_defunct' in ''.join(k for k, p in facts.items if p) or (facts.knows('self.is_defunct') is True or facts.knows('self.is_closed') is True):
            continue    # the early return of the latch
        if list(c) != want:
            bad.append(c)
    chk.judge(not bad, 'C10.defunct', df, 'defunct reaches %s in order' % ', '.join(w.split('.', 1)[1] for w in want),
              'after setting is_defunct a path reaches only %s' % (list(bad[0]) if bad else ''))
    for w in want[1:4]:
        calls = [n for n in body_walk(df) if isinstance(n, ast.Call) and src(n.func) == w]
        if w != 'self.close':
            chk.judge(len(calls) == 1 and len(calls[0].args) == 1 and src(calls[0].args[0]) == 'exc', 'C10.defunct', df, '%s(exc)' % w,
                      '%s is not called with the failure' % w)

    # ---- error_all_requests
    ear = conn.func('Connection.error_all_requests')
    first = [st for st in ear.body if not (isinstance(st, ast.Expr) and isinstance(st.value, ast.Constant))][0]
    saved = None
    swapped = False
    if isinstance(first, ast.With) and 'self.lock' in [src(i.context_expr) for i in first.items]:
        for st in first.body:
            if isinstance(st, ast.Assign) and src(st.value) == 'self._requests' and isinstance(st.targets[0], ast.Name):
                saved = st.targets[0].id
            if isinstance(st, ast.Assign) and src(st.targets[0]) == 'self._requests' and saved is not None:
                v = st.value
                swapped = (isinstance(v, ast.Dict) and not v.keys) or (isinstance(v, ast.Call) and src(v.func) == 'dict' and not v.args)
    chk.judge(saved is not None and swapped, 'C10.swap', ear, 'under self.lock: saved = self._requests; self._requests = {}',
              'the pending-request table is %s: callbacks stay registered on the dead connection and can be invoked again by a later response'
              % ('copied but never replaced by an empty table' if not swapped else 'not saved'))
    if saved:
        # drains iterate the saved copy, never self._requests
        uses_attr = [n for st in ear.body[1:] for n in ast.walk(st) if isinstance(n, ast.Attribute) and n.attr == '_requests']
        chk.judge(not uses_attr, 'C10.swap', ear, 'drain uses the saved table only', 'the drain reads self._requests (just replaced) instead of the saved table')
        # a "shielded invocation" of a callback: cb(<error>) inside try/except Exception - written in place, in a local closure, or in a method of the class
        def _shield_body(stmts, param):
            for x in stmts:
                if isinstance(x, ast.Try) and any(h.type is None or src(h.type) in ('Exception', 'BaseException') for h in x.handlers):
                    if any(isinstance(c_, ast.Call) and isinstance(c_.func, ast.Name) and c_.func.id == param for st_ in x.body for c_ in ast.walk(st_)):
                        return True
            return False
        shields = {}
        for fn_ in [n for n in body_walk(ear) if isinstance(n, ast.FunctionDef)]:
            ps = [a.arg for a in fn_.args.args]
            if ps and _shield_body(fn_.body, ps[0]):
                shields[fn_.name] = 0
        for q_, fn_ in conn.functions():
            if q_.startswith('Connection.') and q_.count('.') == 1:
                ps = [a.arg for a in fn_.args.args][1:]
                if ps and _shield_body(fn_.body, ps[0]):
                    shields['self.' + fn_.name] = 0

        shield_defs = [fn_ for fn_ in body_walk(ear) if isinstance(fn_, ast.FunctionDef) and fn_.name in shields]
        in_shield = set(id(x) for fn_ in shield_defs for x in ast.walk(fn_))

        def _shielded_calls(root, var, nested=True):
            """shielded invocations of callback variable `var` below root (the bodies of the shielding helpers themselves excluded)"""
            return [c_ for c_ in _shielded_calls0(root, var) if id(c_) not in in_shield]

        def _shielded_calls0(root, var):
            out = []
            for x in (body_walk(root, nested=True) if isinstance(root, (ast.FunctionDef, ast.AsyncFunctionDef)) else ast.walk(root)):
                if isinstance(x, ast.Call) and src(x.func) in shields and x.args and src(x.args[0]) == var:
                    out.append(x)
                if isinstance(x, ast.Try) and any(h.type is None or src(h.type) in ('Exception', 'BaseException') for h in x.handlers):
                    for st_ in x.body:
                        for c_ in ast.walk(st_):
                            if isinstance(c_, ast.Call) and isinstance(c_.func, ast.Name) and c_.func.id == var:
                                out.append(c_)
            return out
        pops = [n for n in body_walk(ear) if isinstance(n, ast.Call) and src(n.func) == '%s.popitem' % saved]
        loops = [n for n in body_walk(ear, nested=True) if isinstance(n, ast.For) and src(n.iter) in ('%s.values()' % saved, '%s.items()' % saved)]
        loop_ok = bool(loops)
        for l in loops:
            tg = l.target
            cbv = src(tg.elts[0]) if isinstance(tg, ast.Tuple) and src(l.iter).endswith('.values()') else None
            if isinstance(tg, ast.Tuple) and src(l.iter).endswith('.items()') and len(tg.elts) == 2 and isinstance(tg.elts[1], ast.Tuple):
                cbv = src(tg.elts[1].elts[0])
            loop_ok = loop_ok and cbv is not None and len(_shielded_calls(l, cbv)) == 1
        chk.judge(loop_ok, 'C10.swap', ear, 'every remaining saved callback is invoked once, shielded by try/except', 'the saved callbacks are not each invoked exactly once (the first one is popped from the saved table before the others are walked): a callback is skipped or runs twice')
        pop_ok = len(pops) <= 1
        if pops:
            pst = [st for st in ear.body if any(x is pops[0] for x in ast.walk(st))]
            pv = None
            if pst and isinstance(pst[0], ast.Assign) and isinstance(pst[0].targets[0], ast.Tuple):
                tg0, v0 = pst[0].targets[0], pst[0].value
                if isinstance(v0, ast.Subscript) and src(v0.slice) == '1':                    # cb, _, _ = saved.popitem()[1]
                    pv = src(tg0.elts[0])
                elif v0 is pops[0] and len(tg0.elts) == 2 and isinstance(tg0.elts[1], ast.Tuple):  # _, (cb, _, _) = saved.popitem()
                    pv = src(tg0.elts[1].elts[0])
            outside_loops = [c_ for c_ in _shielded_calls(ear, pv) if not any(any(c_ is y for y in ast.walk(l)) for l in loops)] if pv else []
            pop_ok = pv is not None and len(outside_loops) == 1
        chk.judge(pop_ok, 'C10.swap', ear, 'the callback removed with popitem() is invoked too (once)',
                  'a callback popped from the saved table is dropped without being invoked (or invoked twice)')
        all_calls = [c_ for c_ in body_walk(ear, nested=True) if isinstance(c_, ast.Call) and ((isinstance(c_.func, ast.Name) and c_.func.id in ('cb',)) or src(c_.func) in shields)]
        chk.judge(bool(all_calls), 'C10.swap', ear, 'each callback runs inside try/except', 'a raising callback would stop the remaining requests from being failed')
        chk.judge('ConnectionShutdown(' in src(ear), 'C10.swap', ear, 'callbacks receive a ConnectionShutdown', 'callbacks no longer receive a connection error')
    cps = conn.func('Connection.error_all_cp_sessions')
    # a loop over a snapshot of the session table (list / tuple of the dict, its keys, values or items - not the live dict), calling on_error(exc) on each session
    from ..sem import resolve as _res10
    loops_cp = [n for n in body_walk(cps) if isinstance(n, ast.For)]
    ok_cp = False
    for lp_ in loops_cp:
        it_ = _res10(cps, lp_.iter)
        snap = isinstance(it_, ast.Call) and src(it_.func) in ('list', 'tuple') and len(it_.args) == 1 and src(it_.args[0]) in (
            'self._continuous_paging_sessions', 'self._continuous_paging_sessions.keys()', 'self._continuous_paging_sessions.values()', 'self._continuous_paging_sessions.items()')
        calls_ = [c_ for c_ in ast.walk(lp_) if isinstance(c_, ast.Call) and isinstance(c_.func, ast.Attribute) and c_.func.attr == 'on_error' and [src(a_) for a_ in c_.args] == ['exc']]
        top = all(any(c_ is x_ for st_ in lp_.body if not isinstance(st_, (ast.If, ast.Try)) for x_ in ast.walk(st_)) for c_ in calls_)
        ok_cp = ok_cp or (snap and len(calls_) == 1 and top)
    chk.judge(ok_cp, 'C10.swap', cps,
              'every continuous paging session gets on_error(exc) (iterating a snapshot)', 'continuous paging sessions are no longer failed')

    # ---- reactors
    n_close = 0
    for rel, cname in sorted(REACTORS.items()):
        if not chk.repo.exists(rel):
            raise AnalysisError('reactor module vanished: %s' % rel)
        m = chk.repo.mod(rel)
        cl = m.func('%s.close' % cname)
        ok, why = latch_ok(cl, 'self.is_closed')
        chk.judge(ok, 'C10.latch', cl, '%s.close: latch on is_closed under self.lock' % cname, why)
        bodyfn = cl
        if m.has('%s._close' % cname):
            # asyncio defers the socket work and the request failing to a coroutine
            bodyfn = m.func('%s._close' % cname)
            chk.judge('self._close()' in src(cl), 'C10.close', cl, '%s.close schedules _close' % cname, 'close no longer runs _close')
        found = False
        gb = CFG(bodyfn)
        flb = Flow(gb, 0, lambda n, c: c)
        for nd in gb.stmt_nodes():
            if nd.kind != 'stmt' or nd.ast is None:
                continue
            for c in walk_no_nested(nd.ast):
                if isinstance(c, ast.Call) and src(c.func) == 'self.error_all_requests' and c.args and 'ConnectionShutdown' in src(_resolve(bodyfn, c.args[0])):
                    sts = list(flb.at(nd))
                    if sts and all(fa.knows('self.is_defunct') is False for fa, _c in sts):
                        found = True
        if cname == 'GeventConnection':
            # gevent: Greenlet.kill() blocks by default and, called on the greenlet that is running close() (a failure detected in the read / write loop
            # reaches close() through defunct()), raises GreenletExit right there; kill(block=False) only schedules the kill, so close() runs to its end
            gkills = [(nd, c) for nd in gb.stmt_nodes() if nd.kind == 'stmt' and nd.ast is not None for c in walk_no_nested(nd.ast)
                      if isinstance(c, ast.Call) and isinstance(c.func, ast.Attribute) and c.func.attr == 'kill']
            if not gkills:
                raise AnalysisError('GeventConnection.close: watcher kill() calls not found')
            cur_g = [a.targets[0].id for a in body_walk(bodyfn) if isinstance(a, ast.Assign) and isinstance(a.targets[0], ast.Name)
                     and isinstance(a.value, ast.Call) and src(a.value.func) in ('gevent.getcurrent', 'getcurrent')]
            for nd, c in gkills:
                w = src(c.func.value)
                nonblock = any(k.arg == 'block' and isinstance(k.value, ast.Constant) and k.value.value is False for k in c.keywords)
                not_self = bool(cur_g) and all(any(fa.knows('%s == %s' % (w, cv)) is False or fa.knows('%s is %s' % (w, cv)) is False for cv in cur_g) for fa, _c in flb.at(nd))
                chk.judge(nonblock or not_self, 'C10.close', c, 'GeventConnection.close: %s.kill(block=False) (or never the running greenlet)' % w,
                          'close() kills %s with a blocking kill(): when the failure was detected by that greenlet itself (EOF, socket error, decode error -> defunct -> close) GreenletExit '
                          'is raised inside close(), the socket stays open and error_all_requests / error_all_cp_sessions never run - no pending handler is ever invoked' % w)
        if cname == 'EventletConnection':
            # a green thread that closes its own connection (EOF in the read loop, error in the write loop -> defunct -> close) must not kill itself:
            # kill() on the running green thread raises GreenletExit at once and the rest of close() / defunct() never runs
            cur = [a.targets[0].id for a in body_walk(bodyfn) if isinstance(a, ast.Assign) and isinstance(a.targets[0], ast.Name)
                   and isinstance(a.value, ast.Call) and src(a.value.func) == 'eventlet.getcurrent']
            kills = [(nd, c) for nd in gb.stmt_nodes() if nd.kind == 'stmt' and nd.ast is not None for c in walk_no_nested(nd.ast)
                     if isinstance(c, ast.Call) and isinstance(c.func, ast.Attribute) and c.func.attr == 'kill']
            if not kills:
                raise AnalysisError('EventletConnection.close: watcher kill() calls not found')
            for nd, c in kills:
                w = src(c.func.value)
                safe = bool(cur) and all(any(fa.knows('%s == %s' % (w, cv)) is False for cv in cur) for fa, _c in flb.at(nd))
                chk.judge(safe, 'C10.close', c, 'EventletConnection.close: %s.kill() only when it is not the running green thread' % w,
                          'close() kills the green thread it runs in (%s may be the current one): GreenletExit is raised inside close(), the socket stays open and '
                          'error_all_requests never runs - pending requests of a connection that failed in its own I/O loop are never failed' % w)
        # ... and so do the continuous paging sessions, which are not in _requests once their first page arrived
        found_cp = False
        for nd in gb.stmt_nodes():
            if nd.kind != 'stmt' or nd.ast is None:
                continue
            for c in walk_no_nested(nd.ast):
                if isinstance(c, ast.Call) and src(c.func) == 'self.error_all_cp_sessions' and c.args:
                    sts = list(flb.at(nd))
                    if sts and all(fa.knows('self.is_defunct') is False for fa, _c in sts):
                        found_cp = True
        chk.judge(found_cp, 'C10.close', bodyfn, '%s: not defunct => error_all_cp_sessions(<connection error>)' % cname,
                  'an explicit close() fails the pending requests but not the continuous paging sessions of the connection: their consumers are never told and wait for pages that cannot arrive')
        n_close += 1
        chk.judge(found, 'C10.close', bodyfn, '%s: not defunct => error_all_requests(ConnectionShutdown)' % cname,
                  'closing a live connection leaves its pending requests hanging')
    if n_close != 6:
        raise AnalysisError('expected 6 reactors')

    # ---- send_msg refuses
    sm = conn.func('Connection.send_msg')
    g = CFG(sm)
    fl = Flow(g, 0, lambda n, c: c)
    firsts = [n for n in g.stmt_nodes() if n.kind == 'stmt']
    for n in firsts:
        for facts, _ in fl.at(n):
            if facts.knows('self.is_defunct') is not False or facts.knows('self.is_closed') is not False:
                chk.viol('C10.refuse', n.ast, 'send_msg statement reachable on a defunct/closed connection: %s' % src(n.ast)[:50],
                         'send_msg continues although the connection is defunct or closed')
                break
    raises = [n for n in body_walk(sm) if isinstance(n, ast.Raise) and 'ConnectionShutdown' in src(n)]
    chk.judge(len(raises) >= 2, 'C10.refuse', sm, 'send_msg raises ConnectionShutdown for defunct and for closed', 'refusal raises are gone')

    # ---- wrappers
    for h in HANDLERS:
        f = conn.func(h)
        chk.judge('defunct_on_error' in decorators(f), 'C10.wrap', f, '%s wrapped by defunct_on_error' % h, 'an exception in %s no longer defuncts the connection' % h)
    doe = conn.func('defunct_on_error')
    s = src(doe)
    chk.judge('except Exception as exc' in s and 'self.defunct(exc)' in s, 'C10.wrap', doe, 'defunct_on_error: except Exception -> self.defunct(exc)', 'wrapper changed')

    # ---- decode failure
    pm = conn.func('Connection.process_msg')
    tries = [n for n in body_walk(pm) if isinstance(n, ast.Try) and any('decoder(' in src(b) for b in n.body)]
    good = False
    if len(tries) == 1:
        for h in tries[0].handlers:
            hs = [src(x) for x in h.body]
            txt = ' ; '.join(hs)
            if 'callback(exc)' in txt and 'self.defunct(exc)' in txt and txt.index('callback(exc)') < txt.index('self.defunct(exc)') and isinstance(h.body[-1], ast.Return):
                good = True
    chk.judge(good, 'C10.decode', pm, 'decode failure: callback(exc), defunct(exc), return', 'a decode failure no longer fails its request and the connection')
    # the callback was popped before decoding, so error_all_requests cannot invoke it again
    from ..sem import flow_of as _flow10
    from ..cfg import Flow as _Flow10
    g10, _f10 = _flow10(pm)

    def _step_pop(n, c):
        if n.ast is not None and n.kind == 'stmt' and any(isinstance(x, ast.Call) and src(x.func) == 'self._requests.pop' and x.args and src(x.args[0]) == 'stream_id' for x in ast.walk(n.ast)):
            return True
        return c
    fpop = _Flow10(g10, False, _step_pop)
    uses = [n for n in g10.stmt_nodes() if n.ast is not None and n.kind == 'stmt' and any(isinstance(x, ast.Call) and isinstance(x.func, ast.Name) and x.func.id in ('decoder', 'callback')
                                                                                          for x in ast.walk(n.ast))]
    if not uses:
        raise AnalysisError('process_msg: decoder(...) / callback(...) calls not found')
    okpop = all(c or fa.knows('stream_id < 0') is True or fa.knows('stream_id in self._continuous_paging_sessions') is True for n in uses for fa, c in fpop.at(n))
    chk.judge(okpop, 'C10.decode', pm,
              'the request entry is popped from _requests before its response is decoded and its callback invoked', 'callback still registered while its response is handled: when decoding fails or '
              'the response is a protocol error the connection is defuncted with the entry still in _requests, and error_all_requests invokes the same callback a second time')
    # "no later response is delivered": the read loop stops at the first step that failed the connection
    chk.rule('C10.later', 'process_io_buffer delivers nothing after a step that made the connection defunct (is_defunct tested between the failing step and the next delivery)')
    chk.borrow('C06', {'C06.stop': 'C10.later'}, 'frames that follow the failing one in the same read are still handed to process_msg: a continuous paging session that was just failed receives a page after its error')
    chk.require('C10.latch', 7)
    chk.require('C10.wrap', 9)
