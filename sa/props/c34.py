"""C34 - date / time / time-UUID helpers (narrow): interval validation, constants, field packing of the bounding UUIDs."""
import ast

from ..core import AnalysisError, src, body_walk, walk_no_nested
from ..cfg import CFG, enumerate_paths
from ..fold import Folder, Unfoldable
from ..guards import normalise_atom

UTIL = 'cassandra/util.py'


def check(chk):
    chk.decides = ('Time accepts an integer only inside [0, one day) (both ends tested, folded constants); the unit constants multiply up to one day of '
                   'nanoseconds; the UUID epoch offset is the same literal in both directions and the 100 ns scaling agrees; the node / clock-sequence '
                   'literals of min/max_uuid_from_time reproduce, through uuid_from_time\'s field packing, the low 8 bytes of LOWEST/HIGHEST_TIME_UUID; Date '
                   'prints a zero-padded yyyy-mm-dd and parses with the same format')
    chk.does_not_decide = 'calendar arithmetic, float rounding of timestamps, UUID ordering over all instants'
    chk.rule('C34.range', 'Time._from_timestamp rejects t < 0 and t >= Time.DAY before storing')
    chk.rule('C34.const', 'Time unit constants: DAY == 24*60*60*10**9 ns; Date.DAY == 86400 s')
    chk.rule('C34.uuid', 'uuid_from_time / unix_time_from_uuid1 use the same epoch offset and 100 ns unit; min/max UUID literals pack to the LOWEST/HIGHEST constants\' low bytes')
    chk.rule('C34.datefmt', 'Date.__str__ zero-pads year/month/day (%04d-%02d-%02d) and Date parses with "%Y-%m-%d"; day count = timegm // DAY')
    m = chk.repo.mod(UTIL)
    folder = Folder(m)
    ft = m.func('Time._from_timestamp')
    rows = [p for p in enumerate_paths(CFG(ft))]
    ok_lo = ok_hi = store_ok = False
    for p in rows:
        conds = dict((normalise_atom(e)[0], pl != normalise_atom(e)[1]) for e, pl in p.conds)
        if p.end.kind == 'raise_stmt':
            if conds.get('t < 0') is True:
                ok_lo = True
            if conds.get('t < Time.DAY') is False:
                ok_hi = True
        else:
            stores = [n for n in p.nodes if n.kind == 'stmt' and src(n.ast) == 'self.nanosecond_time = t']
            if stores:
                store_ok = conds.get('t < 0') is False and conds.get('t < Time.DAY') is True
    chk.judge(ok_lo and ok_hi and store_ok, 'C34.range', ft, 'Time._from_timestamp: 0 <= t < Time.DAY else ValueError',
              'a time of day outside one day is accepted: lower bound tested=%s, upper bound tested=%s' % (ok_lo, ok_hi))
    ti = m.func('Time.__init__')
    # every other way to build a Time stores its value through the validated setter, or takes it from datetime.time fields (bounded by construction)
    tc = m.cls('Time')
    for f_ in [x for x in tc.body if isinstance(x, ast.FunctionDef) and x.name not in ('_from_timestamp', '_from_time')]:
        direct = [w for w in ast.walk(f_) if isinstance(w, (ast.Assign, ast.AugAssign)) and
                  any(src(t) == 'self.nanosecond_time' for t in (w.targets if isinstance(w, ast.Assign) else [w.target]))]
        if f_.name == '_from_timestring' or direct:
            chk.judge(not direct, 'C34.range', f_, 'Time.%s stores nanosecond_time only through _from_timestamp' % f_.name,
                      'Time.%s assigns nanosecond_time directly, without the range check: Time(\'23:59:60\') and a fraction of more than nine digits give a value of a day or more' % f_.name)
    chk.judge('self._from_timestamp(value)' in src(ti) and 'isinstance(value, int)' in src(ti), 'C34.range', ti, 'integer initialiser goes through _from_timestamp', 'integer initialiser bypasses validation')
    try:
        day = folder.class_const('Time', 'DAY')
        dday = folder.class_const('Date', 'DAY')
    except Unfoldable as e:
        raise AnalysisError(str(e))
    chk.judge(day == 24 * 60 * 60 * 10 ** 9, 'C34.const', m.cls('Time'), 'Time.DAY == 86400 * 10**9', 'Time.DAY is %r' % day)
    chk.judge(dday == 86400, 'C34.const', m.cls('Date'), 'Date.DAY == 86400', 'Date.DAY is %r' % dday)
    for u, v in (('MICRO', 1000), ('MILLI', 10 ** 6), ('SECOND', 10 ** 9), ('MINUTE', 60 * 10 ** 9), ('HOUR', 3600 * 10 ** 9)):
        chk.judge(folder.class_const('Time', u) == v, 'C34.const', m.cls('Time'), 'Time.%s == %d ns' % (u, v), 'Time.%s is %r' % (u, folder.class_const('Time', u)))

    # uuid
    uft = m.func('uuid_from_time')
    ut = m.func('unix_time_from_uuid1')
    EPOCH = 0x01b21dd213814000
    lits_a = [n.value for n in body_walk(uft) if isinstance(n, ast.Constant) and isinstance(n.value, int) and n.value > 10 ** 15]
    lits_b = [n.value for n in body_walk(ut) if isinstance(n, ast.Constant) and isinstance(n.value, int) and n.value > 10 ** 15]
    chk.judge(lits_a == [EPOCH] and lits_b == [EPOCH], 'C34.uuid', uft, 'UUID epoch offset 0x01b21dd213814000 in both directions', 'epoch offsets: to-uuid %s, from-uuid %s' % ([hex(x) for x in lits_a], [hex(x) for x in lits_b]))
    s = src(uft)
    chk.judge('intervals = int(microseconds * 10) + 122192928000000000' in s and '(uuid_arg.time - 122192928000000000) / 10000000.0' in src(ut), 'C34.uuid', uft,
              '100 ns intervals: microseconds * 10 + offset; (time - offset) / 1e7 seconds back', 'interval scaling differs between the two directions')
    # exactness: a datetime has whole microseconds and a v1 UUID whole 100 ns units - the conversions between the two never pass through a float
    chk.rule('C34.exact', 'datetime -> UUID (datetime arm of uuid_from_time) and UUID -> datetime (datetime_from_uuid1) are computed in integer arithmetic: no float literal, no true division, no float-returning helper on the value path')

    def tainted(fn, e, depth=0):
        """why expression e may be a float (text) or None"""
        for x in ast.walk(e):
            if isinstance(x, ast.Constant) and isinstance(x.value, float):
                return 'float literal %r' % x.value
            if isinstance(x, ast.BinOp) and isinstance(x.op, ast.Div):
                return 'true division %s' % src(x)[:50]
            if isinstance(x, ast.Call) and isinstance(x.func, ast.Name) and x.func.id == 'float':
                return 'float()'
            if isinstance(x, ast.Call) and isinstance(x.func, ast.Attribute) and x.func.attr == 'total_seconds':
                return 'timedelta.total_seconds() is a float'
            if isinstance(x, ast.Call) and src(x.func) == 'time.time':
                return 'time.time() is a float'
            if isinstance(x, ast.Call) and isinstance(x.func, ast.Name) and depth < 3:
                try:
                    callee = m.func(x.func.id)
                except Exception:
                    callee = None
                if callee is not None:
                    for r in body_walk(callee):
                        if isinstance(r, ast.Return) and r.value is not None:
                            why = tainted(callee, r.value, depth + 1)
                            if why:
                                return '%s() returns a float (%s)' % (x.func.id, why)
            if isinstance(x, ast.Name) and isinstance(x.ctx, ast.Load) and depth < 3:
                defs = [st for st in body_walk(fn) if isinstance(st, ast.Assign) and any(isinstance(t, ast.Name) and t.id == x.id for t in st.targets)]
                if len(defs) == 1 and defs[0].value is not e:
                    why = tainted(fn, defs[0].value, depth + 1)
                    if why:
                        return '%s = %s' % (x.id, why)
        return None
    # which locals carry a value that went through float arithmetic, per path; the microsecond count must not be one of them where the argument is (or may be) a datetime
    from ..sem import flow_of as _flow_of
    from ..cfg import Flow as _Flow34
    gu, _fu = _flow_of(uft)

    def _direct(e):
        for x in ast.walk(e):
            if isinstance(x, ast.Constant) and isinstance(x.value, float):
                return 'float literal %r' % x.value
            if isinstance(x, ast.BinOp) and isinstance(x.op, ast.Div):
                return 'true division %s' % src(x)[:40]
            if isinstance(x, ast.Call) and isinstance(x.func, ast.Name) and x.func.id == 'float':
                return 'float()'
            if isinstance(x, ast.Call) and isinstance(x.func, ast.Attribute) and x.func.attr in ('total_seconds', 'timestamp'):
                return '%s() is a float' % x.func.attr
        return None

    def _step_t(n, c):
        if n.kind == 'stmt' and isinstance(n.ast, (ast.Assign, ast.AugAssign)):
            tg = n.ast.targets[0] if isinstance(n.ast, ast.Assign) else n.ast.target
            if isinstance(tg, ast.Name):
                d = dict(c)
                why = _direct(n.ast.value)
                if why is None:
                    for x in ast.walk(n.ast.value):
                        if isinstance(x, ast.Name) and x.id in d:
                            why = '%s (%s)' % (x.id, d[x.id])
                            break
                if why is None and isinstance(n.ast, ast.AugAssign) and tg.id in d:
                    why = d[tg.id]
                if why is not None:
                    d[tg.id] = why[:80]
                else:
                    d.pop(tg.id, None)
                return tuple(sorted(d.items()))
        return c
    ft = _Flow34(gu, (), _step_t)
    uses = [n for n in gu.stmt_nodes() if n.kind == 'stmt' and isinstance(n.ast, ast.Assign) and src(n.ast.targets[0]) == 'intervals']
    if len(uses) != 1:
        raise AnalysisError('uuid_from_time: intervals = ... not found')
    whyf = None
    for fa, c in ft.at(uses[0]):
        if fa.knows("hasattr(time_arg, 'utctimetuple')") is not False:
            for x in ast.walk(uses[0].ast.value):
                if isinstance(x, ast.Name) and x.id in dict(c):
                    whyf = whyf or '%s = %s' % (x.id, dict(c)[x.id])
    chk.judge(whyf is None, 'C34.exact', uses[0].ast, 'uuid_from_time(datetime): the microsecond count reaches `%s` without float arithmetic' % src(uses[0].ast)[:60],
              'the microsecond count of a datetime is a float (%s): multiplied by 10 it exceeds 2**53 for every instant after 1998 and is rounded to a multiple of 2, 4, 8 ... '
              '100 ns units, and about 2%% of the instants between 2038 and 2100 decode back one microsecond off' % whyf)
    dfu = m.func('datetime_from_uuid1')
    for r in [n for n in body_walk(dfu) if isinstance(n, ast.Return) and n.value is not None]:
        why = tainted(dfu, r.value)
        chk.judge(why is None, 'C34.exact', r, 'datetime_from_uuid1: %s' % src(r)[:100],
                  'the UUID\'s 100 ns count is turned into a float number of seconds (%s) before it becomes a datetime: near 4e9 s a double resolves only about half a microsecond, '
                  'so instants late in this century decode one microsecond off' % why)
    # field packing expressions
    env_exprs = {}
    for st in body_walk(uft):
        if isinstance(st, ast.Assign) and isinstance(st.targets[0], ast.Name):
            env_exprs.setdefault(st.targets[0].id, []).append(st.value)
    # the six UUID fields as the code computes them, whatever temporaries (or tuple concatenations) it goes through
    ucalls = [c for c in body_walk(uft) if isinstance(c, ast.Call) and src(c.func) == 'uuid.UUID']
    if len(ucalls) != 1:
        raise AnalysisError('uuid_from_time: uuid.UUID(...) construction not found')
    fkw = [k.value for k in ucalls[0].keywords if k.arg == 'fields']
    if len(fkw) != 1:
        raise AnalysisError('uuid_from_time: fields= argument not found')

    def _one_step(e):
        while isinstance(e, ast.Name) and e.id in env_exprs and len(env_exprs[e.id]) == 1 and e.id not in ('intervals', 'clock_seq', 'node'):
            e = env_exprs[e.id][0]
        return e

    def _flat(e):
        e = _one_step(e)
        if isinstance(e, ast.Tuple):
            return [_one_step(x) for x in e.elts]
        if isinstance(e, ast.BinOp) and isinstance(e.op, ast.Add):
            return _flat(e.left) + _flat(e.right)
        raise AnalysisError('uuid_from_time: fields expression not understood: %s' % src(e)[:60])
    field_exprs = _flat(fkw[0])
    if len(field_exprs) != 6:
        raise AnalysisError('uuid_from_time: %d UUID fields found, 6 expected' % len(field_exprs))

    def pack_low(clock_seq, node):
        hi = folder.eval(field_exprs[3], env={'clock_seq': clock_seq})
        lo = folder.eval(field_exprs[4], env={'clock_seq': clock_seq})
        return (hi << 56) | (lo << 48) | node
    consts = {}
    for name in ('LOWEST_TIME_UUID', 'HIGHEST_TIME_UUID'):
        v = m.toplevel_assign(name)
        if not (isinstance(v, ast.Call) and src(v.func) == 'uuid.UUID' and v.args and isinstance(v.args[0], ast.Constant)):
            raise AnalysisError('%s is not uuid.UUID(<literal>)' % name)
        consts[name] = int(v.args[0].value.replace('-', ''), 16)
    for fn, cname in (('min_uuid_from_time', 'LOWEST_TIME_UUID'), ('max_uuid_from_time', 'HIGHEST_TIME_UUID')):
        f = m.func(fn)
        calls = [n for n in body_walk(f) if isinstance(n, ast.Call) and src(n.func) == 'uuid_from_time']
        if len(calls) != 1 or len(calls[0].args) != 3:
            raise AnalysisError('%s: uuid_from_time(timestamp, node, clock_seq) not found' % fn)
        node, cs = folder.eval(calls[0].args[1]), folder.eval(calls[0].args[2])
        low = pack_low(cs, node)
        want = consts[cname] & ((1 << 64) - 1)
        chk.judge(low == want and src(calls[0].args[0]) == 'timestamp', 'C34.uuid', f, '%s: node/clock_seq literals pack to the low 8 bytes of %s (%016x)' % (fn, cname, want),
                  'packed low bytes are %016x, %s has %016x: the bound no longer brackets every time-UUID of that instant in Cassandra\'s byte order' % (low, cname, want))
    chk.judge('clock_seq > 16383' in s and 'raise ValueError' in s, 'C34.uuid', uft, 'clock_seq beyond 14 bits rejected', 'clock_seq range check gone')
    bad_t = []
    for X in (0, 1, 0x01b21dd213814000, 0x0123456789abcdef, (1 << 60) - 1, 0x0fedcba987654321, 0x00000001ffffffff, 0x0000ffff00000000):
        try:
            got = tuple(folder.eval(field_exprs[k_], env={'intervals': X}) for k_ in range(3))
        except Unfoldable as e_:
            raise AnalysisError('uuid_from_time: time field expression cannot be folded: %s' % e_)
        want = (X & 0xffffffff, (X >> 32) & 0xffff, (X >> 48) & 0x0fff)
        if got != want:
            bad_t.append((hex(X), got, want))
    chk.judge(not bad_t and src(field_exprs[5]) == 'node', 'C34.uuid', uft,
              'time fields: low 32 bits, mid 16 bits, high 12 bits of the interval count (folded for 8 interval values); node last', 'time field packing changed: %s' % (bad_t[:1] or [src(x) for x in field_exprs],))

    # a datetime is an instant: its UTC fields, not its wall-clock fields, go into timegm
    tg = [n for n in body_walk(uft) if isinstance(n, ast.Call) and src(n.func) == 'calendar.timegm']
    if len(tg) != 1 or not tg[0].args:
        # another way of getting the epoch seconds: accepted only if it is exact (the C34.exact rule above has then looked at it); say so explicitly here
        chk.judge(False, 'C34.uuid', uft, 'uuid_from_time: seconds = timegm(<datetime>.utctimetuple())',
                  'the epoch seconds of a datetime are no longer taken from calendar.timegm(utctimetuple()) - a whole number that floors correctly before 1970 and converts an aware datetime to UTC')
        tg = []
    a0 = tg[0].args[0] if tg else None
    if tg:
        chk.judge(isinstance(a0, ast.Call) and isinstance(a0.func, ast.Attribute) and a0.func.attr == 'utctimetuple', 'C34.uuid', tg[0],
                  'uuid_from_time: seconds = timegm(<datetime>.utctimetuple())',
                  'timegm is fed %s: for a timezone-aware datetime the UUID encodes the wall-clock reading, not the instant, and min/max_uuid_from_time no longer bracket it' % src(a0))

    # Date
    ds = m.func('Date.__str__')
    okd, whyd = _date_text(m, ds)
    chk.judge(okd, 'C34.datefmt', ds, "Date.__str__: zero-padded year(4)-month(2)-day(2) of datetime_from_timestamp(self.seconds)",
              'Date is printed with %s: years below 1000 lose their zero padding and no longer parse back' % whyd)
    fds = m.func('Date._from_datestring')
    sp = [c for c in body_walk(fds) if isinstance(c, ast.Call) and isinstance(c.func, ast.Attribute) and c.func.attr == 'strptime']
    okp = len(sp) == 1 and len(sp[0].args) == 2 and src(sp[0].args[1]) == 'self.date_format'
    if okp:
        a0 = sp[0].args[0]
        # the text handed to strptime is the argument, with one leading '+' removed (as a statement before the call, or as a conditional expression)
        okp = (isinstance(a0, ast.Name) and a0.id == 's') or (isinstance(a0, ast.IfExp) and src(a0.test) in ("s[0] == '+'", "'+' == s[0]") and src(a0.body) == 's[1:]' and src(a0.orelse) == 's')
    chk.judge(folder.class_const('Date', 'date_format') == '%Y-%m-%d' and okp, 'C34.datefmt', m.cls('Date'), 'Date parses with %Y-%m-%d', 'date format changed')
    ftt = m.func('Date._from_timetuple')
    chk.judge('self.days_from_epoch = calendar.timegm(t) // Date.DAY' in src(ftt), 'C34.datefmt', ftt, 'days = timegm(timetuple) // 86400 (floor, also before 1970)', 'day count computation changed')
    chk.judge('return self.days_from_epoch * Date.DAY' in src(m.func('Date.seconds')), 'C34.datefmt', m.func('Date.seconds'), 'seconds = days * 86400', 'seconds computation changed')


def _date_text(m, ds):
    """Date.__str__: every text returned from the try body is <year:04d>-<month:02d>-<day:02d> of datetime_from_timestamp(self.seconds), in any formatting idiom"""
    import re
    from ..sem import resolve

    def is_midnight(fn, e, depth=2):
        e = resolve(fn, e)
        if src(e) == 'datetime_from_timestamp(self.seconds)':
            return True
        if depth and isinstance(e, ast.Call) and isinstance(e.func, ast.Attribute) and src(e.func.value) == 'self' and not e.args and m.has('Date.' + e.func.attr):
            h = m.func('Date.' + e.func.attr)
            rv = [r.value for r in body_walk(h) if isinstance(r, ast.Return)]
            return bool(rv) and all(v is not None and is_midnight(h, v, depth - 1) for v in rv)
        return False

    def parts_of(e):
        """[(attribute, width)] and the separators, or a text saying what is not understood"""
        if isinstance(e, ast.BinOp) and isinstance(e.op, ast.Mod) and isinstance(e.left, ast.Constant) and isinstance(e.left.value, str):
            f = e.left.value
            specs = re.findall(r'%(0?\d*)d', f)
            seps = re.split(r'%0?\d*d', f)
            args = e.right.elts if isinstance(e.right, ast.Tuple) else [e.right]
            return list(zip(args, specs)), seps
        if isinstance(e, ast.Call) and isinstance(e.func, ast.Attribute) and e.func.attr == 'format' and isinstance(e.func.value, ast.Constant) and isinstance(e.func.value.value, str) and not e.keywords:
            f = e.func.value.value
            flds = re.findall(r'\{(\d*):?([^}]*)\}', f)
            seps = re.split(r'\{[^}]*\}', f)
            args = []
            for k, (pos, spec) in enumerate(flds):
                i = int(pos) if pos else k
                if i >= len(e.args):
                    return 'format field %d has no argument' % i, None
                args.append((e.args[i], spec[:-1] if spec.endswith('d') else spec))
            return args, seps
        if isinstance(e, ast.JoinedStr):
            args, seps, cur = [], [], ''
            for v in e.values:
                if isinstance(v, ast.Constant):
                    cur += str(v.value)
                else:
                    spec = ''.join(str(x.value) for x in v.format_spec.values if isinstance(x, ast.Constant)) if v.format_spec is not None else ''
                    args.append((v.value, spec[:-1] if spec.endswith('d') else spec))
                    seps.append(cur)
                    cur = ''
            seps.append(cur)
            return args, seps
        return src(e)[:60], None
    tries = [t for t in body_walk(ds) if isinstance(t, ast.Try)]
    if len(tries) != 1:
        return False, 'no try block'
    rets = [r for st in tries[0].body for r in ast.walk(st) if isinstance(r, ast.Return) and r.value is not None]
    if not rets:
        return False, 'no text returned from the try body'
    for r in rets:
        args, seps = parts_of(resolve(ds, r.value))
        if seps is None:
            return False, args
        if seps != ['', '-', '-', ''] or len(args) != 3:
            return False, 'separators %s' % (seps,)
        for (a, spec), (attr, width) in zip(args, (('year', '04'), ('month', '02'), ('day', '02'))):
            if not (isinstance(a, ast.Attribute) and a.attr == attr and is_midnight(ds, a.value)):
                return False, '%s where the %s of datetime_from_timestamp(self.seconds) is expected' % (src(a), attr)
            if spec != width:
                return False, 'field %s formatted with width %r' % (attr, spec)
    return True, ''
