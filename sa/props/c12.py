"""C12 - pools keep exact accounting and close what they open."""
import ast

from ..core import AnalysisError, chain, src, body_walk, walk_no_nested, qual_of, ExcHierarchy
from ..cfg import CFG, Flow
from ..locks import held, holds
from .c09 import attr_writes

POOL = 'cassandra/pool.py'
CONN = 'cassandra/connection.py'
POOLS = ('HostConnection', 'HostConnectionPool')


def factory_calls(fn):
    return [n for n in body_walk(fn) if isinstance(n, ast.Call) and src(n.func).endswith('cluster.connection_factory')]


def check(chk):
    chk.decides = ('hand-outs are dominated by the shut-down test and by the capacity test under the connection lock; an orphaned return never '
                   'decrements; shutdown drains and closes every attribute that holds connections (swap-and-drain on the saved copy); a connection leaves '
                   'the trash only on a path that closes it; a created connection is published or closed on every path; publication after the shutdown '
                   'test is re-checked under the lock')
    chk.does_not_decide = 'numeric accounting over histories (that counts never go negative for every interleaving)'
    chk.rule('C12.shutdown_test', 'the is_shutdown test dominates every hand-out of a connection')
    chk.rule('C12.noorphan_dec', 'return_connection(stream_was_orphaned=True) does not decrement in_flight')
    chk.rule('C12.drain', 'shutdown closes every connection the pool tracks: _connection / _connections / _trash, draining the saved copy after a swap')
    chk.rule('C12.paired', 'a return_connection that decrements in_flight follows an increment on the same path: Connection.set_keyspace_async calls its callback (which returns the connection to the pool) only after in_flight += 1; the heartbeat scan returns a connection only after sending a heartbeat on it')
    chk.rule('C12.identity', 'HostConnection.return_connection forgets / replaces the current connection only when the returned connection is the current one')
    chk.rule('C12.trash', 'a connection is removed from _trash only on a path that closes it')
    chk.rule('C12.created', 'a connection obtained from connection_factory is published or closed on every path, including exceptional ones')
    chk.rule('C12.publish', 'a connection created after the shutdown test is published under the pool lock together with a re-test of is_shutdown')
    pool = chk.repo.mod(POOL)
    hier = ExcHierarchy(chk.repo, [POOL, CONN, 'cassandra/__init__.py'])

    # ---- shutdown test dominates hand-out
    gc = pool.func('HostConnection._get_connection')
    g = CFG(gc)
    fl = Flow(g, 0, lambda n, c: c)
    rets = [n for n in g.stmt_nodes() if n.kind == 'return']
    ok = bool(rets) and all(f.knows('self.is_shutdown') is False for r in rets for f, _ in fl.at(r))
    chk.judge(ok, 'C12.shutdown_test', gc, 'HostConnection._get_connection returns only when not is_shutdown', 'a shut-down pool still hands out its connection')
    bc = pool.func('HostConnection.borrow_connection')
    first_call = [n for n in body_walk(bc) if isinstance(n, ast.Call)][0]
    chk.judge(src(first_call.func) == 'self._get_connection', 'C12.shutdown_test', bc, 'HostConnection.borrow_connection starts with _get_connection()',
              'borrow no longer goes through the shut-down test')
    lb = pool.func('HostConnectionPool.borrow_connection')
    g = CFG(lb)
    fl = Flow(g, 0, lambda n, c: c)
    rets = [n for n in g.stmt_nodes() if n.kind == 'return']
    ok = bool(rets) and all(f.knows('self.is_shutdown') is False for r in rets for f, _ in fl.at(r))
    chk.judge(ok, 'C12.shutdown_test', lb, 'HostConnectionPool.borrow_connection returns only when not is_shutdown', 'a shut-down legacy pool still hands out connections')
    wf = pool.func('HostConnectionPool._wait_for_conn')
    g = CFG(wf)
    fl = Flow(g, 0, lambda n, c: c)
    rets = [n for n in g.stmt_nodes() if n.kind == 'return']
    ok = bool(rets) and all(f.knows('self.is_shutdown') is False for r in rets for f, _ in fl.at(r))
    chk.judge(ok, 'C12.shutdown_test', wf, '_wait_for_conn re-tests is_shutdown after waking', 'a waiter woken by shutdown can still be handed a connection')

    # ---- orphan return does not decrement
    for cls in POOLS:
        f = pool.func('%s.return_connection' % cls)
        decs = [st for st, tgt, ff in attr_writes(pool, 'in_flight') if ff is f and isinstance(st, ast.AugAssign) and isinstance(st.op, ast.Sub)]
        if not decs:
            raise AnalysisError('%s.return_connection: no in_flight decrement found' % cls)
        g = CFG(f)
        fl = Flow(g, 0, lambda n, c: c)
        good = True
        for d in decs:
            nd = [n for n in g.stmt_nodes() if n.ast is d][0]
            for facts, _ in fl.at(nd):
                if facts.knows('stream_was_orphaned') is not False:
                    good = False
        chk.judge(good, 'C12.noorphan_dec', f, '%s.return_connection decrements only when not stream_was_orphaned' % cls,
                  'an orphaned stream is decremented at timeout and again when its late answer arrives: in_flight can go negative')

    # ---- shutdown drains everything it tracks
    hs = pool.func('HostConnection.shutdown')
    s = src(hs)
    chk.judge('self._connection.close()' in s, 'C12.drain', hs, 'HostConnection.shutdown closes _connection', 'the live connection is not closed on shutdown')
    # swap-and-drain of _trash: the close loop iterates the trash itself, a local that was loaded from it before the swap, or a helper of the class that returns one of those
    def _assigned_from_trash(fn, name):
        for n in body_walk(fn):
            if isinstance(n, ast.Assign) and len(n.targets) == 1:
                t, v = n.targets[0], n.value
                if isinstance(t, ast.Name) and t.id == name and src(v) == 'self._trash':
                    return True
                if isinstance(t, ast.Tuple) and isinstance(v, ast.Tuple) and len(t.elts) == len(v.elts):
                    if any(isinstance(te, ast.Name) and te.id == name and src(ve) == 'self._trash' for te, ve in zip(t.elts, v.elts)):
                        return True
        return False

    def _trash_source(fn, e, depth=2):
        if src(e) == 'self._trash':
            return True
        if isinstance(e, ast.Name):
            return _assigned_from_trash(fn, e.id)
        if isinstance(e, ast.Call) and isinstance(e.func, ast.Attribute) and src(e.func.value) == 'self' and not e.args and not e.keywords and depth:
            try:
                h = pool.func('HostConnection.' + e.func.attr)
            except Exception:
                return False
            rv = [r.value for r in body_walk(h) if isinstance(r, ast.Return)]
            empty = lambda v: v is not None and ((isinstance(v, (ast.Tuple, ast.List)) and not v.elts) or src(v) in ('set()', 'frozenset()', 'list()', 'tuple()'))
            return bool(rv) and all(v is not None and (empty(v) or _trash_source(h, v, depth - 1)) for v in rv) and any(not empty(v) for v in rv)
        return False
    saved = None
    for n in body_walk(hs):
        if isinstance(n, ast.Assign) and src(n.value) == 'self._trash' and isinstance(n.targets[0], ast.Name):
            saved = n.targets[0].id
    loops = [n for n in body_walk(hs) if isinstance(n, ast.For) and any(isinstance(x, ast.Call) and isinstance(x.func, ast.Attribute) and x.func.attr == 'close'
                                                                         and src(x.func.value) == src(n.target) for x in ast.walk(n))]
    good = any(_trash_source(hs, l.iter) for l in loops)
    chk.judge(good, 'C12.drain', hs, 'HostConnection.shutdown closes the trashed connections (the trash itself or the copy taken before it is emptied)',
              'the close loop iterates %s: the connections set aside for replacement are never closed%s'
              % ([src(l.iter) for l in loops], (' (after `%s = self._trash; self._trash = set()`)' % saved) if saved else ''))
    ls = pool.func('HostConnectionPool.shutdown')
    loops = [src(n.iter) for n in body_walk(ls) if isinstance(n, ast.For) and any(isinstance(x, ast.Call) and isinstance(x.func, ast.Attribute) and x.func.attr == 'close'
                                                                                 and src(x.func.value) == src(n.target) for x in ast.walk(n))]
    chk.judge('self._connections' in loops and 'self._trash' in loops, 'C12.drain', ls, 'HostConnectionPool.shutdown closes _connections and _trash',
              'legacy pool shutdown closes only %s' % loops)
    # every attribute initialised to hold connections is drained
    for cls, fn in (('HostConnection', hs), ('HostConnectionPool', ls)):
        init = pool.func('%s.__init__' % cls)
        tracked = set()
        for st in body_walk(init):
            if isinstance(st, ast.Assign) and isinstance(st.targets[0], ast.Attribute) and src(st.targets[0].value) == 'self':
                if 'connection_factory' in src(st.value) or (st.targets[0].attr in ('_trash',)):
                    tracked.add(st.targets[0].attr)
        for a in sorted(tracked):
            helpers_ = [pool.func('%s.%s' % (cls, c_.func.attr)) for c_ in body_walk(fn) if isinstance(c_, ast.Call) and isinstance(c_.func, ast.Attribute)
                        and src(c_.func.value) == 'self' and pool.has('%s.%s' % (cls, c_.func.attr))]
            chk.judge(any('self.%s' % a in src(f_) for f_ in [fn] + helpers_), 'C12.drain', fn, '%s.shutdown handles self.%s' % (cls, a), 'connections held in self.%s are not closed by shutdown' % a)

    # ---- leaving the trash implies close
    for cls in POOLS:
        f = pool.func('%s.return_connection' % cls)
        g = CFG(f)

        def step(node, c):
            if node.ast is not None and node.kind == 'stmt':
                for n in walk_no_nested(node.ast):
                    if isinstance(n, ast.Call):
                        if src(n.func) == 'self._trash.remove' and n.args and src(n.args[0]) == 'connection':
                            c = 'removed'
                        elif src(n.func) == 'connection.close' and c == 'removed':
                            c = 'closed'
            return c
        fl = Flow(g, 'in', step)
        bad = [st for st in fl.at(g.exit) if st[1] == 'removed']
        removes = [n for n in body_walk(f) if isinstance(n, ast.Call) and src(n.func) == 'self._trash.remove']
        if not removes:
            raise AnalysisError('%s.return_connection: _trash.remove not found' % cls)
        chk.judge(not bad, 'C12.trash', f, '%s.return_connection: _trash.remove(connection) => connection.close()' % cls,
                  'a connection is taken out of the trash without being closed: nothing tracks it any more, so neither later returns nor shutdown() close it'
                  + (' (%s)' % ' | '.join(fl.witness(g.exit, bad[0])[-6:]) if bad else ''))

    # ---- created => published or closed
    sites = []
    for q, f in pool.functions():
        if q.split('.')[0] in POOLS and not q.endswith('__init__'):
            for c in factory_calls(f):
                sites.append((q, f, c))
    if len(sites) < 2:
        raise AnalysisError('connection_factory call sites not found in pool.py')
    for q, f, call in sites:
        var = None
        for st in body_walk(f):
            if isinstance(st, ast.Assign) and st.value is call and isinstance(st.targets[0], ast.Name):
                var = st.targets[0].id
        if var is None:
            raise AnalysisError('%s: connection_factory result not bound to a name' % q)

        def may_raise(n, var=var):
            out = []
            for x in walk_no_nested(n):
                if isinstance(x, ast.Call):
                    f_ = src(x.func)
                    if f_.endswith('cluster.connection_factory'):
                        out += ['ConnectionException', 'OSError', 'AuthenticationFailed']
                    elif f_ == '%s.set_keyspace_blocking' % var:
                        out += ['ConnectionException']
            return out
        g = CFG(f, may_raise=may_raise, exc_hier=hier)

        def step(node, c, var=var, call=call):
            if node.ast is not None and node.kind == 'stmt':
                for n in walk_no_nested(node.ast):
                    if n is call:
                        c = 'created'
                if c == 'created':
                    st = node.ast
                    if isinstance(st, ast.Assign) and isinstance(st.targets[0], ast.Attribute) and (
                            src(st.value) == var or var in [x.id for x in ast.walk(st.value) if isinstance(x, ast.Name)]) and not any(n is call for n in ast.walk(st)):
                        c = 'published'
                    for n in walk_no_nested(st):
                        if isinstance(n, ast.Call) and src(n.func) == '%s.close' % var:
                            c = 'closed'
                    # new_connections = self._connections[:] + [conn]  then self._connections = new_connections
                    if isinstance(st, ast.Assign) and isinstance(st.targets[0], ast.Name) and var in [x.id for x in ast.walk(st.value) if isinstance(x, ast.Name)] \
                            and not any(n is call for n in ast.walk(st)):
                        c = 'published'
            return c

        def edge(node, succ, lab, c, call=call):
            if lab is not None and lab[0] == 'exc' and node.ast is not None and any(n is call for n in walk_no_nested(node.ast)):
                return 'none'       # the factory itself raised: nothing was created
            return c
        fl = Flow(g, 'none', step, edge=edge)
        # a state that assumes `if <var>:` false after the creation succeeded is infeasible
        leaks = [st for n in (g.exit, g.raise_exit) for st in fl.at(n) if st[1] == 'created' and st[0].knows(var) is not False]
        chk.judge(not leaks, 'C12.created', f, '%s: connection from connection_factory is published or closed on every path' % q,
                  'when %s.set_keyspace_blocking raises, the freshly opened connection is neither stored nor closed (it leaks until garbage collected)' % var)

    # ---- the constructors: a pool whose constructor raises is never registered with the session, so it has to close what it opened itself
    chk.rule('C12.ctor', 'HostConnection.__init__ / HostConnectionPool.__init__: an exception that leaves the constructor after a connection was opened passes through a close of every connection opened so far')
    for cls in POOLS:
        f = pool.func('%s.__init__' % cls)
        if not factory_calls(f):
            raise AnalysisError('%s.__init__: connection_factory call not found' % cls)

        def may_raise_c(n):
            for x in walk_no_nested(n):
                if isinstance(x, ast.Call) and (src(x.func).endswith('cluster.connection_factory') or src(x.func).endswith('.set_keyspace_blocking')):
                    return ['Exception']
            return []
        g = CFG(f, may_raise=may_raise_c, exc_hier=hier)

        def closes_all(node):
            # self._connection.close()   or the head of   for c in self._connections: c.close()
            if node.kind == 'stmt' and node.ast is not None and any(isinstance(x, ast.Call) and src(x.func) == 'self._connection.close' for x in walk_no_nested(node.ast)):
                return True
            if node.kind == 'for_iter' and src(node.ast.iter) in ('self._connections', 'list(self._connections)', 'self._connections[:]') and isinstance(node.ast.target, ast.Name) and \
                    any(isinstance(x, ast.Call) and src(x.func) == '%s.close' % node.ast.target.id for st_ in node.ast.body for x in ast.walk(st_)):
                return True
            return False

        def step_c(node, c):
            if node.ast is not None and node.kind == 'stmt' and any(isinstance(x, ast.Call) and src(x.func).endswith('cluster.connection_factory') for x in walk_no_nested(node.ast)):
                return 'opened'
            if closes_all(node) and c == 'opened':
                return 'closed'
            return c

        # the state before a factory call that raises is the state that reaches the handler: run the flow with the step applied on normal edges only
        def step_c2(node, c):
            return c

        def edge_c2(node, succ, lab, c):
            if lab is not None and lab[0] == 'exc':
                return c                      # the raising statement had no effect
            return step_c(node, c)
        flc = Flow(g, 'none', step_c2, edge=edge_c2)
        leaks = [st for st in flc.at(g.raise_exit) if st[1] == 'opened']
        chk.judge(not leaks, 'C12.ctor', f, '%s.__init__: what was opened is closed before an exception leaves the constructor' % cls,
                  'set_keyspace_blocking (or a later connection_factory call) can raise out of the constructor with connections open: the session never registers this pool, so neither its '
                  'shutdown nor the session\'s closes them, and every reconnection attempt to the host leaks another one%s'
                  % ((' (%s)' % ' | '.join(flc.witness(g.raise_exit, leaks[0])[-5:])) if leaks else ''))

    # ---- publication re-checks shutdown under the lock
    for q, attr in (('HostConnection._replace', '_connection'), ('HostConnectionPool._add_conn_if_under_max', '_connections')):
        f = pool.func(q)
        pubs = [st for st in body_walk(f) if isinstance(st, ast.Assign) and src(st.targets[0]) == 'self.%s' % attr]
        if not pubs:
            raise AnalysisError('%s: publication of self.%s not found' % (q, attr))
        good = True
        for p in pubs:
            locked = holds(p, ('self',), '_lock')
            retest = False
            if locked:
                region = [w for l, w in held(p) if l == ('self', '_lock')][0]
                retest = any(isinstance(n, ast.If) and 'self.is_shutdown' in src(n.test) for n in ast.walk(region))
            if not (locked and retest):
                good = False
        chk.judge(good, 'C12.publish', f, '%s: self.%s published under self._lock with is_shutdown re-tested' % (q, attr),
                  'the shutdown test happens before the (slow) connect; the new connection is stored without re-testing is_shutdown under the lock, '
                  'so a connection can be published into a pool that was shut down meanwhile and is never closed')

    # ---- the keyspace-switch callback of both pools returns the connection: the increment must have happened on every path that reaches it
    conn_m = chk.repo.mod('cassandra/connection.py')
    sk = conn_m.func('Connection.set_keyspace_async')
    gsk = CFG(sk)

    def stepk(node, c):
        if node.kind == 'stmt' and isinstance(node.ast, ast.AugAssign) and src(node.ast.target) == 'self.in_flight' and isinstance(node.ast.op, ast.Add):
            return True
        return c
    flk = Flow(gsk, False, stepk)
    cbs = [n for n in gsk.stmt_nodes() if n.kind == 'stmt' and n.ast is not None and any(isinstance(x, ast.Call) and isinstance(x.func, ast.Name) and x.func.id == 'callback'
                                                                                        for x in walk_no_nested(n.ast))]
    if not cbs:
        raise AnalysisError('set_keyspace_async: direct callback invocation not found')
    early = [n for n in cbs if not all(c for _f, c in flk.at(n))]
    chk.judge(not early, 'C12.paired', sk, 'set_keyspace_async: callback(...) only after self.in_flight += 1',
              'the callback runs (line %s) on a path that has not incremented in_flight; both pools\' callbacks call return_connection, so in_flight goes negative and the '
              'pool later hands out more streams than the connection has' % sorted(n.line() for n in early))

    # ---- parking after shutdown: shutdown() sweeps _trash once; whatever is added later is never closed
    chk.rule('C12.park', 'a connection is added to _trash only under the pool lock on a path that knows the pool is not shut down')
    n_park = 0
    for q_, f_ in pool.functions():
        adds_ = [c_ for c_ in body_walk(f_) if isinstance(c_, ast.Call) and src(c_.func) == 'self._trash.add']
        if not adds_:
            continue
        g_, fl_ = CFG(f_), None
        fl_ = Flow(g_, 0, lambda n, c: c)
        for c_ in adds_:
            n_park += 1
            nd = [n for n in g_.stmt_nodes() if n.kind == 'stmt' and any(x is c_ for x in ast.walk(n.ast))]
            locked = holds(c_, ('self',), '_lock')
            live = bool(nd) and all(fa.knows('self.is_shutdown') is False for fa, _c in fl_.at(nd[0])) and bool(list(fl_.at(nd[0])))
            chk.judge(locked and live, 'C12.park', c_, '%s: _trash.add only while not shut down, under the pool lock' % q_,
                      'a connection with requests in flight is parked in _trash without looking at is_shutdown: when shutdown() ran just before (it sweeps the trash once) '
                      'the connection is never closed')
    if n_park < 2:
        raise AnalysisError('C12.park: _trash.add sites not found (%d)' % n_park)

    # ---- the heartbeat thread: a plain return_connection (which decrements) needs the heartbeat's own increment before it
    hbr = chk.repo.mod(CONN).func('ConnectionHeartbeat.run')
    ghb = CFG(hbr)
    scans = [n for n in ghb.stmt_nodes() if n.kind == 'for_iter' and src(n.ast.iter) == 'connections']
    if len(scans) != 1:
        raise AnalysisError('ConnectionHeartbeat.run: scan loop over the owner\'s connections not found')
    in_scan = set(id(x) for x in ast.walk(scans[0].ast))
    sends = [n for n in ghb.stmt_nodes() if n.kind == 'stmt' and any(isinstance(c, ast.Call) and src(c.func) == 'HeartbeatFuture' for c in ast.walk(n.ast))]
    plain = [n for n in ghb.stmt_nodes() if n.kind == 'stmt' and id(n.ast) in in_scan and any(
        isinstance(c, ast.Call) and isinstance(c.func, ast.Attribute) and c.func.attr == 'return_connection' and
        not any(k.arg == 'stream_was_orphaned' and isinstance(k.value, ast.Constant) and k.value.value is True for k in c.keywords) for c in ast.walk(n.ast))]
    if not sends:
        raise AnalysisError('ConnectionHeartbeat.run: HeartbeatFuture creation not found')
    for n in plain:
        paired = any(ghb.dominates(s_, n) and id(s_.ast) in in_scan for s_ in sends)
        chk.judge(paired, 'C12.paired', n.ast, 'heartbeat scan: %s follows the heartbeat\'s own in_flight += 1' % src(n.ast).strip()[:60],
                  'the scan hands a connection it found defunct / closed to owner.return_connection without having sent a heartbeat on it: the pool decrements in_flight for a '
                  'stream that was never taken (an idle dead connection goes to in_flight == -1)')
    # ---- the wait loop gives the heartbeat's stream back itself (in_flight -= 1): handing the connection to the pool afterwards must not decrement again
    def _step_dec(n, c):
        if n.kind == 'for_iter':
            return False
        if n.kind == 'stmt' and isinstance(n.ast, ast.AugAssign) and isinstance(n.ast.op, ast.Sub) and src(n.ast.target).endswith('.in_flight'):
            return True
        return c
    fdec = Flow(ghb, False, _step_dec)
    n_after = 0
    for n in ghb.stmt_nodes():
        if n.kind != 'stmt' or n.ast is None or id(n.ast) in in_scan:
            continue
        for c in ast.walk(n.ast):
            if isinstance(c, ast.Call) and isinstance(c.func, ast.Attribute) and c.func.attr == 'return_connection' and any(cc for _f, cc in fdec.at(n)):
                n_after += 1
                orphan = any(k.arg == 'stream_was_orphaned' and isinstance(k.value, ast.Constant) and k.value.value is True for k in c.keywords)
                chk.judge(orphan, 'C12.paired', n.ast, 'heartbeat wait loop: after its own in_flight -= 1 the connection is handed back with stream_was_orphaned=True (no second decrement)',
                          'the wait loop decrements in_flight for the answered heartbeat and then calls %s, which decrements again: every answered heartbeat on a pooled connection '
                          'lowers in_flight by one too many, the count goes negative and the pool hands out more streams than the connection has' % src(c)[:70])
    if n_after < 1:
        raise AnalysisError('ConnectionHeartbeat.run: hand-back of the connection after the heartbeat\'s own decrement not found')
    # ---- a dead connection that was already replaced (it sits in the trash) must not make the pool drop its healthy successor
    rc_ = pool.func('HostConnection.return_connection')
    grc = CFG(rc_)
    flrc = Flow(grc, 0, lambda n, c: c)
    clears = [n for n in grc.stmt_nodes() if n.kind == 'stmt' and isinstance(n.ast, ast.Assign) and src(n.ast.targets[0]) == 'self._connection' and src(n.ast.value) == 'None']
    if not clears:
        raise AnalysisError('HostConnection.return_connection: `self._connection = None` not found')
    for n in clears:
        same = all(fa.knows('connection is self._connection') is True or fa.knows('self._connection is connection') is True or
                   fa.knows('connection in self._trash') is False for fa, _c in flrc.at(n))
        chk.judge(same, 'C12.identity', n.ast, 'return_connection: self._connection = None only for the current connection',
                  'the returned (defunct) connection is not compared with self._connection: when a connection that was already replaced dies, the pool forgets its healthy '
                  'current connection - which stays open and is never closed, not even by shutdown() - and opens yet another one')
