"""C27 - identifiers and literals the driver quotes read back unchanged."""
import ast
import re

try:
    import re._parser as sre_parse
    import re._constants as sre_c
except ImportError:  # pragma: no cover
    import sre_parse
    import sre_constants as sre_c

from ..core import AnalysisError, src, body_walk, walk_no_nested, parent, qual_of, chain
from ..cfg import CFG, enumerate_paths
from ..fold import Folder, Unfoldable
from ..guards import normalise_atom

META = 'cassandra/metadata.py'
ENC = 'cassandra/encoder.py'
CONN = 'cassandra/connection.py'

# Cassandra's reserved keywords (Cassandra CQL documentation, appendix A, "reserved" column) that the driver must never emit bare
RESERVED_CORE = ('add', 'allow', 'alter', 'and', 'apply', 'asc', 'authorize', 'batch', 'begin', 'by', 'columnfamily', 'create', 'delete', 'desc',
                 'describe', 'drop', 'entries', 'execute', 'from', 'full', 'grant', 'if', 'in', 'index', 'infinity', 'insert', 'into', 'keyspace',
                 'limit', 'modify', 'nan', 'norecursive', 'not', 'null', 'of', 'on', 'or', 'order', 'primary', 'rename', 'replace', 'revoke',
                 'schema', 'select', 'set', 'table', 'to', 'token', 'truncate', 'unlogged', 'update', 'use', 'using', 'where', 'with')
SANITISERS = ('protect_value', 'cql_quote', 'protect_name', 'escape_name', 'maybe_escape_name')


def doubles(expr, q):
    """does expr contain <x>.replace(q, q+q) ?"""
    for n in ast.walk(expr):
        if isinstance(n, ast.Call) and isinstance(n.func, ast.Attribute) and n.func.attr == 'replace' and len(n.args) == 2 \
                and isinstance(n.args[0], ast.Constant) and n.args[0].value == q and isinstance(n.args[1], ast.Constant) and n.args[1].value == q + q:
            return True
    return False


def quoted_placeholders(fmt, q):
    """indices of %s / {} placeholders that sit directly between two q characters in a %-format string."""
    out = []
    idx = 0
    i = 0
    while i < len(fmt):
        if fmt[i] == '%' and i + 1 < len(fmt):
            if fmt[i + 1] == '%':
                i += 2
                continue
            j = i + 1
            while j < len(fmt) and fmt[j] in '0123456789.-+# (':
                if fmt[j] == '(':
                    j = fmt.index(')', j)
                j += 1
            if j < len(fmt) and fmt[j] in 'srd':
                if i > 0 and fmt[i - 1] == q and j + 1 < len(fmt) and fmt[j + 1] == q:
                    out.append(idx)
                idx += 1
                i = j + 1
                continue
        i += 1
    return out


def check(chk):
    chk.decides = ('escape_name doubles embedded double quotes, protect_value / cql_quote double embedded single quotes; a name is left bare only if it '
                   'matches the anchored lower-case word pattern (regex AST) and is not reserved; every place that puts a %s between double quotes in '
                   'generated CQL escapes the name, every place that puts one between single quotes escapes the value (schema export, keyspace switching)')
    chk.does_not_decide = 'the CQL lexer itself; completeness of the reserved-word list beyond the core table'
    chk.rule('C27.escape', 'escape_name: \'"%s"\' % name.replace(\'"\', \'""\'); protect_value / cql_quote: "\'%s\'" % text.replace("\'", "\'\'")')
    chk.rule('C27.regex', 'valid_cql3_word_re: anchored at both ends (\\Z, not $), first char [a-z], rest [0-9a-z_]*')
    chk.rule('C27.bare', 'maybe_escape_name leaves a name bare only when is_valid_name: not None, lower() not reserved, regex match')
    chk.rule('C27.reserved', 'cql_keywords_reserved = cql_keywords - cql_keywords_unreserved and contains the core reserved words')
    chk.rule('C27.names', 'a placeholder between double quotes in generated CQL receives an escaped name')
    chk.rule('C27.values', 'a placeholder between single quotes in generated CQL receives an escaped value')
    meta = chk.repo.mod(META)
    enc = chk.repo.mod(ENC)
    conn = chk.repo.mod(CONN)

    # ---- escaping functions
    en = meta.func('escape_name')
    rets = [n for n in body_walk(en) if isinstance(n, ast.Return)]
    good = len(rets) == 1 and isinstance(rets[0].value, ast.BinOp) and isinstance(rets[0].value.left, ast.Constant) and rets[0].value.left.value == '"%s"' and doubles(rets[0].value.right, '"')
    chk.judge(good, 'C27.escape', en, 'escape_name wraps in double quotes and doubles embedded ones', 'escape_name no longer doubles embedded double quotes')
    pv = meta.func('protect_value')
    rets = [n for n in body_walk(pv) if isinstance(n, ast.Return)]
    sret = [r for r in rets if isinstance(r.value, ast.BinOp) and isinstance(r.value.left, ast.Constant) and r.value.left.value == "'%s'"]
    chk.judge(len(sret) == 1 and doubles(sret[0].value.right, "'"), 'C27.escape', pv, "protect_value wraps strings in single quotes and doubles embedded ones", 'protect_value no longer doubles embedded single quotes')
    # the string arm is the fall-through: None -> NULL, numbers/bools bare
    g = CFG(pv)
    rows = [(p.cond_text(), src(p.end.ast.value)) for p in enumerate_paths(g) if p.end.kind == 'return']
    chk.judge(len(rows) == 3 and rows[0][1] == "'NULL'" and 'isinstance(value, (int, float, bool))' in rows[1][0] and 'str(value).lower()' in rows[1][1], 'C27.escape', pv,
              'protect_value: None -> NULL, numbers and booleans bare, everything else quoted', 'protect_value table changed: %s' % rows)
    cq = enc.func('cql_quote')
    rets = [n for n in body_walk(cq) if isinstance(n, ast.Return)]
    sret = [r for r in rets if isinstance(r.value, ast.BinOp) and isinstance(r.value.left, ast.Constant) and r.value.left.value == "'%s'"]
    chk.judge(len(sret) == 1 and doubles(sret[0].value.right, "'"), 'C27.escape', cq, 'cql_quote wraps str in single quotes and doubles embedded ones', 'cql_quote no longer doubles embedded single quotes')

    # ---- regex
    rv = meta.toplevel_assign('valid_cql3_word_re')
    if not (isinstance(rv, ast.Call) and src(rv.func) == 're.compile' and rv.args and isinstance(rv.args[0], ast.Constant)):
        raise AnalysisError('valid_cql3_word_re is not re.compile(<literal>)')
    pat = rv.args[0].value
    flags = len(rv.args) > 1 or bool(rv.keywords)
    tree = list(sre_parse.parse(pat))
    probs = []
    if flags:
        probs.append('compiled with flags')

    def charset(node):
        op, av = node
        if op is not sre_c.IN:
            return None
        s = set()
        for o, a in av:
            if o is sre_c.RANGE:
                s.update(chr(c) for c in range(a[0], a[1] + 1))
            elif o is sre_c.LITERAL:
                s.add(chr(a))
            else:
                return None
        return s
    items = tree[:]
    if items and items[0] == (sre_c.AT, sre_c.AT_BEGINNING):
        items = items[1:]           # ^ is redundant with .match but harmless
    elif items and items[0] == (sre_c.AT, sre_c.AT_BEGINNING_STRING):
        items = items[1:]
    if not items or items[-1][0] is not sre_c.AT:
        probs.append('pattern is not anchored at the end (match() would accept a valid prefix)')
    elif items[-1][1] is not sre_c.AT_END_STRING:
        probs.append("end anchor is '$', which also matches before a trailing newline: 'abc\\n' is treated as a bare word")
    core = items[:-1] if items and items[-1][0] is sre_c.AT else items
    lower = set('abcdefghijklmnopqrstuvwxyz')
    if len(core) != 2 or charset(core[0]) != lower:
        probs.append('first character class is not [a-z]')
    else:
        op, av = core[1]
        if op not in (sre_c.MAX_REPEAT, sre_c.MIN_REPEAT) or av[0] != 0 or av[1] is not sre_c.MAXREPEAT or len(av[2]) != 1 or charset(list(av[2])[0]) != lower | set('0123456789_'):
            probs.append('tail is not [0-9a-z_]*')
    chk.judge(not probs, 'C27.regex', (META, '<module>', rv.lineno), 'valid_cql3_word_re = %r' % pat, '; '.join(probs))
    ivn = meta.func('is_valid_name')
    s = src(ivn)
    # the function as a truth table over its three tests, whatever statements or boolean expression spell it
    from ..sem import resolve as _res27
    ATOMS = {'name is None': ('A', False), 'name.lower() in cql_keywords_reserved': ('B', False),
             'valid_cql3_word_re.match(name) is None': ('C', True), 'valid_cql3_word_re.match(name)': ('C', False)}

    def _ev(e, asg):
        e = _res27(ivn, e)
        if isinstance(e, ast.Constant) and isinstance(e.value, bool):
            return e.value
        if isinstance(e, ast.BoolOp):
            vals = [_ev(v, asg) for v in e.values]
            return all(vals) if isinstance(e.op, ast.And) else any(vals)
        if isinstance(e, ast.Call) and isinstance(e.func, ast.Name) and e.func.id == 'bool' and len(e.args) == 1:
            return _ev(e.args[0], asg)
        k, flip = normalise_atom(e)
        if k not in ATOMS:
            raise KeyError(k)
        nm, neg = ATOMS[k]
        return (asg[nm] != neg) != flip
    rows = 'ok'
    try:
        import itertools as _it27
        for a_, b_, c_ in _it27.product((False, True), repeat=3):
            asg = {'A': a_, 'B': b_, 'C': c_}
            got = None
            for p in enumerate_paths(CFG(ivn)):
                if p.end.kind != 'return':
                    continue
                if all(_ev(e, asg) == pl for e, pl in p.conds):
                    got = _ev(p.end.ast.value, asg)
                    break
            if got is not ((not a_) and (not b_) and c_):
                rows = 'name is None=%s reserved=%s bare-word=%s -> %s' % (a_, b_, c_, got)
                break
    except KeyError as ex_:
        rows = 'unrecognised test %s' % ex_
    want = 'ok'
    chk.judge(rows == want, 'C27.bare', ivn, 'is_valid_name: not None, lower-cased name not reserved, regex match', 'is_valid_name table changed: %s' % rows)
    men = meta.func('maybe_escape_name')
    rows = [(p.cond_text(), src(p.end.ast.value)) for p in enumerate_paths(CFG(men)) if p.end.kind == 'return']
    chk.judge(rows == [('(is_valid_name(name))', 'name'), ('not (is_valid_name(name))', 'escape_name(name)')], 'C27.bare', men, 'bare iff is_valid_name else escape_name', 'maybe_escape_name changed: %s' % rows)
    pn = meta.func('protect_name')
    chk.judge('return maybe_escape_name(name)' in src(pn), 'C27.bare', pn, 'protect_name = maybe_escape_name', 'protect_name changed')

    # ---- reserved words
    folder = Folder(meta)
    try:
        res = folder.module_const('cql_keywords_reserved')
        allk = folder.module_const('cql_keywords')
        unres = folder.module_const('cql_keywords_unreserved')
    except Unfoldable as e:
        raise AnalysisError('cannot fold keyword sets: %s' % e)
    chk.judge(res == allk - unres, 'C27.reserved', (META, '<module>', 0), 'cql_keywords_reserved == cql_keywords - cql_keywords_unreserved', 'reserved set is not the difference')
    missing = [w for w in RESERVED_CORE if w not in res]
    chk.judge(not missing, 'C27.reserved', (META, '<module>', 0), 'core reserved words (%d) are all reserved' % len(RESERVED_CORE), 'reserved words missing from cql_keywords_reserved: %s' % missing)
    chk.judge(all(w == w.lower() for w in res), 'C27.reserved', (META, '<module>', 0), 'reserved words are lower case (compared with name.lower())', 'reserved set contains upper-case entries that name.lower() never matches')

    # ---- quoting sites
    n_names = n_values = 0
    for mod, scope in ((meta, None), (conn, ('Connection.set_keyspace_blocking', 'Connection.set_keyspace_async'))):
        for q, f in mod.functions():
            if scope and q not in scope:
                continue
            if q in ('escape_name', 'protect_value'):
                continue
            for n in body_walk(f):
                if not (isinstance(n, ast.BinOp) and isinstance(n.op, ast.Mod) and isinstance(n.left, ast.Constant) and isinstance(n.left.value, str)):
                    continue
                # skip log / exception messages
                p = parent(n)
                skip = False
                while p is not None and p is not f:
                    if isinstance(p, ast.Raise) or (isinstance(p, ast.Call) and (src(p.func).startswith('log.') or src(p.func).endswith('Error') or src(p.func).endswith('Exception'))):
                        skip = True
                    p = parent(p)
                if skip:
                    continue
                fmt = n.left.value
                args = list(n.right.elts) if isinstance(n.right, ast.Tuple) else [n.right]
                for q_, rule, sanit in (('"', 'C27.names', ('protect_name', 'escape_name', 'maybe_escape_name')), ("'", 'C27.values', ('protect_value', 'cql_quote'))):
                    for i in quoted_placeholders(fmt, q_):
                        a = args[i] if i < len(args) else None
                        ok = a is not None and (doubles(a, q_) or (isinstance(a, ast.Call) and (chain(a.func) or ('',))[-1] in sanit))
                        if rule == 'C27.names':
                            n_names += 1
                        else:
                            n_values += 1
                        label = '%s: %s placeholder #%d of %r' % (q, 'double-quoted' if q_ == '"' else 'single-quoted', i, fmt[:60])
                        chk.judge(ok, rule, n, label,
                                  'the value %s is placed between %s without escaping embedded %s: a %s containing that character ends the quoted token early'
                                  % (src(a) if a is not None else '?', 'double quotes' if q_ == '"' else 'single quotes', q_, 'name' if q_ == '"' else 'string'))
    # names go through protect_name
    uses = sum(1 for n in ast.walk(meta.tree) if isinstance(n, ast.Call) and isinstance(n.func, ast.Name) and n.func.id in ('protect_name', 'protect_names', 'maybe_escape_name', 'escape_name'))
    if uses < 40:
        raise AnalysisError('only %d uses of the name-protecting helpers in metadata.py (55 confirmed by hand)' % uses)
    chk.note('%d uses of protect_name/protect_names/escape_name in metadata.py; %d double-quoted and %d single-quoted placeholders examined' % (uses, n_names, n_values))
    if n_names < 2:
        raise AnalysisError('double-quoted placeholder sites not found (%d; the two USE statements were confirmed by hand)' % n_names)
    # positive control for a rule whose expected count of raw sites is zero: the matcher must see a raw quoted placeholder
    if quoted_placeholders("{'class': '%s'} AND x = %s", "'") != [0] or quoted_placeholders('USE "%s"', '"') != [0] or quoted_placeholders("'%s': '%s'", "'") != [0, 1]:
        raise AnalysisError('placeholder matcher self-test failed')
    chk.ok('C27.values', (META, '<selftest>', 0), 'positive control: matcher recognises a raw single-quoted placeholder', nontrivial=False)


    # ---- what is quoted as an identifier is the name itself, never text already assembled around it
    chk.rule('C27.raw', 'protect_name / escape_name / maybe_escape_name receive a name, not a string built by formatting (e.g. keys(<name>))')
    n_raw = 0

    def _formatted(e):
        if isinstance(e, ast.JoinedStr):
            return True
        if isinstance(e, ast.BinOp) and isinstance(e.op, ast.Mod) and isinstance(e.left, ast.Constant) and isinstance(e.left.value, str):
            return True
        if isinstance(e, ast.BinOp) and isinstance(e.op, ast.Add) and any(isinstance(x, ast.Constant) and isinstance(x.value, str) for x in (e.left, e.right)):
            return True
        if isinstance(e, ast.Call) and isinstance(e.func, ast.Attribute) and e.func.attr in ('format', 'join') and isinstance(e.func.value, ast.Constant):
            return True
        return False
    for q, f in meta.functions():
        for c in body_walk(f):
            if not (isinstance(c, ast.Call) and isinstance(c.func, ast.Name) and c.func.id in ('protect_name', 'escape_name', 'maybe_escape_name') and len(c.args) == 1):
                continue
            n_raw += 1
            a = c.args[0]
            exprs = [a]
            if isinstance(a, ast.Name):
                exprs += [x.value for x in body_walk(f) if isinstance(x, ast.Assign) and any(isinstance(t, ast.Name) and t.id == a.id for t in x.targets)]
            bad = [src(e) for e in exprs if _formatted(e)]
            if bad:
                chk.viol('C27.raw', c, '%s: %s' % (q, src(c)), 'the quoted text is assembled first (%s) and quoted as a whole: the generated CQL names one identifier '
                         '"keys(col)" / "full(col)" instead of the column inside the function' % bad[0])
            else:
                chk.ok('C27.raw', c, '%s: %s' % (q, src(c)), nontrivial=False)
    if n_raw < 40:
        raise AnalysisError('C27.raw: only %d identifier-quoting call sites found in metadata.py' % n_raw)

    # index targets of the legacy parser: keys(<col>) / values(<col>) / full(<col>) wrap the *quoted* column name
    chk.rule('C27.wrapped', 'a function-style index target `name(%s)` is formatted from an already quoted identifier')
    bi = meta.func('SchemaParserV22._build_index_metadata')
    n_w = 0
    import re as _re
    for n_ in body_walk(bi):
        if isinstance(n_, ast.BinOp) and isinstance(n_.op, ast.Mod) and isinstance(n_.left, ast.Constant) and isinstance(n_.left.value, str) \
                and _re.match(r'^\w+\(%s\)$', n_.left.value):
            n_w += 1
            ops = n_.right.elts if isinstance(n_.right, ast.Tuple) else [n_.right]
            ok_ = True
            for o in ops:
                if isinstance(o, ast.Call) and isinstance(o.func, ast.Name) and o.func.id in ('protect_name', 'escape_name', 'maybe_escape_name'):
                    continue
                if isinstance(o, ast.Name):
                    defs_ = [a.value for a in body_walk(bi) if isinstance(a, ast.Assign) and any(isinstance(t, ast.Name) and t.id == o.id for t in a.targets)]
                    roots = [d for d in defs_ if not (isinstance(d, ast.BinOp) and isinstance(d.op, ast.Mod))]
                    if roots and all(isinstance(d, ast.Call) and isinstance(d.func, ast.Name) and d.func.id in ('protect_name', 'escape_name', 'maybe_escape_name') for d in roots):
                        continue
                ok_ = False
            chk.judge(ok_, 'C27.wrapped', n_, '%s wraps a quoted name' % src(n_)[:60],
                      'the column name inside %s is inserted raw: a name that needs quoting (mixed case, reserved word) is emitted bare and reads back as a different identifier' % n_.left.value)
    if n_w < 2:
        raise AnalysisError('_build_index_metadata: keys() / full() targets not found (%d)' % n_w)

    # argument names appear twice in CREATE FUNCTION (the parameter list and MONOTONIC ON <arg>): both places name the same identifier
    chk.rule('C27.args', 'Function.as_cql_query quotes the MONOTONIC ON argument like the argument list (protect_name)')
    fq = meta.func('Function.as_cql_query')
    uses = [a for a in body_walk(fq) if isinstance(a, ast.Attribute) and a.attr == 'monotonic_on' and src(a.value) == 'self']
    from ..core import parent as _par2
    raw = []
    for a in uses:
        p_ = _par2(a)
        if not isinstance(p_, ast.Subscript):
            continue           # truthiness test
        q_ = _par2(p_)
        wrapped = isinstance(q_, ast.Call) and isinstance(q_.func, ast.Name) and q_.func.id in ('protect_name', 'escape_name', 'maybe_escape_name')
        if not wrapped:
            raw.append(p_)
    if not any(isinstance(_par2(a), ast.Subscript) for a in uses):
        raise AnalysisError('Function.as_cql_query: use of self.monotonic_on[...] not found')
    chk.judge(not raw, 'C27.args', fq, 'MONOTONIC ON <arg> goes through protect_name',
              'the argument name after MONOTONIC ON is inserted raw (%s) while the parameter list quotes it: an argument that needs quoting (mixed case, reserved word) '
              'reads back as a different identifier' % [src(x) for x in raw])
