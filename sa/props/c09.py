"""C09 - stream-id multiplexing: lock discipline, capacity dominance, single release per response, orphan pairing, id width."""
import ast

from ..core import AnalysisError, chain, src, body_walk, walk_no_nested, qual_of, enclosing_func, parent
from ..cfg import CFG, Flow
from ..fold import Folder, Unfoldable
from ..guards import normalise_atom
from ..locks import held, holds, receiver_of

CONN = 'cassandra/connection.py'
POOL = 'cassandra/pool.py'
CLUSTER = 'cassandra/cluster.py'
MARSHAL = 'cassandra/marshal.py'

# get_request_id() call sites that run on the single-threaded handshake path of a connection nobody else can see yet
HANDSHAKE = {
    'Connection._send_options_message': 'first message of a connection under construction',
    'Connection._send_startup_message': 'handshake: only the event loop thread touches the connection',
    'Connection._handle_startup_response': 'handshake: AUTHENTICATE arm, connection not published yet',
    'Connection._handle_auth_response': 'handshake: AUTH_CHALLENGE arm, connection not published yet',
}
# the only functions that may add to / remove from Connection._requests
REQUESTS_WRITERS = {
    'Connection.__init__': 'creates the table',
    'Connection.send_msg': 'registers the callback under the stream id it sends',
    'Connection.process_msg': 'pops the callback of the stream a response arrived on',
    'Connection.error_all_requests': 'swaps the whole table out to fail every pending request',
    'ResponseFuture._on_timeout': 'pops its own stream on client timeout and orphans it',
}


def attr_writes(mod, attr):
    """(stmt, target) for every assignment / augmented assignment / del / mutating call on <x>.<attr> in mod"""
    out = []
    for q, f in mod.functions():
        for n in body_walk(f):
            if isinstance(n, (ast.Assign, ast.AugAssign, ast.AnnAssign)):
                tgs = n.targets if isinstance(n, ast.Assign) else [n.target]
                for t in tgs:
                    for e in (t.elts if isinstance(t, ast.Tuple) else [t]):
                        base = e.value if isinstance(e, ast.Subscript) else e
                        if isinstance(base, ast.Attribute) and base.attr == attr:
                            out.append((n, base, f))
            elif isinstance(n, ast.Delete):
                for t in n.targets:
                    base = t.value if isinstance(t, ast.Subscript) else t
                    if isinstance(base, ast.Attribute) and base.attr == attr:
                        out.append((n, base, f))
            elif isinstance(n, ast.Call) and isinstance(n.func, ast.Attribute) and n.func.attr in (
                    'pop', 'popitem', 'clear', 'update', 'setdefault', 'append', 'appendleft', 'popleft', 'add', 'remove', 'discard', 'extend') \
                    and isinstance(n.func.value, ast.Attribute) and n.func.value.attr == attr:
                out.append((n, n.func.value, f))
    return out


def check(chk):
    chk.decides = ('every read-modify-write of in_flight and every get_request_id() is under the lock of the same connection; every in_flight '
                   'increment is dominated, inside the same lock region, by a capacity test against max_request_id; the stream-id pool and the '
                   'request table have a closed set of writers; per response the stream id is released exactly once (or the connection is defunct); '
                   'orphaning and its later release are paired; the id range fits the header stream field')
    chk.does_not_decide = 'interleavings as such: the rules are the lock/pairing conditions that make every interleaving safe'
    chk.rule('C09.lock', 'in_flight updates and get_request_id() calls hold <connection>.lock (handshake sites exempt by name)')
    chk.rule('C09.capacity', 'in_flight += n is dominated, in the same lock region, by a test bounding in_flight by max_request_id')
    chk.rule('C09.writers', 'only the listed functions write Connection._requests / request_ids / orphaned_request_ids / highest_request_id')
    chk.rule('C09.release', 'process_msg returns a non-paging stream id to request_ids exactly once on every normal exit, unless it defuncted the connection')
    chk.rule('C09.orphan', 'timeout: pop from _requests => orphan registered under the lock and pool told stream_was_orphaned=True (no decrement); '
                           'late answer: in_flight -= 1 and orphan removal together under the lock')
    chk.rule('C09.key', 'send_msg stores the callback under the stream id it hands to the encoder; refuses on defunct/closed before registering')
    chk.rule('C09.width', 'max_request_id bounds fit the positive range of the header stream field; id growth is bounded by max_request_id')
    chk.rule('C09.borrow', 'after a successful borrow every exceptional exit of the send region returns the connection; '
                           'a callback registered for a stream is unregistered if the encoder raises')
    conn = chk.repo.mod(CONN)
    pool = chk.repo.mod(POOL)
    cluster = chk.repo.mod(CLUSTER)
    mods = (conn, pool, cluster)

    # ---- lock discipline: in_flight
    n_if = 0
    for m in mods:
        for st, tgt, f in attr_writes(m, 'in_flight'):
            if qual_of(f).endswith('__init__') and isinstance(st, ast.Assign):
                continue
            if not isinstance(st, (ast.AugAssign, ast.Assign)):
                continue
            r = receiver_of(tgt)
            n_if += 1
            chk.judge(r is not None and holds(st, r), 'C09.lock', st, '%s under with %s.lock' % (src(st), '.'.join(r or ('?',))),
                      'in_flight is updated outside the lock of its connection (locks held: %s)' % [('.'.join(l)) for l, _ in held(st)])
    if n_if < 9:
        raise AnalysisError('C09.lock: only %d in_flight updates found (11 confirmed by hand)' % n_if)
    # ---- get_request_id
    n_g = 0
    for m in mods:
        for q, f in m.functions():
            for n in body_walk(f):
                if isinstance(n, ast.Call) and isinstance(n.func, ast.Attribute) and n.func.attr == 'get_request_id':
                    r = chain(n.func.value)
                    n_g += 1
                    fq = qual_of(n)
                    if fq in HANDSHAKE and r == ('self',):
                        chk.ok('C09.lock', n, '%s: get_request_id() on the handshake path (%s)' % (fq, HANDSHAKE[fq]), nontrivial=False)
                        continue
                    chk.judge(r is not None and holds(n, r), 'C09.lock', n, '%s: %s under with %s.lock' % (fq, src(n), '.'.join(r or ('?',))),
                              'get_request_id() must be called with the connection lock held (its contract); locks held here: %s'
                              % [('.'.join(l)) for l, _ in held(n)])
    if n_g < 12:
        raise AnalysisError('C09.lock: only %d get_request_id() sites found (13 confirmed by hand)' % n_g)
    gri = conn.func('Connection.get_request_id')
    doc = ast.get_docstring(gri) or ''
    chk.judge('lock' in doc.lower(), 'C09.lock', gri, 'get_request_id documents "caller holds the lock"', 'the lock contract of get_request_id is gone', nontrivial=False)

    # ---- capacity dominance
    n_c = 0
    for m in mods:
        for st, tgt, f in attr_writes(m, 'in_flight'):
            if not (isinstance(st, ast.AugAssign) and isinstance(st.op, ast.Add)):
                continue
            r = receiver_of(tgt)
            rt = '.'.join(r or ('?',))
            n_c += 1
            g = CFG(f)
            node = [n for n in g.stmt_nodes() if n.ast is st]
            if not node:
                raise AnalysisError('in_flight increment not in CFG of %s' % qual_of(f))
            fl = Flow(g, 0, lambda n, c: c)
            ok = True
            why = ''
            if isinstance(st.value, ast.Constant) and st.value.value == 1:
                for facts, _c in fl.at(node[0]):
                    a = facts.knows('%s.in_flight < %s.max_request_id' % (rt, rt))
                    # strict: ids 0..max_request_id are max+1 ids and the test keeps one spare.  The spare is needed because a
                    # response callback returns the connection (in_flight -= 1) before process_msg puts the stream id back into
                    # request_ids; a borrow in that window with `<=` finds no free id and get_request_id grows past the maximum
                    b = facts.knows('%s.max_request_id < %s.in_flight' % (rt, rt))      # in_flight <= max  <=>  not (max < in_flight)
                    if a is not True:
                        ok = False
                        why = ('the test admits in_flight == max_request_id: no spare stream id is left for the window in which a response '
                               'callback has returned the connection but process_msg has not yet released the id' if b is False else 'path facts %r' % (facts,))
                # the test must be in the same lock region as the increment
                if ok:
                    region = [w for l, w in held(st) if l == tuple(r) + ('lock',)]
                    tests = [n for n in ast.walk(region[0]) if isinstance(n, ast.Compare) and 'in_flight' in src(n) and 'max_request_id' in src(n)] if region else []
                    if not tests:
                        ok = False
                        why = 'the capacity test is outside the lock region of the increment (check-then-act race)'
            else:
                # in_flight += available, available = min(needed, max_request_id - in_flight + 1)
                name = src(st.value)
                defs = [a for a in body_walk(f) if isinstance(a, ast.Assign) and src(a.targets[0]) == name]
                ok = False
                for d in defs:
                    v = d.value
                    if isinstance(v, ast.Call) and isinstance(v.func, ast.Name) and v.func.id == 'min':
                        texts = [src(a).replace(' ', '') for a in v.args]
                        if ('%s.max_request_id-%s.in_flight+1' % (rt, rt)) in texts or ('%s.max_request_id-%s.in_flight' % (rt, rt)) in texts:
                            same_region = any(w for l, w in held(d) if l == tuple(r) + ('lock',)) and \
                                [w for l, w in held(d)] == [w for l, w in held(st)]
                            ok = same_region
                            why = '' if ok else 'bound computed outside the lock region'
                if not ok and not why:
                    why = 'increment by %s is not bounded by max_request_id - in_flight (+1)' % name
            chk.judge(ok, 'C09.capacity', st, '%s: %s bounded by %s.max_request_id' % (qual_of(f), src(st), rt),
                      'a stream id can be handed out beyond the protocol maximum: %s' % why)
    if n_c < 5:
        raise AnalysisError('C09.capacity: only %d increments found (6 confirmed by hand)' % n_c)

    # ---- writers
    for attr, table in (('_requests', REQUESTS_WRITERS),
                        ('request_ids', {'Connection.__init__': 1, 'Connection.get_request_id': 1, 'Connection.process_msg': 1,
                                         'Connection.remove_continuous_paging_session': 1, 'Connection.wait_for_responses': 0}),
                        ('orphaned_request_ids', {'Connection.__init__': 1, 'Connection.process_msg': 1, 'ResponseFuture._on_timeout': 1}),
                        ('highest_request_id', {'Connection.__init__': 1, 'Connection.get_request_id': 1})):
        seen = set()
        for m in mods:
            for st, tgt, f in attr_writes(m, attr):
                fq = qual_of(f)
                # local variables named like the attribute (request_ids = [...] in wait_for_responses) are not attribute writes
                seen.add(fq)
                if fq not in table and fq.split('.')[-1].startswith('_') and not fq.split('.')[-1].startswith('__'):
                    # a private helper counts as the functions that call it - if every caller is a listed writer
                    callers = set(qual_of(c_) for m2 in mods for c_ in ast.walk(m2.tree) if isinstance(c_, ast.Call) and isinstance(c_.func, ast.Attribute)
                                  and c_.func.attr == fq.split('.')[-1] and src(c_.func.value) == 'self' and qual_of(c_).split('.')[0] == fq.split('.')[0])
                    if callers and callers <= set(table):
                        seen.update(callers)
                        chk.ok('C09.writers', st, '%s (private helper of %s) writes .%s' % (fq, sorted(callers), attr))
                        continue
                chk.judge(fq in table, 'C09.writers', st, '%s writes .%s' % (fq, attr),
                          '%s modifies Connection.%s; only %s may (a new writer must keep the pairing rules of this check)' % (fq, attr, sorted(table)))
        for must in [k for k, v in table.items() if v]:
            if must not in seen:
                raise AnalysisError('C09.writers: expected writer %s of .%s not found (anchor moved)' % (must, attr))

    # ---- release exactly once in process_msg
    pm = conn.func('Connection.process_msg')
    g = CFG(pm)

    def step(node, c):
        cnt, dead = c
        if node.ast is not None and node.kind in ('stmt',):
            for n in walk_no_nested(node.ast):
                if isinstance(n, ast.Call) and isinstance(n.func, ast.Attribute):
                    if n.func.attr == 'append' and src(n.func.value) == 'self.request_ids' and n.args and src(n.args[0]) == 'stream_id':
                        cnt = min(cnt + 1, 2)
                    if src(n.func) == 'self.defunct':
                        dead = True
                    if src(n.func) == 'self.remove_continuous_paging_session':
                        cnt = min(cnt + 1, 2)
        return (cnt, dead)
    fl = Flow(g, (0, False), step)
    bad = []
    for facts, (cnt, dead) in fl.at(g.exit):
        neg = facts.knows('stream_id < 0')
        paging = facts.knows('stream_id in self._continuous_paging_sessions')
        if cnt >= 2:
            bad.append(((facts, (cnt, dead)), 'the stream id is appended to request_ids twice'))
        elif cnt == 0 and not (neg is True or paging is True or dead):
            bad.append(((facts, (cnt, dead)), 'the stream id is never returned to request_ids'))
    if bad:
        st, why = bad[0]
        chk.viol('C09.release', pm, 'process_msg: stream id released exactly once per response',
                 '%s on a path: %s' % (why, ' | '.join(fl.witness(g.exit, st)[-10:])))
    else:
        chk.ok('C09.release', pm, 'process_msg: stream id released exactly once per response')
    # every append is under the lock
    for n in body_walk(pm):
        if isinstance(n, ast.Call) and isinstance(n.func, ast.Attribute) and n.func.attr == 'append' and src(n.func.value) == 'self.request_ids':
            chk.judge(holds(n, ('self',)), 'C09.release', n, 'request_ids.append under self.lock', 'stream id returned to the pool outside the connection lock')
    rc = conn.func('Connection.remove_continuous_paging_session')
    s = src(rc)
    chk.judge('self._continuous_paging_sessions.pop(stream_id)' in s and 'self.request_ids.append(stream_id)' in s and 'except KeyError' in s,
              'C09.release', rc, 'paging session removal returns its id once (pop guards against a second removal)', 'paging session id release changed')

    # ---- orphan pairing
    # in process_msg itself or in a private method of Connection it calls
    pm_scopes = [pm] + [conn.func('Connection.' + c_.func.attr) for c_ in body_walk(pm) if isinstance(c_, ast.Call) and isinstance(c_.func, ast.Attribute)
                        and src(c_.func.value) == 'self' and c_.func.attr.startswith('_') and conn.has('Connection.' + c_.func.attr)]
    orphan_if = [n for f_ in pm_scopes for n in body_walk(f_) if isinstance(n, ast.If) and 'orphaned_request_ids' in src(n.test)]
    good = False
    for n in orphan_if:
        body = ' ; '.join(src(x) for x in n.body)
        if 'self.in_flight -= 1' in body and 'self.orphaned_request_ids.remove(stream_id)' in body and holds(n, ('self',)):
            good = True
    chk.judge(good, 'C09.orphan', pm, 'late answer: in_flight -= 1 and orphan removal together under self.lock',
              'the late-response branch no longer decrements in_flight and forgets the orphan together under the lock')
    ot = cluster.func('ResponseFuture._on_timeout')
    g = CFG(ot, may_raise=lambda n: ['KeyError'] if any(isinstance(x, ast.Call) and src(x.func) == 'self._connection._requests.pop' for x in walk_no_nested(n)) else [])

    def step_ot(node, c):
        popped, orphaned, told = c
        if node.ast is not None and node.kind == 'stmt':
            for n in walk_no_nested(node.ast):
                if isinstance(n, ast.Call):
                    f = src(n.func)
                    if f == 'self._connection._requests.pop':
                        popped = True
                        if len(n.args) > 1:
                            # pop(key, default) never raises: whether an entry was removed is known only through the result
                            st_ = node.ast
                            popped = ('var', src(st_.targets[0])) if isinstance(st_, ast.Assign) and st_.value is n and isinstance(st_.targets[0], ast.Name) else 'unknown'
                    if f == 'self._connection.orphaned_request_ids.add' and n.args and src(n.args[0]) == 'self._req_id' \
                            and holds(n, ('self', '_connection')):
                        orphaned = True
                    if f.endswith('return_connection'):
                        kw = dict((k.arg, src(k.value)) for k in n.keywords)
                        told = 'orphan' if kw.get('stream_was_orphaned') == 'True' else 'decrement'
        return (popped, orphaned, told)

    def edge_ot(node, succ, lab, c):
        if lab is not None and lab[0] == 'exc' and lab[1] == 'KeyError':
            return (False, c[1], c[2])     # the pop did not happen
        return c
    fl = Flow(g, (False, False, None), step_ot, edge=edge_ot)
    bad = []
    for n in (g.exit,):
        for facts, (popped, orphaned, told) in fl.at(n):
            pool_ok = facts.knows('pool') is True and facts.knows('pool.is_shutdown') is False
            if popped and pool_ok and not (orphaned and told == 'orphan'):
                bad.append('stream popped but %s' % ('not orphaned under the connection lock' if not orphaned else 'pool told %s' % told))
            if orphaned != (told == 'orphan'):
                bad.append('orphan registered=%s but pool told %s' % (orphaned, told))
    chk.judge(not bad, 'C09.orphan', ot, '_on_timeout: popped stream => orphan under lock and return_connection(stream_was_orphaned=True)',
              '; '.join(sorted(set(bad))))
    # converse: an id is orphaned only if this call really removed its entry (otherwise the response was already processed, the id is
    # back in the pool, and the late-answer branch would decrement in_flight a second time when the recycled id is answered)
    adds = [n for n in g.stmt_nodes() if n.kind == 'stmt' and any(isinstance(x, ast.Call) and src(x.func) == 'self._connection.orphaned_request_ids.add' for x in walk_no_nested(n.ast))]
    if len(adds) != 1:
        raise AnalysisError('_on_timeout: one orphaned_request_ids.add site expected, found %d' % len(adds))
    bad2 = []
    for facts, (popped, orphaned, told) in fl.at(adds[0]):
        if popped is True:
            continue
        if isinstance(popped, tuple) and (facts.knows('%s is None' % popped[1]) is False or facts.knows(popped[1]) is True):
            continue
        bad2.append('the entry may already be gone (%s)' % ('pop raised KeyError' if popped is False else 'pop(key, default) result not tested'))
    chk.judge(not bad2, 'C09.orphan', adds[0].ast, '_on_timeout: a stream id is orphaned only when this call removed its pending entry',
              'the id is registered as orphaned although %s: if the response was already processed the id is back in request_ids, and once it is reused and answered in_flight is decremented twice' % '; '.join(sorted(set(bad2))))
    # (_connection, _req_id) is the pair _on_timeout acts on: wherever a borrowed (connection, id) is taken, both are recorded
    chk.rule('C09.pair', 'ResponseFuture: every `connection, request_id = pool.borrow_connection(...)` is followed, in the same block, by self._connection = connection and self._req_id = request_id')
    npair = 0
    for q, f in cluster.functions():
        if not q.startswith('ResponseFuture.'):
            continue
        for st in body_walk(f):
            if isinstance(st, ast.Assign) and isinstance(st.targets[0], ast.Tuple) and isinstance(st.value, ast.Call) and src(st.value.func).endswith('.borrow_connection') and len(st.targets[0].elts) == 2:
                npair += 1
                cvar, ivar = [src(e) for e in st.targets[0].elts]
                blk = parent(st)
                sib = None
                for fld in ('body', 'orelse', 'finalbody'):
                    if st in getattr(blk, fld, []):
                        sib = getattr(blk, fld)
                later = [src(x) for x in sib[sib.index(st) + 1:]] if sib else []
                chk.judge('self._connection = %s' % cvar in later and 'self._req_id = %s' % ivar in later, 'C09.pair', st, '%s: borrowed (connection, stream id) recorded together' % q,
                          'the stream id of this attempt is not recorded in _req_id: a later client timeout pops and orphans the id of a previous attempt - possibly a recycled id that now belongs to another request - and leaves this attempt registered')
    if npair < 1:
        raise AnalysisError('ResponseFuture: no borrow_connection site found')
    for mname, fq in ((pool, 'HostConnection.return_connection'), (pool, 'HostConnectionPool.return_connection')):
        f = mname.func(fq)
        decs = [st for st, tgt, ff in attr_writes(mname, 'in_flight') if ff is f and isinstance(st, ast.AugAssign) and isinstance(st.op, ast.Sub)]
        if fq.startswith('HostConnection.'):
            g = CFG(f)
            fl = Flow(g, 0, lambda n, c: c)
            ok = bool(decs)
            for d in decs:
                nd = [n for n in g.stmt_nodes() if n.ast is d]
                for facts, _ in fl.at(nd[0]):
                    if facts.knows('stream_was_orphaned') is not False:
                        ok = False
            chk.judge(ok, 'C09.orphan', f, '%s: in_flight -= 1 only when not stream_was_orphaned' % fq,
                      'an orphaned stream is decremented at timeout and again when its late answer arrives')
        else:
            chk.judge(len(decs) == 1, 'C09.orphan', f, '%s: one in_flight decrement per return' % fq, 'legacy pool decrements %d times' % len(decs))

    # ---- send_msg key + refusal
    sm = conn.func('Connection.send_msg')
    stores = [st for st in body_walk(sm) if isinstance(st, ast.Assign) and isinstance(st.targets[0], ast.Subscript) and src(st.targets[0].value) == 'self._requests']
    enc = [n for n in body_walk(sm) if isinstance(n, ast.Call) and src(n.func) == 'encoder']
    params = [a.arg for a in sm.args.args]
    good = len(stores) == 1 and len(enc) == 1 and src(stores[0].targets[0].slice) == 'request_id' and len(enc[0].args) >= 2 and src(enc[0].args[1]) == 'request_id' \
        and 'request_id' in params and isinstance(stores[0].value, ast.Tuple) and src(stores[0].value.elts[0]) == 'cb'
    chk.judge(good, 'C09.key', sm, 'send_msg: _requests[request_id] = (cb, ...) and encoder(msg, request_id, ...)',
              'the key under which the callback is stored is not the stream id given to the encoder')
    g = CFG(sm)
    fl = Flow(g, 0, lambda n, c: c)
    nd = [n for n in g.stmt_nodes() if stores and n.ast is stores[0]]
    okr = bool(nd) and all(f.knows('self.is_defunct') is False and f.knows('self.is_closed') is False for f, _ in fl.at(nd[0]))
    chk.judge(okr, 'C09.key', sm, 'send_msg registers only when neither defunct nor closed', 'a callback can be registered on a defunct/closed connection')

    # ---- width
    folder = Folder(conn, others=[chk.repo.mod(MARSHAL)])
    mar = chk.repo.mod(MARSHAL)
    init = conn.func('Connection.__init__')
    hs = {}
    for name in ('header_struct', 'v3_header_struct'):
        v = mar.toplevel_assign(name)
        hs[name] = v.args[0].value
    import struct as _struct
    rng = {'b': 2 ** 7 - 1, 'h': 2 ** 15 - 1}
    for st in body_walk(init):
        if isinstance(st, ast.Assign) and src(st.targets[0]) == 'self.max_request_id':
            v = st.value
            if not (isinstance(v, ast.Call) and isinstance(v.func, ast.Name) and v.func.id == 'min'):
                chk.viol('C09.width', st, src(st), 'max_request_id is not capped by min(..., <range of the stream field>)')
                continue
            caps = []
            for a in v.args:
                try:
                    caps.append(folder.eval(a))
                except Unfoldable:
                    pass
            # which arm? the enclosing if tests protocol_version >= 3
            p = parent(st)
            v3 = isinstance(p, ast.If) and st in p.body and normalise_atom(p.test) == ('protocol_version < 3', True)
            fmt = hs['v3_header_struct'] if v3 else hs['header_struct']
            field = fmt[3]
            chk.judge(caps and min(caps) <= rng.get(field, -1), 'C09.width', st, '%s (stream field %r, max %d)' % (src(st), field, rng.get(field, -1)),
                      'stream ids up to %s are allowed but the header stream field %r holds at most %d' % (caps, field, rng.get(field, -1)))
    chk.require('C09.width', 2)
    s = src(gri)
    chk.judge('new_request_id <= self.max_request_id' in s and 'self.highest_request_id + 1' in s and 'self.request_ids.popleft()' in s, 'C09.width', gri,
              'get_request_id: reuse from the pool first, growth bounded by max_request_id', 'id growth is no longer bounded by max_request_id')

    # ---- borrow / send pairing in ResponseFuture._query
    q = cluster.func('ResponseFuture._query')
    raise_tbl = {'pool.borrow_connection': ['NoConnectionsAvailable', 'ConnectionException'], 'connection.send_msg': ['ConnectionBusy', 'ConnectionShutdown', 'Exception']}

    def mr(n):
        out = []
        for x in walk_no_nested(n):
            if isinstance(x, ast.Call) and src(x.func) in raise_tbl:
                out.extend(raise_tbl[src(x.func)])
        return out
    from ..core import ExcHierarchy
    hier = ExcHierarchy(chk.repo, [CONN, POOL, 'cassandra/__init__.py'])
    g = CFG(q, may_raise=mr, exc_hier=hier)

    def step_q(node, c):
        if node.ast is not None and node.kind == 'stmt':
            for x in walk_no_nested(node.ast):
                if isinstance(x, ast.Call):
                    if src(x.func) == 'pool.borrow_connection':
                        c = 'borrowed'
                    elif src(x.func) == 'connection.send_msg':
                        c = 'sent'
                    elif src(x.func) == 'pool.return_connection' and c == 'borrowed-failed':
                        c = 'returned'
        return c

    def edge_q(node, succ, lab, c):
        if lab is not None and lab[0] == 'exc':
            if c == 'borrowed' and node.ast is not None and 'pool.borrow_connection' in src(node.ast):
                return 'none'           # the borrow itself failed
            if c == 'sent':
                return 'borrowed-failed'    # send_msg raised after a successful borrow
            if c == 'borrowed':
                return 'borrowed-failed'
        return c
    fl = Flow(g, 'none', step_q, edge=edge_q)
    leaks = {}
    for facts, c in fl.at(g.exit):
        if c == 'borrowed-failed' and facts.knows('connection') is False:
            continue    # infeasible: after a successful borrow `connection` is bound to the borrowed connection
        if c == 'borrowed-failed':
            w = fl.witness(g.exit, (facts, c))
            handler = [x for x in w if 'except' in x]
            key = handler[-1].split(':', 1)[1].strip() if handler else 'exit'
            leaks[key] = w
    hnames = []
    for n in body_walk(q):
        if isinstance(n, ast.ExceptHandler):
            # one entry per exception class, also when a handler names several: the finding is about the class, not about how the arms are grouped
            if isinstance(n.type, ast.Tuple):
                hnames.extend(src(e_) for e_ in n.type.elts)
            else:
                hnames.append(src(n.type) if n.type is not None else 'bare')
    for h in hnames:
        if h == 'NoConnectionsAvailable':
            continue
        leaked = any(h in k for k in leaks)
        chk.judge(not leaked, 'C09.borrow', q, '_query: except %s returns the borrowed connection' % h,
                  'send_msg raising %s after a successful borrow leaves the connection borrowed: in_flight and the stream id are never released' % h)
    # callback registered before the encoder may raise
    si = src(sm)
    reg_before = si.index('self._requests[request_id]') < si.index('encoder(msg, request_id')
    protected = False
    for n in body_walk(sm):
        if isinstance(n, ast.Try) and any(isinstance(x, ast.Call) and src(x.func) == 'encoder' for b in n.body for x in ast.walk(b)):
            if any('_requests' in src(h) for h in n.handlers) or any('_requests' in src(x) for x in n.finalbody):
                protected = True
    chk.judge((not reg_before) or protected, 'C09.borrow', sm, 'send_msg: callback unregistered if the encoder raises',
              'the callback is registered under the stream id before encoder() can raise and is never unregistered: the stream id stays occupied')

    # both pool classes take part in the stream accounting: an orphaned stream is released by its late answer, not by the timeout
    chk.rule('C09.pools', 'return_connection(stream_was_orphaned=True) does not decrement in_flight in either pool class (shared with C12)')
    chk.borrow('C19', {'C19.resend': 'C09.pools'}, 'the connection borrowed for the re-PREPARE is not handed back on some path: its in_flight count stays up after every request was answered')
    chk.borrow('C12', {'C12.noorphan_dec': 'C09.pools', 'C12.paired': 'C09.pools'}, 'in_flight undercounts and ids beyond the protocol maximum are handed out')

    # removing the pending entry and declaring the stream orphaned is one decision: a response processed between the two steps
    # finds neither an entry nor an orphan, releases the id, and the id is then declared orphaned although it is free
    chk.rule('C09.atomic', '_on_timeout removes the pending entry and registers the stream as orphaned inside one critical section of the connection lock')
    ot_ = cluster.func('ResponseFuture._on_timeout')
    pops_ = [c_ for c_ in body_walk(ot_) if isinstance(c_, ast.Call) and src(c_.func).endswith('_requests.pop')]
    adds_ = [c_ for c_ in body_walk(ot_) if isinstance(c_, ast.Call) and src(c_.func).endswith('orphaned_request_ids.add')]
    if len(pops_) != 1 or len(adds_) != 1:
        raise AnalysisError('_on_timeout: pop / orphan registration not found')
    reg_p = [id(w) for l, w in held(pops_[0]) if l[-1:] == ('lock',)]
    reg_a = [id(w) for l, w in held(adds_[0]) if l[-1:] == ('lock',)]
    chk.judge(bool(reg_p) and bool(set(reg_p) & set(reg_a)), 'C09.atomic', ot_, '_on_timeout: _requests.pop and orphaned_request_ids.add in one locked region',
              'the pending entry is removed outside the lock and the orphan registered later under it: a response processed in between releases the stream id (no entry, not yet '
              'orphaned) without decrementing in_flight, and the id then sits in request_ids and in orphaned_request_ids at once')
