"""C05 - frame reassembly (narrow): header layout/size, completeness tests, dispatch, buffer retention."""
import ast
import struct as _struct

from ..core import AnalysisError, chain, src, body_walk, walk_no_nested
from ..cfg import CFG, Flow, enumerate_paths
from ..fold import Folder, Unfoldable
from ..guards import normalise_atom

CONN = 'cassandra/connection.py'
MARSHAL = 'cassandra/marshal.py'


def check(chk):
    chk.decides = ('the reader\'s header structs mirror the writer\'s per version; the header-complete test counts the version byte; body slice = '
                   '[header size, header size + length); a frame is dispatched only when complete; the frame buffer keeps the unread remainder and the '
                   'current-frame slot is cleared after each dispatch; negative stream ids go to the push handler, others to the callback registered under that id')
    chk.does_not_decide = 'behaviour over all ways of splitting the byte stream (a property of buffer contents at run time)'
    chk.rule('C05.header', 'frame_header_v1_v2 / frame_header_v3 are the writer\'s header structs minus the version byte plus the int32 length')
    chk.rule('C05.size', 'a header is parsed only when size(struct)+1 bytes are buffered; fields are unpacked at offset 1; body_offset = header size; end_pos = header size + length')
    chk.rule('C05.complete', 'process_msg is reached only when the buffered bytes reach end_pos, with the slice [body_offset, end_pos)')
    chk.rule('C05.reset', 'after a dispatch the frame buffer is reset (keeping the remainder) and _current_frame cleared before the next frame is looked at')
    chk.rule('C05.dispatch', 'stream id < 0 -> handle_pushed only; otherwise the callback popped from _requests under that stream id')
    chk.rule('C05.reject', 'negative body length and unsupported versions raise (and defunct the connection)')
    conn = chk.repo.mod(CONN)
    mar = chk.repo.mod(MARSHAL)
    folder = Folder(conn, others=[mar, chk.repo.mod('cassandra/__init__.py')])

    def struct_fmt(mod, name):
        v = mod.toplevel_assign(name)
        if isinstance(v, ast.Call) and (chain(v.func) or ('',))[-1] == 'Struct' and v.args and isinstance(v.args[0], ast.Constant):
            return v.args[0].value
        raise AnalysisError('%s is not a struct.Struct(<literal>)' % name)
    r12, r3 = struct_fmt(conn, 'frame_header_v1_v2'), struct_fmt(conn, 'frame_header_v3')
    w12, w3 = struct_fmt(mar, 'header_struct'), struct_fmt(mar, 'v3_header_struct')
    for r, w, label in ((r12, w12, 'v1/v2'), (r3, w3, 'v3+')):
        want = '>' + w[2:] + 'i'    # drop byte order char and the version byte, append int32 length
        chk.judge(r == want, 'C05.header', (CONN, '<module>', 0), 'reader header struct %s = %r mirrors writer %r + int32 length' % (label, r, w),
                  'reader unpacks %r after the version byte, the writer packs %r then an int32 length (expected %r)' % (r, w, want))

    rfh = conn.func('Connection._read_frame_header')
    s = src(rfh)
    # selection by version
    sel = [n for n in body_walk(rfh) if isinstance(n, ast.IfExp) and 'frame_header_v3' in src(n)]
    good = len(sel) == 1 and src(sel[0].body) == 'frame_header_v3' and src(sel[0].orelse) == 'frame_header_v1_v2' and \
        normalise_atom(sel[0].test) == ('version < 3', True)
    chk.judge(good, 'C05.header', rfh, 'v3 header struct iff version >= 3', 'header struct selection changed: %s' % (src(sel[0]) if sel else None))
    chk.judge('version = buf[0] & PROTOCOL_VERSION_MASK' in s, 'C05.header', rfh, 'version = first byte & PROTOCOL_VERSION_MASK', 'version extraction changed')
    try:
        mask = folder.module_const('PROTOCOL_VERSION_MASK')
    except Unfoldable:
        raise AnalysisError('PROTOCOL_VERSION_MASK')
    chk.judge(mask == 0x7f, 'C05.header', (CONN, '<module>', 0), 'PROTOCOL_VERSION_MASK == 0x7f', 'mask is %r' % mask)

    # header_size definition and use
    hs_defs = [st for st in body_walk(rfh) if isinstance(st, ast.Assign) and src(st.targets[0]) == 'header_size']
    size_ok = len(hs_defs) == 1 and sorted(src(x) for x in _sum(hs_defs[0].value)) == ['1', 'frame_header.size']
    chk.judge(size_ok, 'C05.size', rfh, 'header_size = frame_header.size + 1', 'header size is %s' % (src(hs_defs[0].value) if hs_defs else None))
    unpack = [n for n in body_walk(rfh) if isinstance(n, ast.Call) and isinstance(n.func, ast.Attribute) and n.func.attr == 'unpack_from']
    if len(unpack) != 1:
        raise AnalysisError('_read_frame_header: unpack_from not found')
    u = unpack[0]
    chk.judge(src(u.func.value) == 'frame_header' and len(u.args) == 2 and src(u.args[0]) == 'buf' and src(u.args[1]) == '1', 'C05.size', u,
              'fields unpacked with frame_header.unpack_from(buf, 1)', 'header fields are unpacked as %s' % src(u))
    # the unpack is guarded by pos >= header_size (i.e. the full header incl. version byte is present)
    g = CFG(rfh)
    un = [n for n in g.stmt_nodes() if n.kind == 'stmt' and u in list(walk_no_nested(n.ast))]
    if len(un) != 1:
        raise AnalysisError('_read_frame_header: unpack statement not in CFG')
    fl = Flow(g, 0, lambda n, c: c)
    guard_ok = True
    for facts, _c in fl.at(un[0]):
        k = facts.knows('pos < header_size')
        if k is not False:
            # accept an inlined equivalent
            k2 = facts.knows('pos < frame_header.size + 1')
            if k2 is not False:
                guard_ok = False
    chk.judge(guard_ok and size_ok, 'C05.size', u, 'header unpacked only when pos >= header_size',
              'the header is unpacked when fewer than size(struct)+1 bytes are buffered: a read that leaves the buffer one byte short raises struct.error '
              '(guards known at the unpack: %s)' % sorted(set(repr(f) for f, _ in fl.at(un[0])))[:2])
    # targets of the unpack and the _Frame construction
    asg = [st for st in body_walk(rfh) if isinstance(st, ast.Assign) and st.value is u]
    tg = [src(e) for e in asg[0].targets[0].elts] if asg and isinstance(asg[0].targets[0], ast.Tuple) else []
    chk.judge(tg == ['flags', 'stream', 'op', 'body_len'], 'C05.size', u, 'unpacked as flags, stream, op, body_len', 'header fields bound as %s' % tg)
    fr = [n for n in body_walk(rfh) if isinstance(n, ast.Call) and src(n.func) == '_Frame']
    fparams = [a.arg for a in conn.func('_Frame.__init__').args.args[1:]]
    good = False
    if len(fr) == 1:
        args = dict(zip(fparams, [src(a) for a in fr[0].args]))
        args.update((k.arg, src(k.value)) for k in fr[0].keywords)
        good = args.get('version') == 'version' and args.get('flags') == 'flags' and args.get('stream') == 'stream' and args.get('opcode') == 'op' \
            and args.get('body_offset') == 'header_size' and sorted(args.get('end_pos', '').split(' + ')) == ['body_len', 'header_size']
    chk.judge(good, 'C05.size', rfh, '_Frame(version, flags, stream, op, body_offset=header_size, end_pos=body_len + header_size)',
              'frame record built as %s' % (src(fr[0]) if fr else None))
    fi = conn.func('_Frame.__init__')
    stores = dict((src(st.targets[0]), src(st.value)) for st in fi.body if isinstance(st, ast.Assign))
    chk.judge(all(stores.get('self.' + p) == p for p in fparams), 'C05.size', fi, '_Frame stores each argument under its own name', '_Frame.__init__ mixes fields: %s' % stores)
    # rejects
    paths = enumerate_paths(g)
    neg = [p for p in paths if p.end.kind == 'raise_stmt' and any(normalise_atom(e) == ('body_len < 0', False) and pl for e, pl in p.conds)]
    chk.judge(bool(neg), 'C05.reject', rfh, 'negative body length raises', 'a negative body length is accepted')
    unsup = [p for p in paths if p.end.kind == 'raise_stmt' and any('SUPPORTED_VERSIONS' in src(e) for e, pl in p.conds)]
    chk.judge(bool(unsup), 'C05.reject', rfh, 'unsupported protocol version raises', 'an unsupported version byte is accepted')
    # frame created only after the negative check
    frn = [n for n in g.stmt_nodes() if n.kind == 'stmt' and fr and fr[0] in list(walk_no_nested(n.ast))]
    okf = all(f.knows('body_len < 0') is False for n in frn for f, _ in fl.at(n)) and bool(frn)
    chk.judge(okf, 'C05.reject', rfh, '_Frame built only for body_len >= 0', 'the frame record is created before the length was validated')
    rets = [n for n in body_walk(rfh) if isinstance(n, ast.Return)]
    chk.judge(len(rets) == 1 and src(rets[0].value) == 'pos' and 'pos = len(buf)' in s and 'buf = self._io_buffer.cql_frame_buffer.getvalue()' in s,
              'C05.size', rfh, '_read_frame_header returns the number of buffered bytes', 'returned position is no longer len(buffer)')

    # ---- process_io_buffer
    pib = conn.func('Connection.process_io_buffer')
    g = CFG(pib)
    pm = [n for n in g.stmt_nodes() if n.kind == 'stmt' and 'self.process_msg(' in src(n.ast)]
    if len(pm) != 1:
        raise AnalysisError('process_io_buffer: process_msg call not found')
    fl = Flow(g, 0, lambda n, c: c)
    ok = True
    for facts, _c in fl.at(pm[0]):
        if facts.knows('pos < self._current_frame.end_pos') is not False or facts.knows('self._current_frame') is not True:
            ok = False
    chk.judge(ok, 'C05.complete', pm[0].ast, 'process_msg only with a current frame and pos >= end_pos',
              'a frame can be dispatched before all of its bytes are buffered')
    call = [n for n in ast.walk(pm[0].ast) if isinstance(n, ast.Call) and src(n.func) == 'self.process_msg'][0]
    s = src(pib)
    slice_ok = 'cql_frame_buffer.seek(frame.body_offset)' in s and 'cql_frame_buffer.read(frame.end_pos - frame.body_offset)' in s and \
        [src(a) for a in call.args] == ['frame', 'msg'] and 'frame = self._current_frame' in s
    chk.judge(slice_ok, 'C05.complete', pib, 'body = buffer[body_offset : end_pos] handed to process_msg with its frame',
              'body slice / arguments of process_msg changed')
    # the frame buffer is cut at its cursor after the dispatch: the cursor must stand at end_pos, i.e. the body was read (seek to body_offset, read end_pos - body_offset)
    # on every path to the reset, also for a frame without body
    chk.rule('C05.cursor', 'every path to reset_cql_frame_buffer() has sought to body_offset and read end_pos - body_offset bytes: the cursor is at the end of the frame when the buffer is cut')
    from ..sem import resolve as _res05
    resets = [n for n in g.stmt_nodes() if n.kind == 'stmt' and 'reset_cql_frame_buffer()' in src(n.ast)]
    reads = [n for n in g.stmt_nodes() if n.kind == 'stmt' and any(isinstance(x, ast.Call) and src(x.func).endswith('cql_frame_buffer.read') and x.args
                                                                    and src(_res05(pib, x.args[0])) in ('frame.end_pos - frame.body_offset', 'self._current_frame.end_pos - self._current_frame.body_offset')
                                                                    for x in ast.walk(n.ast))]
    seeks = [n for n in g.stmt_nodes() if n.kind == 'stmt' and any(isinstance(x, ast.Call) and src(x.func).endswith('cql_frame_buffer.seek') and x.args
                                                                    and src(_res05(pib, x.args[0])) in ('frame.body_offset', 'self._current_frame.body_offset') for x in ast.walk(n.ast))]
    if not resets:
        raise AnalysisError('process_io_buffer: reset_cql_frame_buffer() not found')
    okc = all(any(g.dominates(r_, rs) and any(g.dominates(sk_, r_) for sk_ in seeks) for r_ in reads) for rs in resets)
    chk.judge(okc, 'C05.cursor', resets[0].ast, 'the body is read (cursor at end_pos) on every path before the frame buffer is cut at the cursor',
              'a path reaches reset_cql_frame_buffer() without having read the body: the cursor still stands where the header / the arriving bytes left it, and the reset keeps only what '
              'follows the cursor - the bytes of the next frames that arrived in the same buffer are dropped or the stream is cut in the middle of a frame')
    # pos source when a frame is pending
    chk.judge('pos = self._io_buffer.readable_cql_frame_bytes()' in s and 'pos = self._read_frame_header()' in s, 'C05.complete', pib,
              'pos = buffered frame bytes (header read when no frame is pending)', 'position source changed')

    # after dispatch: reset + clear before looping
    def step(node, c):
        if node is pm[0]:
            return ('sent', False, False)
        if c and c[0] == 'sent' and node.kind == 'stmt':
            t = src(node.ast)
            if 'reset_cql_frame_buffer()' in t:
                return ('sent', True, c[2])
            if t.startswith('self._current_frame = None'):
                return ('sent', c[1], True)
        if node.kind == 'join' and c and c[0] == 'sent':
            return ('looped', c[1], c[2])
        return c
    fl2 = Flow(g, ('idle', False, False), step)
    bad = set()
    for n in g.nodes:
        for facts, c in fl2.at(n):
            if c and c[0] == 'looped' and not (c[1] and c[2]):
                bad.add(c)
    if not any(c and c[0] == 'looped' for n in g.nodes for _f, c in fl2.at(n)):
        raise AnalysisError('process_io_buffer: the dispatch never reaches the loop head again')
    if bad and all(b[1] for b in bad):
        # the clearing may live in the callee, provided every normal exit of process_msg has performed it
        pmf_ = conn.func('Connection.process_msg')
        from ..sem import try_body_may_raise
        gpm = CFG(pmf_, may_raise=try_body_may_raise(pmf_))
        flpm = Flow(gpm, False, lambda n, c: True if (n.kind == 'stmt' and n.ast is not None and src(n.ast).startswith('self._current_frame = None')) else c)
        exits = [c for n in gpm.nodes if n.kind in ('exit',) for _f, c in flpm.at(n)]
        if exits and all(exits):
            bad = set()
    chk.judge(not bad, 'C05.reset', pib, 'after process_msg: reset_cql_frame_buffer() and _current_frame = None before the next iteration',
              'the loop continues after a dispatch without %s' % ('resetting the frame buffer' if any(not b[1] for b in bad) else 'clearing _current_frame'))
    rcf = conn.func('_ConnectionIOBuffer.reset_cql_frame_buffer')
    rib = conn.func('_ConnectionIOBuffer.reset_io_buffer')
    chk.judge('io.BytesIO(self._cql_frame_buffer.read())' in src(rcf) and 'self.reset_io_buffer()' in src(rcf) and src(rcf).count('seek(0, 2)') == 1,
              'C05.reset', rcf, 'reset_cql_frame_buffer keeps the unread remainder', 'frame buffer reset drops or re-reads bytes')
    chk.judge('io.BytesIO(self._io_buffer.read())' in src(rib) and 'seek(0, 2)' in src(rib), 'C05.reset', rib, 'reset_io_buffer keeps the unread remainder',
              'io buffer reset drops or re-reads bytes')
    # incomplete -> return without consuming
    ret_paths = 0
    for p in enumerate_paths(g, max_visits=1):
        if p.end.kind == 'return':
            ret_paths += 1
    chk.judge(ret_paths >= 1, 'C05.complete', pib, 'incomplete data returns to wait for more bytes', 'process_io_buffer never returns')

    # ---- process_msg dispatch
    pmf = conn.func('Connection.process_msg')
    s = src(pmf)
    g = CFG(pmf)
    fl = Flow(g, 0, lambda n, c: c)
    hp = [n for n in g.stmt_nodes() if n.kind == 'stmt' and 'self.handle_pushed(' in src(n.ast)]
    cb = [n for n in g.stmt_nodes() if n.kind == 'stmt' and src(n.ast).startswith('callback(response)')]
    if len(hp) != 1 or len(cb) != 1:
        raise AnalysisError('process_msg: dispatch sites not recognised')
    ok1 = all(f.knows('stream_id < 0') is True for f, _ in fl.at(hp[0]))
    ok2 = all(f.knows('stream_id < 0') is False for f, _ in fl.at(cb[0]))
    chk.judge(ok1, 'C05.dispatch', hp[0].ast, 'handle_pushed only for stream_id < 0', 'pushed-event handler reachable for a non-negative stream id')
    chk.judge(ok2, 'C05.dispatch', cb[0].ast, 'callback(response) only for stream_id >= 0', 'request callback reachable for a negative stream id')
    chk.judge('stream_id = header.stream' in s and 'self._requests.pop(stream_id)' in s and 'callback, decoder, result_metadata = self._requests.pop(stream_id)' in s,
              'C05.dispatch', pmf, 'callback popped from _requests under header.stream', 'callback lookup key changed')
    neg_cb = [st for st in body_walk(pmf) if isinstance(st, ast.If) and normalise_atom(st.test) == ('stream_id < 0', False)]
    good = any(any(isinstance(x, ast.Assign) and src(x.targets[0]) == 'callback' and src(x.value) == 'None' for x in st.body) for st in neg_cb)
    chk.judge(good, 'C05.dispatch', pmf, 'no request callback for pushed frames', 'a pushed frame may invoke a request callback')
    chk.judge('header.version' in s and 'header.flags' in s and 'header.opcode' in s and 'body' in s, 'C05.dispatch', pmf,
              'decoder receives the frame\'s own version, flags, opcode and body', 'decoder arguments changed')
    chk.require('C05.size', 6)


def _sum(e):
    if isinstance(e, ast.BinOp) and isinstance(e.op, ast.Add):
        return _sum(e.left) + _sum(e.right)
    return [e]
