"""C37 - cqlengine statements bind every placeholder to its own clause's value."""
import ast
import itertools
import re

from ..core import AnalysisError, src, body_walk, walk_no_nested, chain, qual_of
from ..fold import Folder
from ..absint import Interp, Sym, TriVal, text_of
from ..guards import NONE, FALSY, TRUTHY, TRI

ST = 'cassandra/cqlengine/statements.py'
QUERY = 'cassandra/cqlengine/query.py'
PH = re.compile(r'%\(\{(\d+)\}\)s')


class Run(object):
    """interprets one clause method under a valuation; collects rendered placeholder ids, bound ids, returned size."""

    def __init__(self, mod, folder, cls, valuation, base=10):
        self.mod, self.folder, self.cls, self.val, self.base = mod, folder, cls, valuation, base
        self.rendered = []
        self.bound = []

    def effect(self, interp, call, c, args, kwargs, env):
        f = call.func
        if isinstance(f, ast.Attribute) and f.attr == 'format' and isinstance(f.value, ast.Constant) and isinstance(f.value.value, str):
            for m in PH.finditer(f.value.value):
                i = int(m.group(1))
                a = args[i] if i < len(args) else None
                interp.events.append(('render', a if isinstance(a, int) else ('?', text_of(a))))
            return Sym('fmt')
        if c and c[0] == 'int' and len(c) == 1 and len(args) == 1:
            a = args[0]
            if isinstance(a, TriVal):
                return 1 if a.state == TRUTHY else 0
            if isinstance(a, (bool, int)):
                return int(a)
        if c and c[0] == 'bool' and len(c) == 1 and len(args) == 1 and isinstance(args[0], TriVal):
            return args[0].state == TRUTHY
        if c and c[0] == 'str' and len(c) == 1 and len(args) == 1 and isinstance(args[0], int):
            return str(args[0])
        if c and c[0] == 'len' and len(c) == 1 and len(args) == 1:
            a = args[0]
            if isinstance(a, TriVal):
                return 0 if a.state != TRUTHY else Sym('n_' + a.text)
            if isinstance(a, (list, tuple)):
                return len(a)
        if c and len(c) == 2 and c[0] == 'self' and c[1] == '_analyze':
            return None      # the valuation stands for the state after _analyze
        return NotImplemented


def run_method(mod, folder, cls, name, valuation, base=10):
    it0 = Interp(mod, folder)
    m, owner = it0.resolve_method(cls, name)
    if m is None:
        raise AnalysisError('%s.%s not found' % (cls.name, name))
    r = Run(mod, folder, cls, valuation, base)
    it = Interp(mod, folder, valuation=valuation, effect=r.effect, max_forks=128)
    env = {'self': Sym('self'), 'ctx': Sym('ctx'), 'self.context_id': base, 'self._analyzed': True, '__owner__': owner}
    if any(isinstance(d, ast.Name) and d.id == 'property' for d in m.decorator_list):
        pass
    outs = it.run_all(m, env, cls)
    res = []
    for o in outs:
        bound = []
        for e in o.events:
            if e[0] == 'setitem' and e[1] == 'ctx':
                k = e[2]
                bound.append(k)
        res.append((o, bound))
    r.rendered = [e[1] for e in outs[0].events if e[0] == 'render'] if outs else []
    if len(outs) != 1:
        raise AnalysisError('%s.%s: %d outcomes under a complete valuation (unexpected symbolic branch: %s)' % (cls.name, name, len(outs), [o.choices for o in outs][:2]))
    return m, r, res


def renumber_loops(chk, rule):
    """every loop of an update_context_id method that hands out ids advances the counter by what it handed out"""
    mod = chk.repo.mod('cassandra/cqlengine/statements.py')
    n = 0
    for q, f in mod.functions():
        if not q.endswith('.update_context_id'):
            continue
        for lp in [x for x in body_walk(f) if isinstance(x, ast.For)]:
            sets = [c for c in ast.walk(lp) if isinstance(c, ast.Call) and isinstance(c.func, ast.Attribute) and c.func.attr == 'set_context_id']
            if not sets:
                continue
            n += 1
            v = src(lp.target)
            adv = [a for a in ast.walk(lp) if isinstance(a, ast.AugAssign) and isinstance(a.op, ast.Add) and src(a.target) == 'self.context_counter'
                   and src(a.value) == '%s.get_context_size()' % v]
            good = len(sets) == 1 and src(sets[0].func.value) == v and [src(a) for a in sets[0].args] == ['self.context_counter'] and len(adv) == 1
            chk.judge(good, rule, lp, '%s: for %s in %s: set_context_id(context_counter); context_counter += get_context_size()' % (q, v, src(lp.iter)),
                      'the loop over %s renumbers its clauses without advancing the counter by their size: in a batch (the only caller of update_context_id) two clauses of one '
                      'statement - e.g. two map-key removals - get the same placeholder id and the second value overwrites the first' % src(lp.iter))
    if n < 3:
        raise AnalysisError('update_context_id loops: found %d, expected at least 3' % n)


def check(chk):
    chk.decides = ('for every clause class and every None / empty / non-empty valuation of the attributes it tests: the placeholder ids rendered by '
                   '__unicode__, the ids bound by update_context and the count returned by get_context_size agree; each statement class renumbers and binds '
                   'exactly the clause lists it renders, each list once, in one consistent order; adding a clause assigns the running counter and advances it '
                   'by the clause\'s size; a batch offsets each statement by the number of values bound so far')
    chk.does_not_decide = 'that the rendered WHERE / IF / SET text is what the caller asked for (query-set semantics)'
    chk.rule('C37.triple', 'per clause class and valuation: ids rendered == ids bound and their number == get_context_size()')
    chk.rule('C37.analyze', 'methods that read the outputs of _analyze call it first (unless analysed)')
    chk.rule('C37.lists', 'per statement class: clause lists rendered == lists renumbered by update_context_id (each once) == lists bound by get_context')
    chk.rule('C37.adders', 'adding a clause: set_context_id(context_counter); context_counter += get_context_size(); append')
    chk.rule('C37.batch', 'BatchQuery offsets each statement by len(parameters) so far and merges the contexts')
    chk.rule('C37.where', 'WhereClause: IN binds an InQuoter; IS NOT NULL renders no placeholder, binds nothing and counts 0')
    mod = chk.repo.mod(ST)
    folder = Folder(mod)

    # ---- simple clauses: one placeholder, one binding, size 1
    fm = chk.repo.mod('cassandra/cqlengine/functions.py')
    base = mod.cls('BaseClause')
    it0 = Interp(mod, folder)
    bupd, _ = it0.resolve_method(base, 'update_context')
    bsiz, _ = it0.resolve_method(base, 'get_context_size')
    binds = [n for n in body_walk(bupd) if isinstance(n, ast.Subscript) and src(n.value) == 'ctx' and isinstance(n.ctx, ast.Store)]
    rets = [n for n in body_walk(bsiz) if isinstance(n, ast.Return)]
    chk.judge(len(binds) == 1 and src(binds[0].slice) == 'str(self.context_id)' and len(rets) == 1 and src(rets[0].value) == '1', 'C37.triple', base,
              'BaseClause: binds str(context_id), size 1', 'BaseClause bind/size changed')
    for cname in ('AssignmentClause', 'ConditionalClause', 'CounterUpdateClause'):
        cls = mod.cls(cname)
        uni, _ = it0.resolve_method(cls, '__unicode__')
        upd, _ = it0.resolve_method(cls, 'update_context')
        siz, _ = it0.resolve_method(cls, 'get_context_size')
        fmts = [n for n in body_walk(uni) if isinstance(n, ast.Call) and isinstance(n.func, ast.Attribute) and n.func.attr == 'format' and isinstance(n.func.value, ast.Constant)]
        ids = []
        for fc in fmts:
            for mm in PH.finditer(fc.func.value.value):
                ids.append(src(fc.args[int(mm.group(1))]))
        binds = [src(n.slice) for n in body_walk(upd) if isinstance(n, ast.Subscript) and src(n.value) == 'ctx' and isinstance(n.ctx, ast.Store)]
        rets = [n for n in body_walk(siz) if isinstance(n, ast.Return)]
        size = rets[0].value.value if len(rets) == 1 and isinstance(rets[0].value, ast.Constant) else None
        chk.judge(ids == ['self.context_id'] and binds == ['str(self.context_id)'] and size == 1, 'C37.triple', cls, '%s: renders %%(context_id)s, binds str(context_id), size 1' % cname,
                  '%s renders ids %s, binds %s, size %r' % (cname, ids, binds, size))
    qv = fm.cls('QueryValue')
    sq = src(qv)
    chk.judge("format_string = '%({0})s'" in sq and 'self.format_string.format(self.context_id)' in sq and 'ctx[str(self.context_id)] = self.value' in sq and 'return 1' in sq, 'C37.triple', qv,
              'QueryValue: renders %(context_id)s, binds str(context_id), size 1', 'QueryValue changed')
    tk = fm.cls('Token')
    st = src(tk)
    chk.judge("'%({0})s'.format(self.context_id + i) for i in range(self.get_context_size())" in st and 'ctx[str(self.context_id + i)] = col.to_database(val)' in st and 'return len(self.value)' in st, 'C37.triple', tk,
              'Token: one id per key component in render, bind and count', 'Token id arithmetic changed')
    wc_ = mod.cls('WhereClause')
    sw = src(wc_)
    chk.judge('self.query_value.set_context_id(i)' in sw and 'return self.query_value.get_context_size()' in sw and 'str(self.query_value)' in sw and 'self.query_value.update_context(ctx)' in sw, 'C37.triple', wc_,
              'WhereClause delegates id, size, rendering and binding to its query value', 'WhereClause delegation changed')
    # IsNotNull / FieldDelete: nothing
    for cname in ('IsNotNullClause', 'FieldDeleteClause'):
        cls = mod.cls(cname)
        it0 = Interp(mod, folder)
        uni, _ = it0.resolve_method(cls, '__unicode__')
        upd, _ = it0.resolve_method(cls, 'update_context')
        siz, _ = it0.resolve_method(cls, 'get_context_size')
        binds = [n for n in body_walk(upd) if isinstance(n, ast.Subscript) and src(n.value) == 'ctx']
        rets = [n for n in body_walk(siz) if isinstance(n, ast.Return)]
        chk.judge(not PH.findall(src(uni)) and '%(' not in src(uni) and not binds and len(rets) == 1 and src(rets[0].value) == '0', 'C37.where' if cname == 'IsNotNullClause' else 'C37.triple', cls,
                  '%s: no placeholder, nothing bound, size 0' % cname, '%s renders/binds/counts inconsistently' % cname)
    wc = mod.cls('WhereClause')
    upd = [f for f in wc.body if isinstance(f, ast.FunctionDef) and f.name == 'update_context'][0]
    s = src(upd)
    chk.judge('isinstance(self.operator, InOperator)' in s and 'InQuoter(self.value)' in s and 'ctx[str(self.context_id)]' in s, 'C37.where', upd, 'IN binds an InQuoter under the clause id', 'IN binding changed')

    # ---- container clauses
    specs = {
        'SetUpdateClause': ['self.previous', 'self._assignments', 'self._additions', 'self._removals'],
        'ListUpdateClause': ['self._assignments', 'self._prepend', 'self._append'],
    }
    for cname, vars_ in specs.items():
        cls = mod.cls(cname)
        for combo in itertools.product(TRI, repeat=len(vars_)):
            val = dict(zip(vars_, combo))
            label = '%s @ %s' % (cname, ', '.join('%s=%s' % (k.split('.')[-1], v) for k, v in val.items()))
            _m, r1, o1 = run_method(mod, folder, cls, '__unicode__', val)
            rendered = [x for x in r1.rendered]
            _m, r2, o2 = run_method(mod, folder, cls, 'update_context', val)
            bound = o2[0][1] if o2 else []
            _m, r3, o3 = run_method(mod, folder, cls, 'get_context_size', val)
            size = o3[0][0].value if o3 else None
            rid = [str(x) for x in rendered]
            probs = []
            if rid != [b.replace("'", '') for b in bound]:
                probs.append('rendered ids %s, bound ids %s' % (rid, bound))
            if size != len(rid):
                probs.append('renders %d placeholder(s), get_context_size() = %r' % (len(rid), size))
            chk.judge(not probs, 'C37.triple', cls, label, '; '.join(probs))
    # the k-th placeholder rendered and the k-th value bound belong to the same operation (assignment / prepend / append / add / remove)
    def slot_order(fn):
        out = []
        for n in body_walk(fn):
            if isinstance(n, ast.If) and any('ctx_id' in src(x) or 'ctx[' in src(x) or 'qs' in src(x) for x in n.body):
                attrs = sorted(set(a.attr for a in ast.walk(n.test) if isinstance(a, ast.Attribute) and src(a.value) == 'self' and a.attr.startswith('_')))
                if attrs:
                    out.append(tuple(attrs))
        return out
    for cname in ('SetUpdateClause', 'ListUpdateClause'):
        cls = mod.cls(cname)
        itx = Interp(mod, folder)
        fu, _ = itx.resolve_method(cls, '__unicode__')
        fb, _ = itx.resolve_method(cls, 'update_context')
        ou, ob = slot_order(fu), slot_order(fb)
        if len(ou) < 2:
            raise AnalysisError('%s: render slots not recognised' % cname)
        chk.judge(ou == ob, 'C37.triple', cls, '%s: operations take their placeholders in the same order in render and bind %s' % (cname, ou),
                  'render takes ids in the order %s, bind in the order %s: when both operations occur in one update each placeholder receives the other one\'s value' % (ou, ob))
    # map: finite part + loop step agreement
    mcls = mod.cls('MapUpdateClause')
    for prev, upd_, rem in itertools.product(TRI, TRI, TRI):
        if upd_ == TRUTHY:
            continue       # symbolic number of updates: covered by the loop-step rule below
        val = {'self.previous': prev, 'self._updates': upd_, 'self._removals': rem}
        label = 'MapUpdateClause @ previous=%s, _updates=%s, _removals=%s' % (prev, upd_, rem)
        _m, r1, o1 = run_method(mod, folder, mcls, '__unicode__', val)
        _m, r2, o2 = run_method(mod, folder, mcls, 'update_context', val)
        _m, r3, o3 = run_method(mod, folder, mcls, 'get_context_size', val)
        rid = [str(x) for x in r1.rendered]
        bound = [b.replace("'", '') for b in (o2[0][1] if o2 else [])]
        size = o3[0][0].value if o3 else None
        probs = []
        if rid != bound:
            probs.append('rendered ids %s, bound ids %s' % (rid, bound))
        if size != len(rid):
            probs.append('renders %d placeholder(s), get_context_size() = %r' % (len(rid), size))
        chk.judge(not probs, 'C37.triple', mcls, label, '; '.join(probs))
    it0 = Interp(mod, folder)
    mu, _ = it0.resolve_method(mcls, '__unicode__')
    mb, _ = it0.resolve_method(mcls, 'update_context')
    ms, _ = it0.resolve_method(mcls, 'get_context_size')
    step_u = [n for n in body_walk(mu) if isinstance(n, ast.AugAssign) and src(n.target) == 'ctx_id' and any(isinstance(p_, ast.For) for p_ in _parents(n))]
    step_b = [n for n in body_walk(mb) if isinstance(n, ast.AugAssign) and src(n.target) == 'ctx_id' and any(isinstance(p_, ast.For) for p_ in _parents(n))]
    good = len(step_u) == 1 and len(step_b) == 1 and src(step_u[0].value) == src(step_b[0].value) == '2' and 'len(self._updates or []) * 2' in src(ms) \
        and 'ctx_id, ctx_id + 1' in src(mu) and 'ctx[str(ctx_id)] = key' in src(mb) and 'ctx[str(ctx_id + 1)] = val' in src(mb)
    chk.judge(good, 'C37.triple', mcls, 'MapUpdateClause updates: two ids per key in render, bind and count', 'per-key id arithmetic differs between render, bind and count')
    dcls = mod.cls('MapDeleteClause')
    du, _ = it0.resolve_method(dcls, '__unicode__')
    db, _ = it0.resolve_method(dcls, 'update_context')
    dsz, _ = it0.resolve_method(dcls, 'get_context_size')
    good = 'self.context_id + i' in src(du) and 'self.context_id + idx' in src(db) and 'len(self._removals)' in src(dsz) and 'self._removals' in src(du) and 'self._removals' in src(db)
    chk.judge(good, 'C37.triple', dcls, 'MapDeleteClause: one id per removed key in render, bind and count', 'MapDeleteClause id arithmetic changed')
    # analyze first
    for cname in ('SetUpdateClause', 'ListUpdateClause', 'MapUpdateClause', 'MapDeleteClause'):
        cls = mod.cls(cname)
        for f in cls.body:
            if isinstance(f, ast.FunctionDef) and f.name in ('get_context_size', 'update_context', '__unicode__'):
                reads = any(isinstance(n, ast.Attribute) and n.attr in ('_assignments', '_additions', '_removals', '_append', '_prepend', '_updates') for n in body_walk(f))
                calls = 'self._analyze()' in src(f) or 'self.is_assignment' in src(f)
                if reads:
                    # __unicode__ is always preceded by get_context_size (adders call it before the clause is stored), so it may rely on the analysed state
                    chk.judge(calls or f.name == '__unicode__', 'C37.analyze', f, '%s.%s analyses before reading' % (cname, f.name),
                              '%s.%s reads the analysis results without calling _analyze()' % (cname, f.name), nontrivial=calls)

    # ---- statement containers
    LISTS = ('where_clauses', 'assignments', 'conditionals', 'fields')

    def chain_methods(cls, name):
        """methods named `name` along the MRO that the most-derived one reaches through super()."""
        out = []
        it0 = Interp(mod, folder)
        m, owner = it0.resolve_method(cls, name)
        guard = 0
        while m is not None and guard < 6:
            guard += 1
            out.append((m, owner))
            sup = [n for n in body_walk(m) if isinstance(n, ast.Call) and isinstance(n.func, ast.Attribute) and n.func.attr == name and isinstance(n.func.value, ast.Call)
                   and src(n.func.value.func) == 'super']
            if not sup:
                break
            sargs = sup[0].func.value.args
            after = mod.get(sargs[0].id) if sargs and isinstance(sargs[0], ast.Name) and mod.has(sargs[0].id) else owner
            m, owner = it0.resolve_method(cls, name, after=after)
        return out

    def lists_in(fn, marker):
        """clause lists iterated by loops whose body contains `marker`"""
        found = []
        for n in body_walk(fn):
            if isinstance(n, ast.For) and marker in src(n):
                for a in ast.walk(n.iter):
                    if isinstance(a, ast.Attribute) and a.attr in LISTS and src(a.value) == 'self':
                        found.append(a.attr)
        return found
    for cname in ('SelectStatement', 'InsertStatement', 'UpdateStatement', 'DeleteStatement'):
        cls = mod.cls(cname)
        it0 = Interp(mod, folder)
        uni, _ = it0.resolve_method(cls, '__unicode__')
        s_u = src(uni)
        rendered = set()
        if 'self._where' in s_u:
            rendered.add('where_clauses')
        if 'self._get_conditionals()' in s_u:
            rendered.add('conditionals')
        for l in ('assignments', 'fields'):
            if 'self.%s' % l in s_u and not (l == 'fields' and cname == 'SelectStatement'):     # SELECT fields are column names, not clauses
                rendered.add(l)
        renum = []
        for m, owner in chain_methods(cls, 'update_context_id'):
            renum += lists_in(m, 'set_context_id')
        bound = []
        for m, owner in chain_methods(cls, 'get_context'):
            bound += lists_in(m, 'update_context')
        dups = sorted(set(l for l in renum if renum.count(l) > 1))
        chk.judge(not dups, 'C37.lists', cls, '%s: each clause list renumbered once by update_context_id (%s)' % (cname, sorted(renum)),
                  'update_context_id renumbers %s more than once along the class chain: ids are skipped, and a batch then lets the next statement reuse this statement\'s ids' % dups)
        chk.judge(rendered <= set(renum), 'C37.lists', cls, '%s: rendered lists %s are all renumbered' % (cname, sorted(rendered)),
                  'lists %s are rendered but never renumbered: in a batch their placeholders keep ids that collide with an earlier statement' % sorted(rendered - set(renum)))
        chk.judge(rendered <= set(bound), 'C37.lists', cls, '%s: rendered lists %s are all bound' % (cname, sorted(rendered)),
                  'lists %s are rendered but get_context() never binds them' % sorted(rendered - set(bound)))
        chk.judge(len(set(bound)) == len(bound), 'C37.lists', cls, '%s: each list bound once' % cname, 'get_context binds a list twice: %s' % bound)
    renumber_loops(chk, 'C37.lists')
    base_uc = mod.func('BaseCQLStatement.update_context_id')
    s = src(base_uc)
    chk.judge('self.context_id = i' in s and 'self.context_counter = self.context_id' in s, 'C37.lists', base_uc, 'renumbering restarts the counter at the offset', 'renumbering does not restart at the offset')
    # adders
    for q in ('BaseCQLStatement._add_where_clause', 'BaseCQLStatement.add_conditional_clause', 'AssignmentStatement._add_assignment_clause', 'DeleteStatement.add_field'):
        f = mod.func(q)
        good = _adder_ok(mod, f)
        chk.judge(good, 'C37.adders', f, '%s: set id, advance by size, append' % q, 'adder no longer assigns then advances the counter by the clause size')
    # batch
    q = chk.repo.mod(QUERY)
    be = q.func('BatchQuery.execute')
    s = src(be)
    chk.judge('query.update_context_id(ctx_counter)' in s and 'ctx_counter += len(ctx)' in s and 'parameters.update(ctx)' in s and 'ctx = query.get_context()' in s, 'C37.batch', be,
              'batch: offset by the running count, bind, merge, advance by the number of bound values', 'batch context arithmetic changed')
    chk.judge(s.index('query.update_context_id(ctx_counter)') < s.index('ctx = query.get_context()') < s.index('ctx_counter += len(ctx)'), 'C37.batch', be, 'offset applied before the context is taken', 'order of offset/bind changed')
    # every statement of the batch is renumbered, unconditionally, once per pass: clause objects can be shared between queued statements
    # (DMLQuery.update builds its DELETE from the same condition clauses), so "already numbered" cannot be inferred from the statement's own id
    loops = [n for n in body_walk(be) if isinstance(n, ast.For) and src(n.iter) == 'self.queries']
    ok = len(loops) == 1
    if ok:
        top = [src(st) for st in loops[0].body]
        ok = top.count('query.update_context_id(ctx_counter)') == 1 and top.count('ctx = query.get_context()') == 1 and top.count('ctx_counter += len(ctx)') == 1 and \
            top.index('query.update_context_id(ctx_counter)') < top.index('ctx = query.get_context()') < top.index('ctx_counter += len(ctx)')
    chk.judge(ok, 'C37.batch', be, 'each queued statement is renumbered unconditionally (top level of the loop) before its context is taken', 'renumbering of a batch statement is conditional or missing: shared clause objects keep the ids of another statement and two placeholders collide')
    # two statements built from the same clause objects (the queryset's where / conditional clauses): building the second renumbers the clauses the first one renders,
    # so the first has to be executed (rendered and bound) before the second is built
    chk.rule('C37.shared', 'ModelQuerySet.update: the UPDATE is executed before the DELETE that shares its where / conditional clause objects is constructed')
    mqu = q.func('ModelQuerySet.update')
    from ..cfg import CFG as _CFG37
    g37 = _CFG37(mqu)
    dsn = [n for n in g37.stmt_nodes() if n.kind == 'stmt' and n.ast is not None and any(isinstance(x, ast.Call) and src(x.func) == 'DeleteStatement' for x in ast.walk(n.ast))]
    exu = [n for n in g37.stmt_nodes() if n.kind == 'stmt' and n.ast is not None and any(isinstance(x, ast.Call) and src(x.func) == 'self._execute' and x.args and src(x.args[0]) == 'us'
                                                                                         for x in ast.walk(n.ast))]
    if not dsn or not exu:
        raise AnalysisError('ModelQuerySet.update: DeleteStatement construction / execution of the UPDATE not found')

    def _reach37(a_, b_):
        seen_, work_ = set(), [x_ for x_, _l in a_.succ]
        while work_:
            n_ = work_.pop()
            if n_.id in seen_:
                continue
            seen_.add(n_.id)
            if n_ is b_:
                return True
            work_.extend(x_ for x_, _l in n_.succ)
        return False
    late = [(d_, e_) for d_ in dsn for e_ in exu if _reach37(d_, e_)]
    chk.judge(not late, 'C37.shared', dsn[0].ast, 'the DELETE for nulled columns is built after the UPDATE was executed',
              'the DeleteStatement is constructed before self._execute(us): both statements number the same where / condition clause objects, so the UPDATE is rendered with the ids the DELETE gave '
              'them - `IF "a" = %(2)s AND "b" = %(2)s` - and a condition receives another condition\'s value')
    chk.require('C37.triple', 100)
    chk.require('C37.lists', 12)


def _parents(n):
    from ..core import parent
    p = parent(n)
    while p is not None:
        yield p
        p = parent(p)


def _set_then_advance(stmts, var):
    """in the statement list: var.set_context_id(self.context_counter) and, after it, the counter advanced by var.get_context_size() (each exactly once)"""
    sets = [i for i, st in enumerate(stmts) if src(st) == '%s.set_context_id(self.context_counter)' % var]
    adv = [i for i, st in enumerate(stmts) if src(st) in ('self.context_counter += %s.get_context_size()' % var,
                                                          'self.context_counter = self.context_counter + %s.get_context_size()' % var,
                                                          'self.context_counter = %s.get_context_size() + self.context_counter' % var)]
    return len(sets) == 1 and len(adv) == 1 and sets[0] < adv[0]


def _adder_ok(mod, f):
    """the adder numbers exactly the clause it appends: inline (set id, advance by its size) or through a method of the statement class that does
    that for each clause of the sequence it is given, called with a one-element display holding the clause"""
    body = [x for x in f.body if not (isinstance(x, ast.Expr) and isinstance(x.value, ast.Constant))]
    apps = [st for st in body if isinstance(st, ast.Expr) and isinstance(st.value, ast.Call) and isinstance(st.value.func, ast.Attribute) and st.value.func.attr == 'append'
            and len(st.value.args) == 1 and isinstance(st.value.args[0], ast.Name)]
    if len(apps) != 1:
        return False
    var = apps[0].value.args[0].id
    if _set_then_advance(body, var):
        return True
    # the same through a loop over a one-element display (an inlined numbering helper)
    for st in body:
        if isinstance(st, ast.For) and isinstance(st.iter, (ast.Tuple, ast.List)) and [src(e) for e in st.iter.elts] == [var] and isinstance(st.target, ast.Name) and not st.orelse \
                and len(st.body) == 2 and _set_then_advance(st.body, st.target.id):
            return True
    calls = [st.value for st in body if isinstance(st, ast.Expr) and isinstance(st.value, ast.Call) and isinstance(st.value.func, ast.Attribute) and src(st.value.func.value) == 'self'
             and len(st.value.args) == 1 and isinstance(st.value.args[0], (ast.Tuple, ast.List)) and [src(e) for e in st.value.args[0].elts] == [var]]
    if len(calls) != 1:
        return False
    cname = qual_of(f).split('.')[0]
    seen = set()
    while cname and cname not in seen:
        seen.add(cname)
        if mod.has('%s.%s' % (cname, calls[0].func.attr)):
            h = mod.func('%s.%s' % (cname, calls[0].func.attr))
            params = [a.arg for a in h.args.args][1:]
            hb = [x for x in h.body if not (isinstance(x, ast.Expr) and isinstance(x.value, ast.Constant))]
            return len(params) == 1 and len(hb) == 1 and isinstance(hb[0], ast.For) and src(hb[0].iter) == params[0] and isinstance(hb[0].target, ast.Name) \
                and not hb[0].orelse and len(hb[0].body) == 2 and _set_then_advance(hb[0].body, hb[0].target.id)
        bases = [src(b_) for b_ in mod.cls(cname).bases] if mod.has(cname) else []
        cname = bases[0] if bases and mod.has(bases[0]) else None
    return False
