"""C28 - type descriptors (narrow): name tables, frozen wrappers, UDT parameter decoding and class cache validity."""
import ast

from ..core import AnalysisError, src, body_walk, chain, parent
from ..cfg import CFG, Flow
from ..fold import Folder, Unfoldable
from ..guards import normalise_atom
from .c03 import load_spec

CQLTYPES = 'cassandra/cqltypes.py'


def class_attr(mod, c, name):
    cur = c
    guard = 0
    while cur is not None and guard < 10:
        guard += 1
        for st in cur.body:
            if isinstance(st, ast.Assign) and isinstance(st.targets[0], ast.Name) and st.targets[0].id == name:
                return st.value
        nxt = None
        for b in cur.bases:
            bc = chain(b)
            if bc and mod.has(bc[-1]) and isinstance(mod.get(bc[-1]), ast.ClassDef):
                nxt = mod.get(bc[-1])
                break
        cur = nxt
    return None


def check(chk):
    chk.decides = ('the registry triples (marshal class name, CQL name, number of subtypes) against a specification table, uniqueness of names, '
                   'frozen<> wrappers of tuple/UDT notation, the marshal prefix rule, hex decoding of UDT keyspace/type/field names, that a cached UDT class is '
                   'reused only when both field names and field types are equal, and that only a vector takes numeric parameters')
    chk.does_not_decide = 'parse-then-print identities of lookup_casstype / strip_frozen over unbounded nesting (string algorithms)'
    chk.rule('C28.names', 'each registered type class has the CQL name and arity of the specification table; names are unique per registry')
    chk.rule('C28.notation', 'tuple and UDT print as frozen<...>; parameterized types print name<sub, ...>; the marshal prefix is added exactly for undotted names')
    chk.rule('C28.udt', 'UserType.apply_parameters decodes keyspace, hex type name and hex field names from the right positions; make_udt_class reuses a cached class '
                        'only if field names and field types both match')
    chk.rule('C28.parse', 'descriptor tokens: only parameters of a VectorType are read as numbers; unknown names become unrecognized types; the registry is keyed by class name')
    spec = load_spec()
    mod = chk.repo.mod(CQLTYPES)
    folder = Folder(mod)
    regs = {}
    for q, c in mod.classes():
        if '.' in q or q.startswith('_'):
            continue
        metas = [k for k in c.keywords if k.arg == 'metaclass']
        # registered = derives (transitively) from _CassandraType
        cur = c
        derived = False
        guard = 0
        while cur is not None and guard < 10:
            guard += 1
            if cur.name == '_CassandraType':
                derived = True
                break
            nxt = None
            for b in cur.bases:
                bc = chain(b)
                nm = bc[-1] if bc else None
                if nm == 'CassandraType':
                    nm = '_CassandraType'
                if nm and mod.has(nm) and isinstance(mod.get(nm), ast.ClassDef):
                    nxt = mod.get(nm)
                    break
            cur = nxt
        if not derived:
            continue
        tn = class_attr(mod, c, 'typename')
        ns = class_attr(mod, c, 'num_subtypes')
        try:
            regs[q] = (folder.eval(tn) if tn is not None else None, folder.eval(ns) if ns is not None else 0, c)
        except Unfoldable:
            regs[q] = (src(tn), src(ns), c)
    if len(regs) < 35:
        raise AnalysisError('only %d registered type classes found' % len(regs))
    for name, (cql, arity) in sorted(spec.TYPE_NAMES.items()):
        if name not in regs:
            chk.viol('C28.names', (CQLTYPES, '<module>', 0), '%s registered' % name, 'type class %s is gone: its marshal descriptor parses to an unrecognized type' % name)
            continue
        got = regs[name]
        chk.judge(got[0] == cql and got[1] == arity, 'C28.names', got[2], '%s: typename %r, num_subtypes %r' % (name, cql, arity),
                  '%s has typename %r / num_subtypes %r, expected %r / %r' % (name, got[0], got[1], cql, arity))
    byname = {}
    for q, (tn, ns, c) in regs.items():
        byname.setdefault(tn, []).append(q)
    dup = dict((k, v) for k, v in byname.items() if len(v) > 1 and not k.startswith('org.apache') and k not in ('timestamp',))
    chk.judge(not dup, 'C28.names', (CQLTYPES, '<module>', 0), 'CQL type names are unique in the registry', 'two classes register the same CQL name (the later silently wins): %s' % dup)
    mc = mod.func('CassandraTypeType.__new__')
    s = src(mc)
    chk.judge("dct.setdefault('cassname', name)" in s and '_casstypes[name] = cls' in s and '_cqltypes[cls.typename] = cls' in s and "name.startswith('_')" in s, 'C28.parse', mc,
              'metaclass registers by class name (cass) and by typename (cql), skipping underscore classes', 'registration metaclass changed')
    # notation
    for cname, frag in (('TupleType', "'frozen<tuple<%s>>'"), ('UserType', "'frozen<%s>'")):
        f = mod.func('%s.cql_parameterized_type' % cname)
        chk.judge(frag in src(f), 'C28.notation', f, '%s prints as %s' % (cname, frag), '%s no longer prints with its frozen<> wrapper' % cname)
    f = mod.func('_CassandraType.cql_parameterized_type')
    chk.judge("'%s<%s>' % (cls.typename, ', '.join((styp.cql_parameterized_type() for styp in cls.subtypes)))" in src(f) and 'if not cls.subtypes' in src(f), 'C28.notation', f,
              'parameterized CQL notation name<sub, sub>', 'CQL notation changed')
    f = mod.func('_CassandraType.cass_parameterized_type_with')
    g = CFG(f)
    fl = Flow(g, 0, lambda n, c: c)
    pre = [n for n in g.stmt_nodes() if n.kind == 'stmt' and 'apache_cassandra_type_prefix + cname' in src(n.ast)]
    ok = len(pre) == 1 and all(fa.knows('full') is True and fa.knows("'.' in cname") is False for fa, _ in fl.at(pre[0]))
    chk.judge(ok, 'C28.notation', f, 'marshal prefix added exactly when full and the name has no dot', 'prefix rule changed')
    # UDT
    ap = mod.func('UserType.apply_parameters')
    s = src(ap)
    good = 'subtypes[0].cass_parameterized_type()' in s and '_name_from_hex_string(subtypes[1].cassname)' in s and 'for encoded_name in names[2:]' in s and '_name_from_hex_string(encoded_name)' in s \
        and 'tuple(subtypes[2:])' in s
    chk.judge(good, 'C28.udt', ap, 'UDT descriptor: [0] keyspace, [1] hex type name, names[2:] hex field names, subtypes[2:] field types', 'UDT parameter positions / hex decoding changed')
    nh = mod.func('_name_from_hex_string')
    dec = [n for n in body_walk(nh) if isinstance(n, ast.Call) and isinstance(n.func, ast.Attribute) and n.func.attr == 'decode']
    codec = (dec[0].args[0].value if dec and dec[0].args and isinstance(dec[0].args[0], ast.Constant) else 'utf-8') if dec else None
    chk.judge('unhexlify' in src(nh) and codec is not None and codec.lower().replace('-', '') == 'utf8', 'C28.udt', nh, 'names are unhexlified and decoded as UTF-8',
              'hex-encoded names are decoded with codec %r: a UDT or field with a non-ASCII name cannot be parsed' % codec)
    mk = mod.func('UserType.make_udt_class')
    ifs = [n for n in body_walk(mk) if isinstance(n, ast.If) and 'instance' in src(n.test)]
    if len(ifs) != 1:
        raise AnalysisError('make_udt_class: cache validity test not found')
    t = ifs[0].test
    atoms = set(normalise_atom(v) for v in (t.values if isinstance(t, ast.BoolOp) and isinstance(t.op, ast.Or) else [t]))
    want = set([('instance', True), ('instance.fieldnames == field_names', True), ('instance.subtypes == field_types', True)])
    chk.judge(atoms == want, 'C28.udt', ifs[0], 'cached UDT class reused only if field names and field types are equal: %s' % src(t),
              'the cache-validity test is %s: a re-parsed UDT with the same name but different field types would keep the stale class and its codec' % src(t))
    chk.judge("cls._cache.get((keyspace, udt_name))" in src(mk) and "cls._cache[keyspace, udt_name] = instance" in src(mk).replace('(keyspace, udt_name)]', 'keyspace, udt_name]'), 'C28.udt', mk,
              'cache keyed by (keyspace, type name)', 'UDT cache key changed')
    # parse
    pa = mod.func('parse_casstype_args')
    # the conversion may sit in parse_casstype_args itself or in a module-level helper it calls
    scopes_ = [pa]
    for c_ in body_walk(pa):
        if isinstance(c_, ast.Call) and isinstance(c_.func, ast.Name) and mod.has(c_.func.id) and isinstance(mod.get(c_.func.id), ast.FunctionDef) \
                and c_.func.id not in ('lookup_casstype_simple', 'lookup_casstype') and mod.get(c_.func.id) not in scopes_:
            scopes_.append(mod.get(c_.func.id))
    ints = []
    ok = True
    for fn_ in scopes_:
        its = [n for n in body_walk(fn_) if isinstance(n, ast.Call) and isinstance(n.func, ast.Name) and n.func.id == 'int']
        if not its:
            continue
        ints.extend(its)
        g = CFG(fn_)
        fl = Flow(g, 0, lambda n, c: c)
        for i in its:
            nd = [n for n in g.stmt_nodes() if n.kind in ('stmt', 'return') and any(x is i for x in ast.walk(n.ast))]
            if not nd:
                ok = False
            for n in nd:
                for fa, _ in fl.at(n):
                    if not any('VectorType' in k and p for k, p in fa.items):
                        ok = False
    chk.judge(ok and bool(ints), 'C28.parse', pa, 'a token is read as a number only as a parameter of VectorType',
              'every all-digit token becomes an int: a UDT whose hex-encoded name has only digits (e.g. "address" = 61646472657373) fails to parse')
    # the type a parameter list belongs to: the same stack slot on both sides of the parenthesis
    def last_index(sub):
        i = sub.slice
        if isinstance(i, ast.UnaryOp) and isinstance(i.op, ast.USub) and isinstance(i.operand, ast.Constant):
            return -i.operand.value
        return i.value if isinstance(i, ast.Constant) else None
    # names under which the parse stack `args` is known: in parse_casstype_args itself, and as the parameter of a helper it is handed to
    stack_names = {id(pa): set(['args'])}
    for c_ in body_walk(pa):
        if isinstance(c_, ast.Call) and isinstance(c_.func, ast.Name) and mod.has(c_.func.id) and mod.get(c_.func.id) in scopes_[1:]:
            callee = mod.get(c_.func.id)
            params_ = [a.arg for a in callee.args.args]
            for k_, a_ in enumerate(c_.args):
                if src(a_) == 'args' and k_ < len(params_):
                    stack_names.setdefault(id(callee), set()).add(params_[k_])
    # the subject of the vector test - issubclass(X, VectorType) - traced back through temporaries, helper parameters and helper results to the stack slot it is read from
    from ..sem import resolve as _resolve

    def _trace(fn_, e, depth=4):
        e = _resolve(fn_, e, loops=True, keep=stack_names.get(id(fn_), ()))
        if isinstance(e, ast.IfExp):
            return _trace(fn_, e.body, depth) + _trace(fn_, e.orelse, depth)
        if isinstance(e, ast.Constant) and e.value is None:
            return []
        if depth and isinstance(e, ast.Name) and fn_ is not pa and e.id in [a_.arg for a_ in fn_.args.args]:
            k_ = [a_.arg for a_ in fn_.args.args].index(e.id)
            out = []
            for caller in scopes_:
                for c_ in body_walk(caller):
                    if isinstance(c_, ast.Call) and isinstance(c_.func, ast.Name) and c_.func.id == fn_.name and k_ < len(c_.args):
                        out.extend(_trace(caller, c_.args[k_], depth - 1))
            return out or [(fn_, e)]
        if depth and isinstance(e, ast.Name):
            # a local given its value on several arms (if / else): every arm counts
            ds_ = [st_.value for st_ in body_walk(fn_) if isinstance(st_, ast.Assign) and len(st_.targets) == 1 and src(st_.targets[0]) == e.id]
            if len(ds_) > 1:
                return [lf for d_ in ds_ for lf in _trace(fn_, d_, depth - 1)]
        if depth and isinstance(e, ast.Call) and isinstance(e.func, ast.Name) and mod.has(e.func.id) and mod.get(e.func.id) in scopes_[1:]:
            h_ = mod.get(e.func.id)
            out = []
            for r_ in body_walk(h_):
                if isinstance(r_, ast.Return) and r_.value is not None:
                    out.extend(_trace(h_, r_.value, depth - 1))
            return out
        return [(fn_, e)]
    subjects = [(fn_, c_.args[0]) for fn_ in scopes_ for c_ in body_walk(fn_) if isinstance(c_, ast.Call) and src(c_.func) == 'issubclass' and len(c_.args) == 2 and src(c_.args[1]) == 'VectorType']
    leaves = [lf for fn_, e_ in subjects for lf in _trace(fn_, e_)]
    appl = [n for n in body_walk(pa) if isinstance(n, ast.Assign) and isinstance(n.targets[0], ast.Subscript) and isinstance(n.value, ast.Call) and src(n.value.func).endswith('.apply_parameters')]
    ok = bool(leaves) and len(appl) == 1
    if ok:
        for fn_, e_ in leaves:
            names_ = stack_names.get(id(fn_), set())
            x = e_
            good_leaf = isinstance(x, ast.Subscript) and isinstance(x.value, ast.Subscript) and isinstance(x.value.value, ast.Subscript) and src(x.value.value.value) in names_ and \
                (last_index(x.value.value), last_index(x.value), last_index(x)) == (-2, 0, -1)
            ok = ok and good_leaf
        closing = (last_index(appl[0].targets[0]), src(appl[0].targets[0].value), src(appl[0].value.func.value))
        ok = ok and closing[0] == -1 and closing[2] == '%s[-1]' % closing[1]
    chk.judge(ok, 'C28.parse', pa, 'the enclosing type of a parameter is the last type of the parent level - the same slot `)` applies the parameters to',
              'the type consulted for "is this a vector dimension?" is not the one the parameters are applied to on `)`: a vector that is not the first parameter of its parent keeps its dimension unparsed, '
              'and a digit-only name after a vector sibling is read as a number')
    ls = mod.func('lookup_casstype_simple')
    chk.judge('trim_if_startswith(casstype, apache_cassandra_type_prefix)' in src(ls) and 'mkUnrecognizedType(casstype)' in src(ls) and '_casstypes[shortname]' in src(ls), 'C28.parse', ls,
              'simple names: strip the marshal prefix, look up by class name, else an unrecognized type', 'simple lookup changed')
    ap0 = mod.func('_CassandraType.apply_parameters')
    chk.judge("len(subtypes) != cls.num_subtypes" in src(ap0) and "raise ValueError" in src(ap0), 'C28.parse', ap0, 'wrong number of subtypes is rejected', 'arity check gone')

    # ---- the CQL type-string scanner (strip_frozen, cql_types_from_string): a quoted name ends at the next quote
    chk.rule('C28.scan', 'cqltype_to_python: the quoted-identifier token cannot run across a closing quote (lazy repeat or a class without the quote)')
    import re._parser as _rp
    import re._constants as _rc
    ctp = mod.func('cqltype_to_python')
    pats = [e.elts[0].value for n in body_walk(ctp) if isinstance(n, ast.Call) and src(n.func) == 're.Scanner' and n.args
            for e in n.args[0].elts if isinstance(e, ast.Tuple) and e.elts and isinstance(e.elts[0], ast.Constant) and isinstance(e.elts[0].value, str)]
    if len(pats) < 4:
        raise AnalysisError('cqltype_to_python: scanner lexicon not found')
    quoted = 0
    for pat in pats:
        try:
            items = list(_rp.parse(pat))
        except Exception as e:
            raise AnalysisError('cqltype_to_python: cannot parse token pattern %r: %s' % (pat, e))
        if len(items) >= 2 and items[0][0] == _rc.LITERAL and items[-1][0] == _rc.LITERAL and items[0][1] == items[-1][1] and chr(items[0][1]) in '"\'':
            quoted += 1
            q = items[0][1]
            bad = []
            for op, av in items[1:-1]:
                if op == _rc.MAX_REPEAT:
                    lo, hi, sub = av
                    # a greedy repeat is fine only over something that cannot match the quote itself
                    for sop, sav in sub:
                        if sop == _rc.ANY:
                            bad.append('greedy .')
                        elif sop == _rc.IN:
                            neg = any(x[0] == _rc.NEGATE for x in sav)
                            has_q = any(x[0] == _rc.LITERAL and x[1] == q for x in sav)
                            if (neg and not has_q) or (not neg and has_q):
                                bad.append('greedy class that matches the quote')
                        elif sop == _rc.NOT_LITERAL and sav != q:
                            bad.append('greedy class that matches the quote')
            chk.judge(not bad, 'C28.scan', ctp, 'token %r ends at the first closing quote' % pat,
                      'token pattern %r has a %s between the quotes: with two quoted names in one type string everything between the first and the last quote '
                      'becomes one token, so frozen<> wrappers inside are kept or the string fails to parse' % (pat, ', '.join(bad)))
    if quoted != 1:
        raise AnalysisError('cqltype_to_python: expected one quoted-identifier token pattern, found %d' % quoted)
