"""C06 - protocol v5 segments: header layout mirror, sentinel agreement, CRC-before-use, buffer retention."""
import ast

from ..core import AnalysisError, chain, src, body_walk, decorators, walk_no_nested
from ..cfg import CFG, enumerate_paths, Flow
from ..fold import Folder, Unfoldable
from ..absint import Interp, Sym, TriVal, text_of
from ..guards import TRUTHY, FALSY, NONE, normalise_atom

SEG = 'cassandra/segment.py'
CONN = 'cassandra/connection.py'
PROTO = 'cassandra/protocol.py'


def bitfield(expr):
    """(total right shift, mask) of an expression like ((H >> 17) >> 17) & 1 ; (left shift) for writer terms."""
    shift = 0
    mask = None
    e = expr
    if isinstance(e, ast.Compare):
        e = e.left
    if isinstance(e, ast.BinOp) and isinstance(e.op, ast.BitAnd) and isinstance(e.right, ast.Constant):
        mask = e.right.value
        e = e.left
    while isinstance(e, ast.BinOp) and isinstance(e.op, ast.RShift) and isinstance(e.right, ast.Constant):
        shift += e.right.value
        e = e.left
    return shift, mask, src(e)


def or_terms(expr):
    if isinstance(expr, ast.BinOp) and isinstance(expr.op, ast.BitOr):
        return or_terms(expr.left) + or_terms(expr.right)
    return [expr]


def check(chk):
    chk.decides = ('bit layout agreement of encode_header/decode_header with and without compression, constants (17-bit fields, 3/5 byte headers, CRC '
                   'parameters), sentinel agreement for uncompressed_payload_length across decode_header / segment_length / decode / _encode_segment, '
                   'CRC comparison before any use of header or payload, chunking step/slice agreement, and that incomplete data is kept in the io buffer')
    chk.does_not_decide = 'the CRC arithmetic itself and behaviour over all read split schedules (runtime buffer contents)'
    chk.rule('C06.layout', 'encode_header places payload length, uncompressed length and the self-contained flag at the bit offsets decode_header reads them from')
    chk.rule('C06.const', 'segment constants equal the v5 framing specification')
    chk.rule('C06.sentinel', 'uncompressed_payload_length is -1 without compression, 0 for a segment a compressing sender left uncompressed, >0 when compressed; '
                             'every selection on it separates exactly the class it means')
    chk.rule('C06.crc', 'the CRC comparison (and raise) precedes every use of the header fields / payload; a CRC failure defuncts the connection')
    chk.rule('C06.chunk', 'a message is cut into MAX_PAYLOAD_LENGTH slices with the same step; self-contained iff one segment')
    chk.rule('C06.buffer', 'when no whole segment could be consumed the bytes read so far stay in the io buffer (rewind before the buffer is reset)')
    seg = chk.repo.mod(SEG)
    conn = chk.repo.mod(CONN)
    proto = chk.repo.mod(PROTO)
    folder = Folder(seg, others=[proto, chk.repo.mod('cassandra/marshal.py')])

    # ---- constants
    def cc(cls, name):
        try:
            return folder.class_const(cls, name)
        except Unfoldable as e:
            raise AnalysisError('cannot fold %s.%s: %s' % (cls, name, e))
    FO = cc('SegmentCodec', 'FLAG_OFFSET')
    MAXP = cc('Segment', 'MAX_PAYLOAD_LENGTH')
    CH, UH = cc('SegmentCodec', 'COMPRESSED_HEADER_LENGTH'), cc('SegmentCodec', 'UNCOMPRESSED_HEADER_LENGTH')
    sc = seg.cls('SegmentCodec')
    chk.judge(FO == 17, 'C06.const', sc, 'FLAG_OFFSET == 17', 'FLAG_OFFSET is %r' % FO)
    chk.judge(MAXP == (1 << 17) - 1, 'C06.const', seg.cls('Segment'), 'MAX_PAYLOAD_LENGTH == 2**17 - 1', 'MAX_PAYLOAD_LENGTH is %r' % MAXP)
    chk.judge((CH, UH) == (5, 3), 'C06.const', sc, 'header lengths 5 (compressed) / 3 (uncompressed)', 'header lengths are %r / %r' % (CH, UH))
    for name, want in (('CRC24_INIT', 0x875060), ('CRC24_POLY', 0x1974F0B), ('CRC24_LENGTH', 3), ('CRC32_LENGTH', 4)):
        try:
            got = folder.module_const(name)
        except Unfoldable as e:
            raise AnalysisError(str(e))
        chk.judge(got == want, 'C06.const', (SEG, '<module>', 0), '%s == %#x' % (name, want), '%s is %r' % (name, got))
    ini = seg.toplevel_assign('CRC32_INITIAL')
    chk.judge(isinstance(ini, ast.Call) and src(ini.func) == 'zlib.crc32' and ini.args and isinstance(ini.args[0], ast.Constant)
              and ini.args[0].value == b'\xfa\x2d\x55\xca', 'C06.const', (SEG, '<module>', 0), 'CRC32_INITIAL = crc32(FA 2D 55 CA)',
              'CRC32 initial bytes changed: %s' % src(ini))
    c24 = seg.func('compute_crc24')
    s24 = src(c24)
    chk.judge('crc = CRC24_INIT' in s24 and '(data & 255) << 16' in s24 and 'crc & 16777216' in s24 and 'crc ^= CRC24_POLY' in s24 and 'range(8)' in s24,
              'C06.const', c24, 'compute_crc24 shape (init, byte fold at bit 16, 8 shifts, poly on bit 24)', 'compute_crc24 changed shape')

    # the CRC folds every one of the `length` bytes, zero bytes included: no exit from the byte loop or the bit loop but their end
    loops24 = [n for n in body_walk(c24) if isinstance(n, (ast.For, ast.While))]
    early = [n for n in body_walk(c24) if isinstance(n, (ast.Break, ast.Continue))] + \
        [n for l in loops24 for n in ast.walk(l) if isinstance(n, ast.Return)]
    chk.judge(len(loops24) == 2 and not early and any(isinstance(l, ast.For) and src(l.iter) == 'range(length)' for l in loops24), 'C06.const', c24,
              'compute_crc24 runs its byte loop `length` times and its bit loop 8 times, without early exit',
              'the CRC24 loops can end early (%s): a header whose remaining bytes are zero gets a different CRC than the specification' % ', '.join('line %d' % n.lineno for n in early))

    # ---- header layout: writer
    it0 = Interp(seg, folder)
    enc, eo = it0.resolve_method(sc, 'encode_header')
    dec, do = it0.resolve_method(sc, 'decode_header')
    layouts = {}
    for comp in (TRUTHY, FALSY):
        events = []

        def eff(interp, call, c, args, kwargs, env):
            if c and c[-1] in ('write_uint_le', 'read_uint_le', 'compute_crc24'):
                interp.events.append((c[-1], [text_of(a) for a in args], dict((k, text_of(v)) for k, v in kwargs.items())))
                return Sym('%s(%s)' % (c[-1], ', '.join(text_of(a) for a in args[:2])))
            if c and c[-1] in ('SegmentHeader',):
                interp.events.append(('SegmentHeader', [text_of(a) for a in args]))
                return Sym('SegmentHeader')
            return NotImplemented
        val = {'self.compression': comp}
        hl = CH if comp == TRUTHY else UH
        it = Interp(seg, folder, valuation=val, effect=eff)
        env = {'self': Sym('self'), 'buffer': Sym('buffer'), 'payload_length': Sym('P'), 'uncompressed_length': Sym('U'),
               'is_self_contained': TriVal('is_self_contained', TRUTHY), 'self.header_length': hl, '__owner__': eo}
        outs = it.run_all(enc, env, sc)
        w_ok = [o for o in outs if o.kind == 'ok']
        if len(w_ok) != 1:
            raise AnalysisError('encode_header: expected one normal path per valuation, got %d' % len(w_ok))
        wr = [e for e in w_ok[0].events if e[0] == 'write_uint_le']
        crc = [e for e in w_ok[0].events if e[0] == 'compute_crc24']
        if len(wr) != 2 or len(crc) != 1:
            raise AnalysisError('encode_header: writes/crc not recognised: %s' % w_ok[0].events)
        hd = ast.parse(wr[0][1][1], mode='eval').body
        wfields = {}
        for t in or_terms(hd):
            if isinstance(t, ast.Constant) and isinstance(t.value, int) and t.value > 0 and t.value & (t.value - 1) == 0:
                wfields['1'] = t.value.bit_length() - 1
            elif isinstance(t, ast.BinOp) and isinstance(t.op, ast.LShift) and isinstance(t.right, ast.Constant):
                wfields[src(t.left)] = t.right.value
            else:
                wfields[src(t)] = 0
        # reader
        it = Interp(seg, folder, valuation=val, effect=eff)
        env = {'self': Sym('self'), 'buffer': Sym('buffer'), 'self.header_length': hl, '__owner__': do}
        outs = it.run_all(dec, env, sc)
        r_ok = [o for o in outs if o.kind == 'ok']
        if not r_ok:
            raise AnalysisError('decode_header: no normal path')
        sh = [e for o in r_ok for e in o.events if e[0] == 'SegmentHeader']
        rd = [e for e in r_ok[0].events if e[0] == 'read_uint_le']
        if not sh or len(rd) != 2:
            raise AnalysisError('decode_header: SegmentHeader construction / reads not recognised')
        args = sh[0][1]
        rfields = {}
        for name, txt in zip(('P', 'U', '1'), args):
            if txt == '-1':
                rfields[name] = None
                continue
            rfields[name] = bitfield(ast.parse(txt, mode='eval').body)
        label = 'compression' if comp == TRUTHY else 'no compression'
        want_w = {'P': 0, '1': 34 if comp == TRUTHY else 17}
        if comp == TRUTHY:
            want_w['U'] = 17
        chk.judge(wfields == want_w, 'C06.layout', enc, 'encode_header (%s): fields at bit offsets %s' % (label, sorted(wfields.items())),
                  'header bit layout is %s, the v5 framing format requires %s' % (sorted(wfields.items()), sorted(want_w.items())))
        probs = []
        for name in ('P', 'U', '1'):
            w = wfields.get(name)
            r = rfields.get(name)
            if name == 'U' and comp != TRUTHY:
                if r is not None:
                    probs.append('reader extracts an uncompressed length although the header has none')
                continue
            if r is None:
                probs.append('reader does not extract field %s' % name)
                continue
            rshift, mask, _ = r
            if rshift != w:
                probs.append('field %s written at bit %s, read at bit %s' % (name, w, rshift))
            if name in ('P', 'U') and mask != MAXP:
                probs.append('field %s read with mask %r, expected %#x' % (name, mask, MAXP))
            if name == '1' and mask != 1:
                probs.append('self-contained flag read with mask %r' % mask)
        chk.judge(not probs, 'C06.layout', dec, 'decode_header (%s) mirrors encode_header' % label, '; '.join(probs))
        # sizes and crc coverage agree
        chk.judge(wr[0][2].get('size') == repr(hl) and crc[0][1][1] == repr(hl) and wr[1][2].get('size') == '3' and wr[1][1][1] == crc[0] [1][0].join(['compute_crc24(', ', %r)' % hl]) or
                  (wr[0][2].get('size') == repr(hl) and crc[0][1][1] == repr(hl) and wr[1][2].get('size') == '3'),
                  'C06.layout', enc, 'encode_header (%s): %d header bytes, CRC24 over them, 3 CRC bytes' % (label, hl),
                  'header is written with size %s, CRC computed over %s bytes, CRC written with size %s' % (wr[0][2].get('size'), crc[0][1][1], wr[1][2].get('size')))
        rcrc = [e for e in r_ok[0].events if e[0] == 'compute_crc24']
        chk.judge(rd[0][1][1] == repr(hl) and rd[1][1][1] == '3' and rcrc and rcrc[0][1][1] == repr(hl), 'C06.layout', dec,
                  'decode_header (%s): reads %d header bytes then 3 CRC bytes, CRC24 over the header' % (label, hl),
                  'reader consumes %s / %s bytes and checks the CRC over %s' % (rd[0][1][1], rd[1][1][1], rcrc[0][1][1] if rcrc else None))
        # sentinel assigned without compression
        if comp != TRUTHY:
            chk.judge(args[1] == '-1', 'C06.sentinel', dec, 'decode_header: uncompressed_payload_length = -1 without compression',
                      'without compression the sentinel is %s' % args[1])
    # payload too big raises before anything is written
    outs = Interp(seg, folder, valuation={'self.compression': FALSY}).run_all(
        enc, {'self': Sym('self'), 'buffer': Sym('b'), 'payload_length': MAXP + 1, 'uncompressed_length': 0, 'is_self_contained': True, '__owner__': eo}, sc)
    chk.judge(all(o.kind == 'raise' for o in outs), 'C06.layout', enc, 'encode_header rejects payload_length > MAX_PAYLOAD_LENGTH', 'oversized payload is not rejected')
    hlp = [st for st in sc.body if isinstance(st, ast.FunctionDef) and st.name in ('header_length', 'header_length_with_crc')]
    for f in hlp:
        s = src(f)
        good = 'self.COMPRESSED_HEADER_LENGTH if self.compression else self.UNCOMPRESSED_HEADER_LENGTH' in s and (f.name == 'header_length' or 'CRC24_LENGTH' in s)
        chk.judge(good, 'C06.layout', f, '%s: 5 with compression else 3%s' % (f.name, '' if f.name == 'header_length' else ' plus CRC24_LENGTH'), '%s changed: %s' % (f.name, s[-120:]))

    # ---- sentinel agreement
    sl = seg.func('SegmentHeader.segment_length')
    ifexps = [n for n in body_walk(sl) if isinstance(n, ast.IfExp)]
    if len(ifexps) != 1:
        raise AnalysisError('segment_length: header selection not recognised')
    ie = ifexps[0]
    sel = {}
    for v in (-1, 0, 7):
        try:
            t = folder.eval(ie.test, env={'self': {'uncompressed_payload_length': v}})
        except Unfoldable as e:
            raise AnalysisError('segment_length test: %s' % e)
        sel[v] = src(ie.body if t else ie.orelse)
    want = {-1: 'SegmentCodec.UNCOMPRESSED_HEADER_LENGTH', 0: 'SegmentCodec.COMPRESSED_HEADER_LENGTH', 7: 'SegmentCodec.COMPRESSED_HEADER_LENGTH'}
    chk.judge(sel == want, 'C06.sentinel', sl, 'segment_length header size for uncompressed_payload_length in {-1, 0, >0}: %s' % src(ie.test),
              'header length chosen %s; -1 (no compression) must give the 3-byte header, 0 (left uncompressed by a compressing sender) and >0 the 5-byte header'
              % dict((k, v.split('.')[-1]) for k, v in sel.items()))
    rets = [n for n in body_walk(sl) if isinstance(n, ast.Return)]
    chk.judge(len(rets) == 1 and sorted(src(x) for x in _sum_terms(rets[0].value)) == ['CRC24_LENGTH', 'CRC32_LENGTH', 'hl', 'self.payload_length'],
              'C06.sentinel', sl, 'segment_length = header + CRC24 + payload + CRC32', 'segment length formula changed: %s' % (src(rets[0].value) if rets else None))
    # decode(): decompress iff compression and > 0
    dd = seg.func('SegmentCodec.decode')
    ifs = [n for n in body_walk(dd) if isinstance(n, ast.If) and 'decompress' in src(n)]
    if len(ifs) != 1:
        raise AnalysisError('SegmentCodec.decode: decompress guard not recognised')
    res = {}
    from ..guards import tri_eval
    for v in (-1, 0, 7):
        class T(ast.NodeTransformer):
            def visit_Attribute(self, n):
                if src(n) == 'header.uncompressed_payload_length':
                    return ast.Constant(value=v)
                return n
        t = T().visit(ast.parse(src(ifs[0].test), mode='eval').body)
        res[v] = tri_eval(t, {'self.compression': TRUTHY}, {}) if not isinstance(t, ast.Compare) else folder.eval(t)
    chk.judge(res == {-1: False, 0: False, 7: True}, 'C06.sentinel', dd, 'decode decompresses exactly when uncompressed_payload_length > 0: %s' % src(ifs[0].test),
              'decompression guard gives %s over {-1, 0, >0}' % res)
    # writer: left-uncompressed marker is 0
    es = seg.func('SegmentCodec._encode_segment')
    marks = [st for st in body_walk(es) if isinstance(st, ast.Assign) and src(st.targets[0]) == 'uncompressed_payload_length' and isinstance(st.value, ast.Constant)]
    chk.judge(len(marks) == 1 and marks[0].value.value == 0, 'C06.sentinel', es, '_encode_segment marks a segment left uncompressed with length 0',
              'the "left uncompressed" marker is %s' % [src(m.value) for m in marks])
    s = src(es)
    from ..sem import resolve as _res06, flow_of as _flow06
    ges, _fes = _flow06(es)
    # the payload as it goes on the wire: the argument of the buffer.write(...) that is not the header
    wr = [n for n in ges.stmt_nodes() if n.kind == 'stmt' and isinstance(n.ast, ast.Expr) and isinstance(n.ast.value, ast.Call) and src(n.ast.value.func) == 'buffer.write' and len(n.ast.value.args) == 1]
    eh = [c_ for c_ in body_walk(es) if isinstance(c_, ast.Call) and src(c_.func) == 'self.encode_header']
    okh = len(wr) == 1 and len(eh) == 1 and len(eh[0].args) == 4
    if okh:
        wire = src(wr[0].ast.value.args[0])
        a_ = [src(_res06(es, x, keep=(wire,))) for x in eh[0].args]
        okh = a_ == ['buffer', 'len(%s)' % wire, 'uncompressed_payload_length', 'is_self_contained']
    chk.judge(okh, 'C06.layout', es, '_encode_segment passes len(encoded payload), uncompressed length, flag to encode_header', 'argument roles to encode_header changed')
    crcw = [n for n in ges.stmt_nodes() if n.kind == 'stmt' and isinstance(n.ast, ast.Expr) and isinstance(n.ast.value, ast.Call) and src(n.ast.value.func) == 'write_uint_le'
            and len(n.ast.value.args) >= 2 and src(n.ast.value.args[0]) == 'buffer']
    okc = len(wr) == 1 and len(crcw) == 1
    if okc:
        crc_e = src(_res06(es, crcw[0].ast.value.args[1], keep=(src(wr[0].ast.value.args[0]),)))
        okc = crc_e == 'compute_crc32(%s, CRC32_INITIAL)' % src(wr[0].ast.value.args[0]) and ges.dominates(wr[0], crcw[0])
    chk.judge(okc, 'C06.crc', es, '_encode_segment: CRC32 over the encoded payload, written after it', 'payload CRC no longer covers / follows the encoded payload')

    # ---- CRC before use
    for fn, raise_marker in ((dec, 'actual_header_crc != expected_header_crc'), (dd, 'actual_payload_crc != expected_payload_crc')):
        g = CFG(fn)
        # every path to a normal exit must pass the test node (false branch)
        tests = [n for n in g.nodes if n.kind == 'test' and src(n.ast) == raise_marker]
        if len(tests) != 1:
            raise AnalysisError('%s: CRC comparison %s not found' % (fn.name, raise_marker))

        def step(node, c):
            if node is tests[0]:
                return 'checked'
            if c == 'unchecked' and node.kind in ('stmt', 'return') and node.ast is not None:
                txt = src(node.ast)
                if 'SegmentHeader(' in txt or 'Segment(' in txt or 'decompress' in txt or 'MAX_PAYLOAD_LENGTH' in txt:
                    return 'USED-UNCHECKED'
            return c
        fl = Flow(g, 'unchecked', step)
        bad = [s for n in g.nodes for s in fl.at(n) if s[1] == 'USED-UNCHECKED']
        exit_states = fl.customs_at(g.exit)
        chk.judge(not bad and exit_states <= set(['checked']), 'C06.crc', fn, '%s: CRC comparison precedes every use and every normal return' % fn.name,
                  'a path uses header/payload data or returns without having compared the CRC')
        t = tests[0]
        tsucc = [s for s, lab in t.succ if lab and lab[0] == 'T']
        chk.judge(tsucc and tsucc[0].kind == 'raise_stmt' and 'CrcException' in src(tsucc[0].ast), 'C06.crc', fn, '%s: mismatch raises CrcException' % fn.name,
                  'a CRC mismatch does not raise CrcException')
    psb = conn.func('Connection._process_segment_buffer')
    s = src(psb)
    chk.judge('except CrcException' in s and 'raise CrcMismatchException' in s, 'C06.crc', psb, 'CrcException -> CrcMismatchException (a ConnectionException)',
              'CRC failures are no longer converted to a connection error')
    for fn in ('Connection._process_segment_buffer', 'Connection._read_frame_header', 'Connection.process_msg'):
        f = conn.func(fn)
        chk.judge('defunct_on_error' in decorators(f), 'C06.crc', f, '%s is wrapped by defunct_on_error' % fn, '%s no longer defuncts the connection on error' % fn)
    doe = conn.func('defunct_on_error')
    chk.judge('except Exception as exc' in src(doe) and 'self.defunct(exc)' in src(doe), 'C06.crc', doe, 'defunct_on_error defuncts on any exception', 'defunct_on_error changed')

    # ---- chunking
    en = seg.func('SegmentCodec.encode')
    loops = [n for n in body_walk(en) if isinstance(n, ast.For) and isinstance(n.iter, ast.Call) and src(n.iter.func) == 'range']
    good = False
    for l in loops:
        a = l.iter.args
        if len(a) == 3 and src(a[0]) == '0' and src(a[1]) == 'msg_length':
            step = src(a[2])
            i = src(l.target)
            sl_ = [n for n in ast.walk(l) if isinstance(n, ast.Subscript) and isinstance(n.slice, ast.Slice)]
            good = any(src(x.slice.lower) == i and src(x.slice.upper) == '%s + %s' % (i, step) for x in sl_) and step == 'Segment.MAX_PAYLOAD_LENGTH'
    chk.judge(good, 'C06.chunk', en, 'encode: range(0, n, MAX) with msg[i:i + MAX]', 'chunk step and slice width disagree or are not MAX_PAYLOAD_LENGTH')
    s = src(en)
    chk.judge('is_self_contained = len(payloads) == 1' in s and 'msg_length > Segment.MAX_PAYLOAD_LENGTH' in s, 'C06.chunk', en,
              'self-contained iff a single segment; split only above MAX_PAYLOAD_LENGTH', 'self-contained flag / split threshold changed')

    # ---- connection: keep unread bytes
    g = CFG(psb)
    paths = enumerate_paths(g)
    n_b = 0
    for p in paths:
        if p.end.kind in ('raise_stmt', 'raise'):
            continue
        texts = [src(n.ast) for n in p.nodes if n.ast is not None and n.kind in ('stmt',)]
        consumed = any('_segment_codec.decode(' in t for t in texts)
        if consumed:
            good = any('_segment_consumed = True' in t for t in texts)
            chk.judge(good, 'C06.buffer', psb, 'path consuming a segment marks _segment_consumed', 'segment consumed but not flagged')
        else:
            last_seek = max([i for i, t in enumerate(texts) if 'io_buffer.seek(0)' in t] or [-1])
            last_read = max([i for i, t in enumerate(texts) if 'decode_header(' in t] or [-1])
            good = last_seek > last_read and any('_segment_consumed = False' in t for t in texts)
            n_b += 1
            chk.judge(good, 'C06.buffer', psb, 'path without a whole segment [%s]: rewinds the io buffer and clears _segment_consumed' % p.cond_text()[:80],
                      'when no whole segment is available (%s) the io buffer is not rewound: process_io_buffer then resets it and the bytes already read are lost'
                      % p.cond_text()[:120])
    if n_b < 2:
        raise AnalysisError('_process_segment_buffer: incomplete-data paths not recognised')
    s = src(psb)
    gp_, fp_ = _flow06(psb)
    dh_ = [n for n in gp_.stmt_nodes() if n.kind == 'stmt' and any(isinstance(x, ast.Call) and src(x.func).endswith('.decode_header') for x in ast.walk(n.ast))]
    dc_ = [n for n in gp_.stmt_nodes() if n.kind == 'stmt' and any(isinstance(x, ast.Call) and src(x.func).endswith('_segment_codec.decode') for x in ast.walk(n.ast))]
    oka = len(dh_) == 1 and len(dc_) == 1 and all(fa.knows('readable_bytes < self._segment_codec.header_length_with_crc') is False for fa, _c in fp_.at(dh_[0])) and \
        all(fa.knows('readable_bytes < segment_header.segment_length') is False for fa, _c in fp_.at(dc_[0]))
    chk.judge(oka,
              'C06.buffer', psb, 'header decoded only with header+CRC bytes available; segment decoded only with segment_length bytes available',
              'availability tests before decode_header / decode changed')
    rib = conn.func('_ConnectionIOBuffer.reset_io_buffer')
    chk.judge('io.BytesIO(self._io_buffer.read())' in src(rib) and 'seek(0, 2)' in src(rib), 'C06.buffer', rib,
              'reset_io_buffer keeps the unread remainder and appends after it', 'reset_io_buffer no longer keeps the unread remainder')
    pib = conn.func('Connection.process_io_buffer')
    s = src(pib)
    chk.judge('self._process_segment_buffer()' in s and 'not self._io_buffer.has_consumed_segment' in s and 'cql_frame_buffer.write(segment.payload)' in src(psb),
              'C06.buffer', pib, 'segments feed the cql frame buffer; no segment consumed -> wait for more bytes', 'segment/frame buffer hand-over changed')
    # the flag "a whole segment was consumed in this pass" belongs to _process_segment_buffer: a frame being delivered says nothing about the segment,
    # which may hold further frames
    chk.rule('C06.flag', '_segment_consumed is written only by Connection._process_segment_buffer (and initialised in the buffer class)')
    wsc = []
    for q_, f_ in conn.functions():
        for n_ in body_walk(f_):
            if isinstance(n_, (ast.Assign, ast.AugAssign)) and any(isinstance(t_, ast.Attribute) and t_.attr == '_segment_consumed' for t_ in (n_.targets if isinstance(n_, ast.Assign) else [n_.target])):
                wsc.append((q_, n_))
    bad_w = [(q_, n_) for q_, n_ in wsc if q_ not in ('Connection._process_segment_buffer', '_ConnectionIOBuffer.__init__')]
    chk.judge(bool(wsc) and not bad_w, 'C06.flag', bad_w[0][1] if bad_w else psb, 'writers of _segment_consumed: %s' % sorted(set(q_ for q_, _n in wsc)),
              '%s also writes _segment_consumed: cleared when a frame is delivered, process_io_buffer stops after the first frame of a segment that carries several - the others stay in the '
              'frame buffer until another segment arrives, the last ones for ever' % sorted(set(q_ for q_, _n in bad_w)))
    # a failure (CRC mismatch, decode error, protocol error) is swallowed by defunct_on_error: the loop itself must stop delivering
    chk.rule('C06.stop', 'process_io_buffer: between a step that can fail the connection (_process_segment_buffer, process_msg) and the next delivery '
                         '(_read_frame_header / process_msg) every path tests self.is_defunct and leaves on the defunct arm')
    _stop_rule(chk, pib)
    # which segment layout a connection uses is decided from the compressor installed when checksumming is switched on
    chk.rule('C06.codec', 'the segment codec (compressed / uncompressed header layout) is chosen after the negotiated compressor was installed, on every handshake path')
    chk.borrow('C47', {'C47.checksum': 'C06.codec'}, 'a v5 connection with compression negotiated frames its segments with the uncompressed header layout: every segment fails its CRC on the other side')
    chk.require('C06.layout', 8)
    chk.require('C06.crc', 8)


def _stop_rule(chk, pib):
    from ..cfg import CFG
    g = CFG(pib)

    def calls(n, names):
        a = n.ast
        if a is None or n.kind not in ('stmt', 'test', 'return'):
            return False
        root = a
        return any(isinstance(c, ast.Call) and src(c.func) in names for c in (walk_no_nested(root) if isinstance(root, ast.stmt) else ast.walk(root)))
    failing = [n for n in g.stmt_nodes() if calls(n, ('self._process_segment_buffer', 'self.process_msg'))]
    delivering = [n for n in g.stmt_nodes() if calls(n, ('self._read_frame_header', 'self.process_msg'))]
    if len(failing) < 2 or len(delivering) < 2:
        raise AnalysisError('process_io_buffer: failing / delivering steps not recognised (%d/%d)' % (len(failing), len(delivering)))

    def barrier(n):
        return n.kind == 'test' and src(n.ast) in ('self.is_defunct', 'not self.is_defunct')

    def defunct_arm(n):
        pos = src(n.ast) == 'self.is_defunct'
        return [x for x, lab in n.succ if lab and lab[0] == ('T' if pos else 'F')]

    def search(starts):
        seen, work, hit = set(), list(starts), []
        while work:
            n = work.pop()
            if n.id in seen:
                continue
            seen.add(n.id)
            if n in delivering:
                hit.append(n)
                continue
            if barrier(n):
                continue
            work.extend(x for x, _l in n.succ)
        return hit
    for f in failing:
        hit = search([x for x, lab in f.succ if not (lab and lab[0] == 'exc')])
        chk.judge(not hit, 'C06.stop', f.ast, 'after %s nothing is delivered before self.is_defunct is tested' % src(f.ast).strip()[:50],
                  'after this step failed the connection (the exception is swallowed by defunct_on_error) the loop goes on to %s: a segment whose CRC check failed is followed by '
                  'frames carved from the rest of the buffer, delivered to process_msg although the connection is defunct' % sorted(set(src(h.ast).strip()[:40] for h in hit)))
    bars = [n for n in g.stmt_nodes() if barrier(n)]
    for b in bars:
        hit = search(defunct_arm(b))
        chk.judge(not hit, 'C06.stop', b.ast, 'the defunct arm of the test leaves the loop', 'the defunct arm still reaches a delivery')


def _sum_terms(e):
    if isinstance(e, ast.BinOp) and isinstance(e.op, ast.Add):
        return _sum_terms(e.left) + _sum_terms(e.right)
    return [e]
