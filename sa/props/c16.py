"""C16 - retries do exactly what the retry policy decided."""
import ast

from ..core import AnalysisError, src, body_walk, walk_no_nested, chain
from ..cfg import CFG, Flow, enumerate_paths
from ..guards import tri_eval, tri_vars, NONE, FALSY, TRUTHY, normalise_atom
from ..rfutil import CLUSTER, classify_call, FINAL_EXC, FINAL_RESULT, RETRY

DISPATCH = [   # (error classes, policy method, how the failure description is passed)
    (('ReadTimeoutErrorMessage',), 'on_read_timeout', 'info'),
    (('WriteTimeoutErrorMessage',), 'on_write_timeout', 'info'),
    (('UnavailableErrorMessage',), 'on_unavailable', 'info'),
    (('OverloadedErrorMessage', 'IsBootstrappingErrorMessage', 'TruncateError', 'ServerError'), 'on_request_error', 'error'),
]


def check(chk):
    chk.decides = ('the error-class -> policy-method dispatch (each consulted once per failure with retry_num = retries already performed and the '
                   'failure description), the decision table of _handle_retry_decision, that the chosen consistency level is stored whenever one is '
                   'given (0 included), that RETRY reuses the host and RETRY_NEXT_HOST moves on, and that a speculative plan exists only for idempotent statements')
    chk.does_not_decide = 'what user supplied policies return'
    chk.rule('C16.dispatch', 'each retryable error class consults the matching policy method exactly once, passing retry_num=self._query_retries and the failure description')
    chk.rule('C16.table', '_handle_retry_decision: RETRY / RETRY_NEXT_HOST -> count + _retry(reuse, consistency, host); RETHROW -> final exception; IGNORE -> empty result')
    chk.rule('C16.cl', '_retry writes the consistency level the policy chose into the message whenever it is not None (ANY == 0 is a level)')
    chk.rule('C16.host', '_retry_task: reuse -> same host via _query(host), else (or when that fails) the next host of the plan')
    chk.rule('C16.idempotent', 'a speculative execution plan is created only for statements marked idempotent')
    cl = chk.repo.mod(CLUSTER)
    sr = cl.func('ResponseFuture._set_result')

    # ---- dispatch
    # the policy calls, grouped by the isinstance(response, ...) fact that holds on every path reaching them (innermost class test)
    from ..sem import dispatch_table
    def _policy_call(c):
        return isinstance(c.func, ast.Attribute) and c.func.attr.startswith('on_') and src(c.func.value) in ('retry_policy', 'self._retry_policy')
    found = {}
    per_call = {}
    for classes, nodes in dispatch_table(sr, 'response', kind='isinstance').items():
        for nd in nodes:
            for c in (x for x in walk_no_nested(nd.ast) if isinstance(x, ast.Call) and _policy_call(x)):
                per_call.setdefault(id(c), (c, []))[1].append(classes)
    for c, clss in per_call.values():
        # ErrorMessage is the outer test of the whole error arm; the innermost (most specific) test is the dispatch key
        inner = [k for k in clss if k != ('ErrorMessage',)] or clss
        for k in inner:
            found.setdefault(k, (None, []))[1].append(c)
    for classes, meth, how in DISPATCH:
        hit = [(k, v) for k, v in found.items() if set(k) == set(classes)]
        if not hit:
            chk.viol('C16.dispatch', sr, '%s -> %s' % ('/'.join(classes), meth), 'no dispatch arm for %s' % (classes,))
            continue
        n, calls = hit[0][1]
        c = calls[0]
        kw = dict((k.arg, src(k.value)) for k in c.keywords)
        star = [src(k.value) for k in c.keywords if k.arg is None]
        pos = [src(a) for a in c.args]
        probs = []
        if len(calls) != 1:
            probs.append('policy consulted %d times' % len(calls))
        if c.func.attr != meth:
            probs.append('calls %s' % c.func.attr)
        if kw.get('retry_num') != 'self._query_retries':
            probs.append('retry_num=%s' % kw.get('retry_num'))
        if pos[:1] != ['self.query']:
            probs.append('first argument %s' % pos[:1])
        if how == 'info' and star != ['response.info']:
            probs.append('failure description passed as %s' % (star or kw))
        if how == 'error' and kw.get('error') != 'response':
            probs.append('error=%s' % kw.get('error'))
        chk.judge(not probs, 'C16.dispatch', c, '%s -> retry_policy.%s(self.query, retry_num=self._query_retries, ...)' % ('/'.join(classes), meth), '; '.join(probs))
        # the decision is then handed to _handle_retry_decision exactly once
    hr_calls = [n for n in body_walk(sr) if isinstance(n, ast.Call) and src(n.func) == 'self._handle_retry_decision']
    good = bool(hr_calls) and all([src(a) for a in c.args] == ['retry', 'response', 'host'] for c in hr_calls)
    chk.judge(good, 'C16.dispatch', sr, '_handle_retry_decision(retry, response, host)', 'the decision is not handed over as (retry, response, host)')
    # connection errors consult on_request_error too
    good = False
    calls = found.get(('ConnectionException',), (None, []))[1]
    calls = [c for c in calls if c.func.attr == 'on_request_error']
    if len(calls) == 1:
        kw = dict((k.arg, src(k.value)) for k in calls[0].keywords)
        good = kw.get('retry_num') == 'self._query_retries' and kw.get('error') == 'response'
    chk.judge(good, 'C16.dispatch', sr, 'ConnectionException -> on_request_error(..., error=response, retry_num=self._query_retries)', 'connection errors no longer consult the policy correctly')
    chk.require('C16.dispatch', 6)

    # ---- decision table
    hd = cl.func('ResponseFuture._handle_retry_decision')
    g = CFG(hd)

    def step(node, c):
        inc, eff = c
        if node.ast is not None and node.kind == 'stmt':
            st = node.ast
            if isinstance(st, ast.AugAssign) and src(st.target) == 'self._query_retries' and isinstance(st.op, ast.Add) and src(st.value) == '1':
                inc += 1
            for n in walk_no_nested(st):
                if isinstance(n, ast.Call):
                    e = classify_call(n)
                    if e:
                        eff = eff + ((e, src(n)),)
        return (inc, eff)
    fl = Flow(g, (0, ()), step)
    rows = {}
    for facts, (inc, eff) in fl.at(g.exit):
        key = (facts.knows('retry_type in (RetryPolicy.RETRY, RetryPolicy.RETRY_NEXT_HOST)'), facts.knows('retry_type is RetryPolicy.RETHROW'))
        rows[key] = (inc, [e[0] for e in eff], [e[1] for e in eff])
    want = {(True, None): (1, [RETRY]), (False, True): (0, [FINAL_EXC]), (False, False): (0, [FINAL_RESULT])}
    got = dict((k, (v[0], v[1])) for k, v in rows.items())
    chk.judge(got == want, 'C16.table', hd, 'decision table: retry rows count once and retry; RETHROW raises; IGNORE returns empty',
              'decision table is %s' % sorted((str(k), v) for k, v in got.items()))
    # the retry call: (same host? = the decision is RETRY, the level the policy returned, the host of the response) - temporaries resolved, names free
    from ..sem import resolve as _res16
    unpack = [st for st in body_walk(hd) if isinstance(st, ast.Assign) and isinstance(st.targets[0], ast.Tuple) and src(st.value) == 'retry_decision']
    oku = len(unpack) == 1 and len(unpack[0].targets[0].elts) == 2 and all(isinstance(e_, ast.Name) for e_ in unpack[0].targets[0].elts)
    chk.judge(oku, 'C16.table', hd, 'decision unpacked as (retry_type, consistency)', 'decision tuple unpacked differently')
    if oku:
        tname_, cname_ = [e_.id for e_ in unpack[0].targets[0].elts]
        rcalls = [c_ for c_ in body_walk(hd) if isinstance(c_, ast.Call) and src(c_.func) == 'self._retry']
        okr = len(rcalls) == 1 and len(rcalls[0].args) == 3 and not rcalls[0].keywords
        if okr:
            a0 = src(_res16(hd, rcalls[0].args[0], keep=(tname_, cname_)))
            okr = a0 in ('%s == RetryPolicy.RETRY' % tname_, 'RetryPolicy.RETRY == %s' % tname_, '%s is RetryPolicy.RETRY' % tname_) and \
                src(_res16(hd, rcalls[0].args[1], keep=(tname_, cname_))) == cname_ and src(rcalls[0].args[2]) == 'host'
        chk.judge(okr, 'C16.table', hd, '_retry(decision is RETRY, consistency, host)', 'retry invoked as %s' % ([src(c_) for c_ in rcalls]))
    if (False, False) in rows:
        chk.judge(rows[(False, False)][2][0] == 'self._set_final_result(None)', 'C16.table', hd, 'IGNORE -> _set_final_result(None)', 'IGNORE returns %s' % rows[(False, False)][2][0])

    # ---- consistency level written whenever given
    rt = cl.func('ResponseFuture._retry')
    writes = [st for st in body_walk(rt) if isinstance(st, ast.Assign) and src(st.targets[0]) == 'self.message.consistency_level']
    if len(writes) != 1:
        raise AnalysisError('_retry: consistency level write not found')
    chk.judge(src(writes[0].value) == 'consistency_level', 'C16.cl', writes[0], 'message.consistency_level = consistency_level', 'a different value is written')
    g = CFG(rt)
    fl = Flow(g, 0, lambda n, c: c)
    wn = [n for n in g.stmt_nodes() if n.ast is writes[0]][0]
    # collect the guard: conjunction of branch atoms over consistency_level on the way to the write
    from ..core import parent
    p = parent(writes[0])
    if not isinstance(p, ast.If):
        raise AnalysisError('_retry: the consistency write is not under an if')
    res = {}
    for state in (NONE, FALSY, TRUTHY):
        vs, op = tri_vars(p.test)
        env = dict((v, TRUTHY) for v in vs)
        env['consistency_level'] = state
        res[state] = tri_eval(p.test, env, dict((o, True) for o in op))
    chk.judge(res == {NONE: False, FALSY: True, TRUTHY: True}, 'C16.cl', p, 'consistency level stored for every level the policy returns (guard: %s)' % src(p.test),
              'guard %s gives None->%s, 0->%s, n->%s: ConsistencyLevel.ANY is 0, so a decision (RETRY, ANY) would be retried at the original level'
              % (src(p.test), res[NONE], res[FALSY], res[TRUTHY]))
    s = src(rt)
    subs_rt = [n for n in g.stmt_nodes() if n.kind == 'stmt' and any(isinstance(c_, ast.Call) and src(c_.func) == 'self.session.submit' and c_.args and src(c_.args[0]) == 'self._retry_task'
                                                                     for c_ in ast.walk(n.ast))]
    def _reaches(a_, b_):
        seen_, work_ = set(), [x_ for x_, _l in a_.succ]
        while work_:
            n_ = work_.pop()
            if n_.id in seen_:
                continue
            seen_.add(n_.id)
            if n_ is b_:
                return True
            work_.extend(x_ for x_, _l in n_.succ)
        return False
    chk.judge(len(subs_rt) == 1 and _reaches(wn, subs_rt[0]) and not _reaches(subs_rt[0], wn), 'C16.cl', rt,
              'consistency written before the retry is submitted', 'the retry is submitted before the consistency level is set')
    # the retry goes to the host whose response was judged (the parameter), not to whatever attempt is the latest
    params_rt = [a_.arg for a_ in rt.args.args]
    okh_ = False
    if len(subs_rt) == 1:
        c_ = [c_ for c_ in ast.walk(subs_rt[0].ast) if isinstance(c_, ast.Call) and src(c_.func) == 'self.session.submit'][0]
        okh_ = [src(a_) for a_ in c_.args[1:]] == [params_rt[1], params_rt[3]] if len(params_rt) >= 4 else False
    chk.judge(okh_, 'C16.host', rt, '_retry hands (reuse_connection, host) - its own parameters - to _retry_task',
              'the retry task is given %s: with speculative executions self._current_host is the latest attempt, not the host whose answer the policy judged - a RETRY meant for host A goes to host B'
              % ([src(a_) for c2 in ast.walk(subs_rt[0].ast) if isinstance(c2, ast.Call) and src(c2.func) == 'self.session.submit' for a_ in c2.args[1:]] if subs_rt else 'nothing'))

    # ---- host choice
    task = cl.func('ResponseFuture._retry_task')
    body = [st for st in task.body if not (isinstance(st, ast.Expr) and isinstance(st.value, ast.Constant))]
    good = any(isinstance(st, ast.If) and src(st.test) == 'reuse_connection and self._query(host) is not None' and isinstance(st.body[0], ast.Return) for st in body) \
        and src(body[-1]) == 'self.send_request()'
    chk.judge(good, 'C16.host', task, '_retry_task: RETRY -> _query(host) on the same host, otherwise send_request() (next host)', '_retry_task host selection changed')

    # ---- idempotence
    sess = cl.func('Session._create_response_future')
    from ..sem import guarded_creations
    made, other = guarded_creations(sess, 'spec_exec_plan', 'new_plan')
    if not made:
        raise AnalysisError('_create_response_future: spec_exec_plan assignment not recognised')
    for call_, atoms_, st_ in made:
        chk.judge('query.is_idempotent' in atoms_ and all(isinstance(o, ast.Constant) and o.value is None for o in other), 'C16.idempotent', st_,
                  'spec_exec_plan = policy.new_plan(...) only when query.is_idempotent (and a policy is set), None otherwise',
                  'speculative plan is created without testing is_idempotent (known there: %s)' % sorted(a for a in atoms_ if 'query' in a or 'spec' in a))
    rf_call = [n for n in body_walk(sess) if isinstance(n, ast.Call) and src(n.func) == 'ResponseFuture']
    kw = dict((k.arg, src(k.value)) for c in rf_call for k in c.keywords)
    chk.judge(kw.get('speculative_execution_plan') == 'spec_exec_plan', 'C16.idempotent', sess, 'the future receives that plan', 'a different plan object is passed to the future')
    cls = cl.cls('ResponseFuture')
    dflt = [st for st in cls.body if isinstance(st, ast.Assign) and src(st.targets[0]) == '_spec_execution_plan']
    chk.judge(len(dflt) == 1 and src(dflt[0].value) == 'NoSpeculativeExecutionPlan()', 'C16.idempotent', cls, 'default plan never speculates', 'default speculative plan changed')
