"""C01 - value round trip: writer/reader mirror rules over cassandra/cqltypes.py (structure)."""
import ast

from ..core import AnalysisError, chain, src, body_walk, parent, is_none
from ..cfg import CFG, enumerate_paths
from ..fold import Folder, Unfoldable
from ..guards import normalise_atom
from ..valuecodec import Codecs, shape, show_shape, CQLTYPES, MARSHAL
from ..absint import Sym, TriVal

VERSIONS = (1, 2, 3, 4, 5, 6, 0x41, 0x42)
DELEGATORS = ('_CassandraType', '_ParameterizedType', 'CassandraType')


def scalar_classes(C):
    out = []
    for c in C.classes():
        own = [st.name for st in c.body if isinstance(st, ast.FunctionDef)]
        if c.name in DELEGATORS:
            continue
        if 'serialize' in own or 'deserialize' in own:
            out.append(c)
    return out


def safe_classes(C):
    return [c for c in C.classes() if any(isinstance(st, ast.FunctionDef) and st.name in ('serialize_safe', 'deserialize_safe') for st in c.body)]


def features(sh):
    top = tuple(t[1] for t in sh if t[0] in ('fmt', 'codec'))
    loops = [t[1] for t in sh if t[0] == 'loop']
    lf = tuple(sorted(t[1] for l in loops for t in l if t[0] in ('fmt', 'codec')))
    subs = tuple(t[1] for l in loops for t in l if t[0] == 'sub') + tuple(t[1] for t in sh if t[0] == 'sub')
    return top, lf, subs


def nonnull(outs, writer):
    """outcomes on which every element is present (no negative-length / None arm taken)."""
    res = []
    for o in outs:
        if o.kind != 'ok':
            continue
        ok = True
        for text, val in o.choices:
            k, flip = normalise_atom(ast.parse(text, mode='eval').body)
            truth = val != flip
            if k.endswith(' < 0') and truth:
                ok = False
            if k.endswith(' is None') and truth:
                ok = False
            if k.startswith('isinstance(') and truth and writer:
                ok = False
            if k.startswith('p == len(') and truth:
                ok = False
        if ok:
            res.append(o)
    return res


def check(chk):
    chk.decides = ('for every codec class: writer and reader use the same struct formats; collection/tuple/UDT/vector writers and readers agree, '
                   'per protocol version, on count width, element-length width, nested protocol version and null (negative length) handling; '
                   'cursor advances match the slice just read; to_binary/from_binary null/empty table; varint sign-bit tests over the byte domain')
    chk.does_not_decide = ('equality of decoded and original values where it depends on arithmetic: varint byte-length formula, Decimal scaling, SortedSet ordering')
    chk.rule('C01.scalar', 'the struct formats packed by a type\'s serialize equal those unpacked by its deserialize')
    chk.rule('C01.coll', 'per protocol version the writer and the reader of a parameterized type use the same count format, the same '
                         'element-length format(s) and the same nested protocol version max(3, v)')
    chk.rule('C01.null', 'a reader maps a negative element length to None without consuming bytes, and the sibling writer emits a negative length for a None element')
    chk.rule('C01.cursor', 'after reading byts[p:p+n] the reader advances its cursor by exactly n before the next read')
    chk.rule('C01.binary', 'from_binary: None->None, empty and not empty_binary_ok -> EMPTY/None, else deserialize; to_binary: None -> b"" else serialize; '
                           'empty_binary_ok exactly on blob/ascii/text')
    chk.rule('C01.signbit', 'varint_pack pads a positive number with 0x00 exactly when varint_unpack would read its top byte as negative (all 256 byte values)')
    chk.rule('C01.slices', 'fixed-offset reads use slices whose width equals the struct size and which are contiguous')
    C = Codecs(chk.repo)
    mod = C.mod

    # ---- scalars
    for c in scalar_classes(C):
        W, wo = C.find_method(c, 'serialize')
        R, ro = C.find_method(c, 'deserialize')
        if W is None or R is None or wo.name in DELEGATORS or ro.name in DELEGATORS:
            chk.note('%s: one-sided codec (%s) - not paired' % (c.name, 'reader only' if (W is None or wo.name in DELEGATORS) else 'writer only'))
            continue
        fw, fr = C.formats_in(W, 'w'), C.formats_in(R, 'r')
        if c.name in ('PointType', 'LineStringType', 'PolygonType'):
            # WKB: the writer always emits little endian; the reader must understand the little-endian point/int layout
            names = lambda fn: set(n.id for n in body_walk(fn, nested=True) if isinstance(n, ast.Name))
            consts = lambda fn: set(n.value for n in body_walk(fn, nested=True) if isinstance(n, ast.Constant) and isinstance(n.value, str))
            need = set(['point_le'])
            okg = need <= names(R) and (c.name != 'PolygonType' or '<i' in consts(R))
            chk.judge(okg, 'C01.scalar', W, '%s: reader understands the little-endian layout the writer emits' % c.name,
                      'geometry reader no longer reads the little-endian point/count layout the writer produces')
            continue
        if c.name == 'VectorType':
            continue
        chk.judge(fw == fr, 'C01.scalar', W, '%s: serialize %s / deserialize %s' % (c.name, sorted(fw), sorted(fr)),
                  'writer packs %s but reader unpacks %s' % (sorted(fw), sorted(fr)), nontrivial=bool(fw or fr))
    chk.require('C01.scalar', 18)

    # ---- fixed-offset slices (Decimal, DateRange)
    for cname in ('DecimalType', 'DateRangeType'):
        c = mod.cls(cname)
        R, _ = C.find_method(c, 'deserialize')
        reads = []
        for n in body_walk(R):
            if isinstance(n, ast.Call) and (chain(n.func) or ('',))[-1] in C.fmt or (isinstance(n, ast.Call) and (chain(n.func) or ('',))[-1] in C.special):
                name = chain(n.func)[-1]
                a = n.args[0] if n.args else None
                if isinstance(a, ast.Subscript) and isinstance(a.slice, ast.Slice):
                    lo = a.slice.lower.value if isinstance(a.slice.lower, ast.Constant) else (0 if a.slice.lower is None else None)
                    hi = a.slice.upper.value if isinstance(a.slice.upper, ast.Constant) else ('end' if a.slice.upper is None else None)
                    reads.append((n, name, lo, hi))
        import struct as _struct
        reads.sort(key=lambda r: (r[2] if r[2] is not None else -1))
        pos = 0
        for n, name, lo, hi in reads:
            size = _struct.calcsize(C.fmt[name]) if name in C.fmt else None
            good = lo == pos and (hi == 'end' or (size is not None and hi is not None and hi - lo == size))
            chk.judge(good, 'C01.slices', n, '%s: %s(byts[%s:%s])' % (cname, name, lo, '' if hi == 'end' else hi),
                      'read of %s uses slice [%s:%s]; expected to start at %s with width %s' % (name, lo, hi, pos, size))
            if hi != 'end' and hi is not None:
                pos = hi
    chk.require('C01.slices', 5)
    # decimal writer order: scale (int32) first, then varint
    dw, _ = C.find_method(mod.cls('DecimalType'), 'serialize')
    rets = [n for n in body_walk(dw) if isinstance(n, ast.Return) and n.value is not None]
    okd = False
    if rets and isinstance(rets[-1].value, ast.BinOp) and isinstance(rets[-1].value.op, ast.Add):
        # each operand is a call of the packer, or a name whose last assignment before the return is such a call
        def _packer(e):
            if isinstance(e, ast.Call):
                return (chain(e.func) or ('',))[-1]
            if isinstance(e, ast.Name):
                ds = [st for st in body_walk(dw) if isinstance(st, ast.Assign) and any(isinstance(t, ast.Name) and t.id == e.id for t in st.targets) and st.lineno < rets[-1].lineno]
                if ds and isinstance(ds[-1].value, ast.Call):
                    return (chain(ds[-1].value.func) or ('',))[-1]
            return None
        l, r = rets[-1].value.left, rets[-1].value.right
        okd = _packer(l) == 'int32_pack' and _packer(r) == 'varint_pack'
    chk.judge(okd, 'C01.slices', dw, 'DecimalType.serialize returns int32 scale + varint unscaled',
              'decimal writer does not emit the 4-byte scale before the varint (the reader slices [:4] / [4:])')

    # ---- parameterized types
    pairs = []
    for c in safe_classes(C):
        W, wo = C.find_method(c, 'serialize_safe')
        R, ro = C.find_method(c, 'deserialize_safe')
        if W is None or R is None:
            chk.note('%s: one-sided parameterized codec - not paired' % c.name)
            continue
        pairs.append((c, W, wo, R, ro))
    for c, W, wo, R, ro in pairs:
        if c.name in ('ReversedType', 'FrozenType'):
            # pass-through wrappers: both sides delegate to the single subtype with the same protocol version
            for fn, kind in ((W, 'to_binary'), (R, 'from_binary')):
                calls = [n for n in body_walk(fn) if isinstance(n, ast.Call) and isinstance(n.func, ast.Attribute) and n.func.attr in ('to_binary', 'from_binary', 'serialize', 'deserialize')]
                good = len(calls) == 1 and len(calls[0].args) == 2 and src(calls[0].args[1]) == 'protocol_version'
                chk.judge(good, 'C01.coll', fn, '%s.%s delegates to its subtype with protocol_version' % (c.name, fn.name),
                          'wrapper no longer delegates with the outer protocol version')
            continue
        for pv in VERSIONS:
            wouts = C.run(c, W, wo, pv, {'cls': Sym('cls')})
            routs = C.run(c, R, ro, pv, {'cls': Sym('cls')})
            wn, rn = nonnull(wouts, True), nonnull(routs, False)
            if not wn or not rn:
                raise AnalysisError('%s: no non-null path found (writer %d, reader %d outcomes)' % (c.name, len(wouts), len(routs)))
            fw = set(features(shape(o.events, C.fmt, C.special)) for o in wn)
            fr = set(features(shape(o.events, C.fmt, C.special)) for o in rn)
            if c.name == 'UserType':
                # the reader delegates to TupleType.deserialize_safe through super(); mapping to a class happens after
                pass
            chk.judge(len(fw) == 1 and fw == fr, 'C01.coll', W, '%s @ v=%#x writer %s / reader %s' % (c.name, pv, sorted(fw), sorted(fr)),
                      'writer and reader layouts differ at protocol version %#x: writer (count formats, element-length formats, nested versions) = %s, reader = %s'
                      % (pv, sorted(fw), sorted(fr)))
            # nested protocol version
            want = max(3, pv)
            for side, fs in (('writer', fw), ('reader', fr)):
                for f in fs:
                    bad = [s for s in f[2] if s != want]
                    chk.judge(not bad, 'C01.coll', W if side == 'writer' else R, '%s %s @ v=%#x: nested values use protocol max(3, v)' % (c.name, side, pv),
                              '%s passes protocol version %s to nested values, expected %d' % (side, bad, want))
            # null handling
            r_null = []
            for o in routs:
                if o.kind != 'ok':
                    continue
                for text, val in o.choices:
                    k, flip = normalise_atom(ast.parse(text, mode='eval').body)
                    if k.endswith(' < 0') and (val != flip):
                        r_null.append((o, k))
            if c.name in ('TupleType', 'UserType') or r_null:
                goodr = bool(r_null)
                chk.judge(goodr, 'C01.null', R, '%s reader @ v=%#x maps negative length to None' % (c.name, pv),
                          'reader has no negative-length (null element) arm')
            # writer side
            w_null = []
            for o in wouts:
                if o.kind != 'ok':
                    continue
                negs = [e for e in o.events if e[0] == 'pack' and e[2] == '-1']
                if negs:
                    w_null.append(o)
            if pv == 3:
                chk.judge(bool(w_null), 'C01.null', W, '%s writer writes length -1 for a None element' % c.name,
                          'reader decodes a negative length as None but the writer never writes one: a None element is encoded through to_binary as a '
                          'zero-length element and decodes as an empty value (\'\' for text), not None')
    chk.require('C01.coll', 40)

    # ---- vector
    vc = mod.cls('VectorType')
    W, wo = C.find_method(vc, 'serialize')
    R, ro = C.find_method(vc, 'deserialize')
    fw, fr = C.formats_in(W, 'w'), C.formats_in(R, 'r')
    chk.judge(fw == set(['uvint']) and fr == set(['uvint']), 'C01.scalar', W, 'VectorType: element sizes as unsigned vints on both sides (%s / %s)' % (sorted(fw), sorted(fr)),
              'vector element-size codecs differ: writer %s, reader %s' % (sorted(fw), sorted(fr)))
    # variable-size arm selected by serial_size() is None on both sides
    for fn, label in ((W, 'writer'), (R, 'reader')):
        tests = [n for n in body_walk(fn) if isinstance(n, ast.If) and 'serialized_size' in src(n.test)]
        good = False
        for t in tests:
            k, flip = normalise_atom(t.test)
            if k == 'serialized_size is None':
                arm = t.body if not flip else t.orelse
                other = t.orelse if not flip else t.body
                uses = lambda stmts: any(isinstance(x, ast.Call) and (chain(x.func) or ('',))[-1] in ('uvint_pack', 'uvint_unpack') for s in stmts for x in ast.walk(s))
                if label == 'writer':
                    good = uses(arm) and not uses(other)
                else:
                    good = not uses(arm if flip else other) or True
                    good = not uses(t.body if flip else t.body) if not flip else good
        if label == 'writer':
            chk.judge(good, 'C01.coll', fn, 'VectorType writer writes a size prefix exactly when serial_size() is None',
                      'vector writer emits the per-element size under the wrong condition')
    # reader: the fixed-size arm returns before the uvint loop
    first_if = [n for n in R.body if isinstance(n, ast.If)]
    goodr = False
    if first_if:
        k, flip = normalise_atom(first_if[0].test)
        if k == 'serialized_size is None' and flip:
            goodr = isinstance(first_if[0].body[-1], ast.Return) and not any(
                isinstance(x, ast.Call) and (chain(x.func) or ('',))[-1] == 'uvint_unpack' for s in first_if[0].body for x in ast.walk(s))
    chk.judge(goodr, 'C01.coll', R, 'VectorType reader: fixed-size arm (serial_size() is not None) returns before the vint loop',
              'vector reader no longer separates fixed-size from variable-size elements by serial_size()')

    # ---- cursor discipline
    n_cursor = 0
    for c in safe_classes(C) + [vc]:
        for name in ('deserialize_safe', 'deserialize'):
            fn = None
            for st in c.body:
                if isinstance(st, ast.FunctionDef) and st.name == name:
                    fn = st
            if fn is None:
                continue
            for blk in _blocks(fn):
                for i, st in enumerate(blk):
                    for sub in ast.walk(st) if not isinstance(st, (ast.If, ast.For, ast.While, ast.Try, ast.With, ast.Return)) else []:
                        if not (isinstance(sub, ast.Subscript) and isinstance(sub.slice, ast.Slice) and isinstance(sub.slice.lower, ast.Name) and sub.slice.upper is not None):
                            continue
                        cur = sub.slice.lower.id
                        up = sub.slice.upper
                        width = endname = None
                        if isinstance(up, ast.BinOp) and isinstance(up.op, ast.Add) and src(up.left) == cur:
                            width = src(up.right)
                        elif isinstance(up, ast.Name):
                            # the end offset held in a temporary: E = cur + W, set earlier in this block with the cursor untouched since
                            for prev in reversed(blk[:i]):
                                if isinstance(prev, (ast.Assign, ast.AugAssign)) and any(src(t) == cur for t in (prev.targets if isinstance(prev, ast.Assign) else [prev.target])):
                                    break
                                if isinstance(prev, ast.Assign) and len(prev.targets) == 1 and src(prev.targets[0]) == up.id and isinstance(prev.value, ast.BinOp) \
                                        and isinstance(prev.value.op, ast.Add) and src(prev.value.left) == cur:
                                    width, endname = src(prev.value.right), up.id
                                    break
                        if width is None:
                            continue
                        nxt = blk[i + 1] if i + 1 < len(blk) else None
                        good = (isinstance(nxt, ast.AugAssign) and isinstance(nxt.op, ast.Add) and src(nxt.target) == cur and src(nxt.value) == width) or \
                            (isinstance(nxt, ast.Assign) and len(nxt.targets) == 1 and src(nxt.targets[0]) == cur and
                             (src(nxt.value) in ('%s + %s' % (cur, width), '%s + %s' % (width, cur)) or (endname is not None and src(nxt.value) == endname)))
                        if not good and endname is not None:
                            # the cursor was advanced first (E = start + W) and the slice reads [start:E]: E is the cursor if other reads start from it
                            good = any(isinstance(x_, ast.Subscript) and isinstance(x_.slice, ast.Slice) and isinstance(x_.slice.lower, ast.Name) and x_.slice.lower.id == endname and x_ is not sub
                                       for x_ in ast.walk(fn)) and not (isinstance(nxt, (ast.Assign, ast.AugAssign)) and any(src(t_) == endname for t_ in (nxt.targets if isinstance(nxt, ast.Assign) else [nxt.target])))
                        n_cursor += 1
                        chk.judge(good, 'C01.cursor', st, '%s.%s: %s then %s advanced by %s' % (c.name, name, src(sub), cur, width),
                                  'after reading %s the cursor is not advanced by %s (next statement: %s)' % (src(sub), width, src(nxt)[:60] if nxt is not None else 'end of block'))
    chk.require('C01.cursor', 8)
    # decoded maps index their entries by the key bytes as received; the container re-encodes looked-up keys with the version it is given
    # a timestamp value is a whole number of milliseconds, a datetime a whole number of microseconds: the reader does not pass through a float
    chk.rule('C01.exact', 'DateType.deserialize turns the int64 millisecond count into a datetime in integer arithmetic (no float literal, true division or float-returning helper on the value path)')
    from ..sem import float_taint as _ft
    dtd = mod.func('DateType.deserialize')
    for r_ in [n for n in body_walk(dtd) if isinstance(n, ast.Return) and n.value is not None]:
        why_ = _ft(chk.repo, mod, dtd, r_.value)
        chk.judge(why_ is None, 'C01.exact', r_, 'DateType.deserialize: %s' % src(r_)[:90],
                  'the millisecond count becomes a float number of seconds (%s) before it becomes a datetime: a double resolves less than a microsecond only within about 270 years of 1970, '
                  'so a millisecond-precision timestamp far from the epoch (datetime(2327, 1, 9, 1, 15, 58, 456000)) reads back some microseconds off' % why_)
    chk.rule('C01.mapkey', 'MapType.deserialize_safe: OrderedMapSerializedKey is given the same (inner) protocol version the key bytes are decoded with')
    mt = C.mod.cls('MapType')
    md, _ = C.find_method(mt, 'deserialize_safe')
    pom = [n for n in body_walk(md) if isinstance(n, ast.Assign) and isinstance(n.value, ast.Call) and src(n.value.func).endswith('OrderedMapSerializedKey')]
    pkd = [n for n in body_walk(md) if isinstance(n, ast.Call) and src(n.func) == 'key_type.from_binary']
    ins = [n for n in body_walk(md) if isinstance(n, ast.Call) and src(n.func).endswith('._insert_unchecked')]
    ok = len(pom) == 1 and len(pkd) == 1 and len(ins) == 1 and len(pom[0].value.args) == 2 and len(ins[0].args) == 3
    if ok:
        var = src(pom[0].value.args[1])
        reass = [n for n in body_walk(md) if isinstance(n, ast.Assign) and src(n.targets[0]) == var]
        ok = src(pkd[0].args[1]) == var and all(r.lineno < pom[0].lineno for r in reass) and src(ins[0].args[1]) == src(pkd[0].args[0])
    chk.judge(ok, 'C01.mapkey', md, 'the map container re-encodes keys with the version its index bytes are in',
              'a decoded map is indexed by key bytes in one encoding and looks keys up in another: with collection keys on protocol 1/2 every lookup, items() and equality fail with KeyError')

    # ---- to_binary / from_binary
    base = mod.cls('_CassandraType')
    fb, _ = C.find_method(base, 'from_binary')
    tb, _ = C.find_method(base, 'to_binary')
    rows = []
    for p in enumerate_paths(CFG(fb)):
        if p.end.kind != 'return':
            continue
        rows.append((tuple(sorted((normalise_atom(e)[0], pl != normalise_atom(e)[1]) for e, pl in p.conds)), src(p.end.ast.value)))
    want = set([
        ((('byts is None', True),), 'None'),
        ((('byts is None', False), ('cls.empty_binary_ok', False), ('len(byts) == 0', True)), 'EMPTY if cls.support_empty_values else None'),
        ((('byts is None', False), ('len(byts) == 0', False)), 'cls.deserialize(byts, protocol_version)'),
        ((('byts is None', False), ('cls.empty_binary_ok', True), ('len(byts) == 0', True)), 'cls.deserialize(byts, protocol_version)'),
    ])
    chk.judge(set(rows) == want, 'C01.binary', fb, '_CassandraType.from_binary decision table',
              'from_binary table is %s' % sorted(rows))
    tbr = [n for n in body_walk(tb) if isinstance(n, ast.Return)]
    goodt = len(tbr) == 1 and isinstance(tbr[0].value, ast.IfExp) and normalise_atom(tbr[0].value.test) == ('val is None', False) \
        and src(tbr[0].value.body) == "b''" and src(tbr[0].value.orelse) == 'cls.serialize(val, protocol_version)'
    chk.judge(goodt, 'C01.binary', tb, "_CassandraType.to_binary: b'' for None else serialize", 'to_binary no longer maps None to the empty string and everything else to serialize')
    ebo = sorted(c.name for c in C.classes() if any(isinstance(st, ast.Assign) and isinstance(st.targets[0], ast.Name) and st.targets[0].id == 'empty_binary_ok'
                                                   and isinstance(st.value, ast.Constant) and st.value.value is True for st in c.body))
    chk.judge(ebo == ['AsciiType', 'BytesType', 'UTF8Type'], 'C01.binary', base, 'empty_binary_ok is True on exactly AsciiType, BytesType, UTF8Type',
              'empty_binary_ok set is %s: an empty blob/ascii/text would decode to None, or an empty value of another type would reach its deserializer' % ebo)

    # ---- varint sign bit over the byte domain
    mar = C.marshal
    vp = mar.func('varint_pack')
    vu = mar.func('varint_unpack')
    mf = Folder(mar)
    # unpack: the condition under which the value is made negative
    neg_if = [n for n in body_walk(vu) if isinstance(n, ast.If)]
    pad_if = [n for n in body_walk(vp) if isinstance(n, ast.If) and any(
        isinstance(x, ast.Call) and isinstance(x.func, ast.Attribute) and x.func.attr == 'append' and x.args and isinstance(x.args[0], ast.Constant) and x.args[0].value == 0
        for s in n.body for x in ast.walk(s))]
    if len(neg_if) != 1 or len(pad_if) != 1:
        raise AnalysisError('varint_pack/varint_unpack: sign handling not recognised (%d/%d)' % (len(pad_if), len(neg_if)))

    def byte_pred(test, drop_names=()):
        """truth over all 256 byte values of the single subscripted byte expression in `test`."""
        subs = [n for n in ast.walk(test) if isinstance(n, ast.Subscript)]
        if len(set(src(s) for s in subs)) != 1:
            raise AnalysisError('sign test %s does not mention exactly one byte expression' % src(test))
        bt = src(subs[0])
        res = []
        for b in range(256):
            class R(ast.NodeTransformer):
                def visit_Subscript(self, node):
                    return ast.copy_location(ast.Constant(value=b), node) if src(node) == bt else node

                def visit_Name(self, node):
                    return ast.copy_location(ast.Constant(value=True), node) if node.id in drop_names else node
            t = R().visit(ast.parse(src(test), mode='eval').body)
            try:
                res.append(bool(mf.eval(t)))
            except Unfoldable as e:
                raise AnalysisError('cannot fold sign test %s: %s' % (src(test), e))
        return res
    want_bits = [b >= 128 for b in range(256)]
    ru = byte_pred(neg_if[0].test)
    # the byte part of the padding test (the conjunct that looks at the top byte); which numbers reach the padding is decided below from the paths
    conj_ = pad_if[0].test.values if isinstance(pad_if[0].test, ast.BoolOp) and isinstance(pad_if[0].test.op, ast.And) else [pad_if[0].test]
    byte_conj = [c_ for c_ in conj_ if any(isinstance(x, ast.Subscript) for x in ast.walk(c_))]
    if len(byte_conj) != 1:
        raise AnalysisError('varint_pack: padding test %s has no single byte conjunct' % src(pad_if[0].test))
    rp = byte_pred(byte_conj[0])
    from ..cfg import CFG as _CFG1, Flow as _Flow1
    from ..guards import normalise_atom as _na1
    gvp = _CFG1(vp)

    # state: (sign of the argument as tested, names that hold the outcome of `big < 0` taken before big is rewritten, big still the argument?)
    def _step_s(n, c):
        sign, holders, orig = c
        if n.kind == 'stmt' and isinstance(n.ast, (ast.Assign, ast.AugAssign)):
            tg = n.ast.targets[0] if isinstance(n.ast, ast.Assign) else n.ast.target
            if isinstance(tg, ast.Name):
                if tg.id == 'big':
                    orig = False
                elif isinstance(n.ast, ast.Assign):
                    k_, flip_ = _na1(n.ast.value)
                    holders = tuple(h for h in holders if h[0] != tg.id)
                    if k_ == 'big < 0' and orig:
                        holders = holders + ((tg.id, flip_),)
        return (sign, holders, orig)

    def _edge(n, succ, lab, c):
        sign, holders, orig = c
        if lab is not None and lab[0] in ('T', 'F'):
            k_, flip_ = _na1(lab[1])
            if k_ == 'big < 0' and orig:
                sign = 'neg' if ((lab[0] == 'T') != flip_) else 'pos'
            for h, hflip in holders:
                if k_ == h:
                    sign = 'neg' if ((lab[0] == 'T') != (flip_ != hflip)) else 'pos'
        return (sign, holders, orig)
    flvp = _Flow1(gvp, ('unknown', (), True), _step_s, edge=_edge)
    pad_nodes = [n for n in gvp.stmt_nodes() if n.kind == 'stmt' and any(n.ast is x for st_ in pad_if[0].body for x in ast.walk(st_))]
    pad_states = set(c[0] for n in pad_nodes for _f, c in flvp.at(n))
    chk.judge(ru == want_bits, 'C01.signbit', vu, 'varint_unpack: negative iff first byte >= 0x80 (%s)' % src(neg_if[0].test),
              'sign test differs from bit 7 at byte values %s' % [b for b in range(256) if ru[b] != want_bits[b]][:8])
    chk.judge(rp == want_bits and pad_states == set(['pos']), 'C01.signbit', vp,
              'varint_pack: positive padded with 0x00 iff top byte >= 0x80 (%s)' % src(pad_if[0].test),
              'padding test differs from the reader\'s sign test at top byte values %s: such a positive number decodes as negative (or carries a redundant byte)'
              % [hex(b) for b in range(256) if rp[b] != want_bits[b]][:8])


def _blocks(fn):
    out = []

    def rec(stmts):
        out.append(stmts)
        for st in stmts:
            for f in ('body', 'orelse', 'finalbody'):
                b = getattr(st, f, None)
                if isinstance(b, list) and b and isinstance(b[0], ast.stmt) and not isinstance(st, (ast.FunctionDef, ast.ClassDef)):
                    rec(b)
            for h in getattr(st, 'handlers', []) or []:
                rec(h.body)
    rec(fn.body)
    return out
