"""C02 - value encodings are byte-exact with Cassandra's serializers (layout and constants)."""
import ast

from ..core import AnalysisError, chain, src, body_walk
from ..fold import Folder, Unfoldable
from ..guards import normalise_atom
from ..valuecodec import Codecs, shape
from ..absint import Sym
from .c03 import load_spec
from .c01 import nonnull, features, VERSIONS


def byte_fn(folder, func, expr, byte_name, extra=None):
    """values of `expr` for byte_name in 0..255 (finite-domain folding of a sub-expression)."""
    out = []
    for b in range(256):
        env = {byte_name: b}
        if extra:
            env.update(extra(b))
        out.append(folder.eval(expr, env=env))
    return out


def check(chk):
    chk.decides = ('struct format (width, signedness, byte order) of every scalar writer against the specification table; count / element-length '
                   'widths of list, set, map, tuple, UDT, vector per protocol version; date offset constant; decimal and duration field order; '
                   'vint first-byte decoding over all 256 byte values; vint overflow raise; fixed-width values reach the wire through struct (which raises out of range)')
    chk.does_not_decide = 'varint byte-length arithmetic, zig-zag arithmetic and vint bit packing as functions over unbounded integers; float/Decimal arithmetic'
    chk.rule('C02.scalar', 'the writer of a scalar type packs exactly the format(s) the specification gives for that type')
    chk.rule('C02.coll', 'collection count/length prefixes: int32 from v3, uint16 before; tuple/UDT fields int32 with -1 for null; vector sizes as unsigned vints')
    chk.rule('C02.const', 'date epoch offset is 2**31 on both sides; decimal is scale then unscaled; duration is months, days, nanoseconds')
    chk.rule('C02.vint', 'first-byte decoding of vints (extra byte count = leading one bits, value mask) holds for all 256 byte values; '
                         'the first-byte marker written for k extra bytes has k leading ones')
    chk.rule('C02.range', 'out-of-range values raise: fixed-width writers pass the value to a struct packer unmasked; vint writers raise beyond 8 extra bytes')
    spec = load_spec()
    C = Codecs(chk.repo)
    mod = C.mod

    # ---- scalars vs spec
    for cname, alts in sorted(spec.VALUE_FORMATS.items()):
        c = mod.cls(cname)
        W, wo = C.find_method(c, 'serialize')
        if W is None:
            raise AnalysisError('%s has no serialize' % cname)
        fw = C.formats_in(W, 'w')
        R, ro = C.find_method(c, 'deserialize')
        fr = C.formats_in(R, 'r') if R is not None else set()
        chk.judge(any(fw == a for a in alts), 'C02.scalar', W, '%s.serialize packs %s' % (cname, sorted(fw)),
                  'specification requires %s for %s, the writer packs %s' % (' or '.join(str(sorted(a)) for a in alts), cname, sorted(fw)),
                  nontrivial=bool(fw))
        chk.judge(any(fr == a for a in alts), 'C02.scalar', R, '%s.deserialize unpacks %s' % (cname, sorted(fr)),
                  'specification requires %s for %s, the reader unpacks %s' % (' or '.join(str(sorted(a)) for a in alts), cname, sorted(fr)),
                  nontrivial=bool(fr))
        # range: the packed argument is not masked
        if fw and all(f.startswith('>') for f in fw):
            masked = [src(n) for n in body_walk(W) if isinstance(n, ast.Call) and (chain(n.func) or ('',))[-1] in C.fmt
                      for a in n.args for x in ast.walk(a) if isinstance(x, ast.BinOp) and isinstance(x.op, (ast.BitAnd, ast.Mod))]
            chk.judge(not masked, 'C02.range', W, '%s.serialize hands the value to struct unmasked' % cname,
                      'value is masked/reduced before packing (%s): an out-of-range value would be encoded as a different value' % masked)
    chk.require('C02.scalar', 30)

    # ---- collections vs spec
    kinds = {'_SimpleParameterizedType': 'list', 'MapType': 'map', 'TupleType': 'tuple', 'UserType': 'udt'}
    for cname, kind in kinds.items():
        c = mod.cls(cname)
        W, wo = C.find_method(c, 'serialize_safe')
        R, ro = C.find_method(c, 'deserialize_safe')
        for pv in VERSIONS:
            cnt, ln = spec.collection_layout(kind, pv)
            for fn, owner, side in ((W, wo, 'writer'), (R, ro, 'reader')):
                outs = nonnull(C.run(c, fn, owner, pv, {'cls': Sym('cls')}), side == 'writer')
                fs = set(features(shape(o.events, C.fmt, C.special)) for o in outs)
                for f in fs:
                    top, lf, subs = f
                    want_top = (cnt,) if cnt else ()
                    good = tuple(top) == want_top and all(x == ln for x in lf) and len(lf) == (2 if kind == 'map' else 1)
                    chk.judge(good, 'C02.coll', fn, '%s %s @ v=%#x: count %s, element lengths %s' % (cname, side, pv, top, lf),
                              'specification: count %s, element length %s at this version; %s uses count %s, element lengths %s'
                              % (cnt, ln, side, top, lf))
    # tuple/UDT null is int32 -1
    for cname in ('TupleType', 'UserType'):
        c = mod.cls(cname)
        W, wo = C.find_method(c, 'serialize_safe')
        outs = C.run(c, W, wo, 4, {'cls': Sym('cls')})
        negs = [e for o in outs if o.kind == 'ok' for e in o.events if e[0] == 'pack' and e[2] == '-1']
        chk.judge(bool(negs) and all(C.fmt.get(e[1]) == '>i' for e in negs), 'C02.coll', W, '%s writer: null field is int32 -1' % cname,
                  'a null tuple/UDT field is not written as a 4-byte -1 length')
    # reader side of the same convention: exactly the negative lengths mean null (a zero-length element is an empty value)
    for cname in ('_SimpleParameterizedType', 'MapType', 'TupleType', 'UserType'):
        c = mod.cls(cname)
        R, ro = C.find_method(c, 'deserialize_safe')
        outs = C.run(c, R, ro, 4, {'cls': Sym('cls')})
        atoms = set()
        for o in outs:
            if o.kind != 'ok':
                continue
            for text, val in o.choices:
                k, flip = normalise_atom(ast.parse(text, mode='eval').body)
                if 'len' in k.lower() and ('< 0' in k or '0 <' in k):
                    atoms.add(k)
        good = bool(atoms) and all(k.endswith(' < 0') for k in atoms)
        chk.judge(good, 'C02.coll', R, '%s reader: null exactly for a negative element length (tests: %s)' % (cname, sorted(atoms)),
                  'the reader separates null from present elements by %s: a zero-length element (empty text/blob) is decoded as null, or a negative length is not' % sorted(atoms))
    # vector
    vc = mod.cls('VectorType')
    W, _ = C.find_method(vc, 'serialize')
    R, _ = C.find_method(vc, 'deserialize')
    chk.judge(C.formats_in(W, 'w') == set(['uvint']) and C.formats_in(R, 'r') == set(['uvint']), 'C02.coll', W,
              'VectorType: variable-width element sizes are unsigned vints', 'vector element sizes are not unsigned vints on both sides')
    ss, _ = C.find_method(vc, 'serial_size')
    rets = [n for n in body_walk(ss) if isinstance(n, ast.Return)]
    goodss = False
    if len(rets) == 1:
        try:
            fo = C.folder
            goodss = fo.eval(rets[0].value, env={'serialized_size': None, 'cls': {'vector_size': 3}}) is None and fo.eval(rets[0].value, env={'serialized_size': 4, 'cls': {'vector_size': 3}}) == 12
        except Exception:
            goodss = False
    chk.judge(goodss, 'C02.coll', ss, 'VectorType.serial_size is None when the element type has no fixed size',
              'vector serial_size no longer propagates "no fixed size" (nested vectors would be laid out as fixed width)')
    # fixed sizes declared by serial_size() equal the struct sizes
    import struct as _struct
    for c in C.classes():
        ssf = [st for st in c.body if isinstance(st, ast.FunctionDef) and st.name == 'serial_size']
        if not ssf or c.name == 'VectorType' or c.name.startswith('_'):
            continue
        rets = [n for n in body_walk(ssf[0]) if isinstance(n, ast.Return)]
        W, _ = C.find_method(c, 'serialize')
        fw = C.formats_in(W, 'w')
        if len(rets) == 1 and isinstance(rets[0].value, ast.Constant):
            declared = rets[0].value.value
            if fw and all(f.startswith('>') for f in fw):
                real = sum(_struct.calcsize(f) for f in fw)
            elif c.name in ('UUIDType', 'TimeUUIDType'):
                real = 16
            else:
                real = None
            chk.judge(real == declared, 'C02.coll', ssf[0], '%s.serial_size() == %s' % (c.name, declared),
                      'declared fixed size %s differs from the encoded width %s (vector elements would be mis-sliced)' % (declared, real))

    # ---- constants / field order
    folder = Folder(mod, others=[C.marshal])
    try:
        off = folder.class_const('SimpleDateType', 'EPOCH_OFFSET_DAYS')
    except Unfoldable as e:
        raise AnalysisError(str(e))
    sd = mod.cls('SimpleDateType')
    chk.judge(off == spec.DATE_EPOCH_OFFSET, 'C02.const', sd, 'SimpleDateType.EPOCH_OFFSET_DAYS == 2**31', 'date epoch offset is %r' % off)
    W, _ = C.find_method(sd, 'serialize')
    R, _ = C.find_method(sd, 'deserialize')
    addw = [n for n in body_walk(W) if isinstance(n, ast.BinOp) and isinstance(n.op, ast.Add) and 'EPOCH_OFFSET_DAYS' in src(n)]
    subr = [n for n in body_walk(R) if isinstance(n, ast.BinOp) and isinstance(n.op, ast.Sub) and src(n.right).endswith('EPOCH_OFFSET_DAYS')]
    chk.judge(len(addw) == 1 and len(subr) == 1, 'C02.const', W, 'date writer adds the offset, reader subtracts it',
              'offset handling asymmetric: writer adds %d time(s), reader subtracts %d time(s)' % (len(addw), len(subr)))
    dec = mod.cls('DecimalType')
    W, _ = C.find_method(dec, 'serialize')
    neg = [n for n in body_walk(W) if isinstance(n, ast.Call) and (chain(n.func) or ('',))[-1] == 'int32_pack' and n.args
           and isinstance(n.args[0], ast.UnaryOp) and isinstance(n.args[0].op, ast.USub) and src(n.args[0].operand) == 'exponent']
    chk.judge(len(neg) == 1, 'C02.const', W, 'decimal scale = -exponent as int32', 'decimal scale is not int32_pack(-exponent)')
    R, _ = C.find_method(dec, 'deserialize')
    rr = [n for n in body_walk(R) if isinstance(n, ast.Return)]
    goodr = len(rr) == 1 and "'%de%d'" in src(rr[0].value) and '-scale' in src(rr[0].value)
    chk.judge(goodr, 'C02.const', R, 'decimal reader: unscaled * 10**(-scale)', 'decimal reader no longer builds unscaled e -scale')
    dur = mod.cls('DurationType')
    W, _ = C.find_method(dur, 'serialize')
    R, _ = C.find_method(dur, 'deserialize')
    calls = [n for n in body_walk(W) if isinstance(n, ast.Call) and (chain(n.func) or ('',))[-1] == 'vints_pack']
    order_ok = False
    from ..sem import resolve as _resolve
    arg0 = _resolve(W, calls[0].args[0]) if len(calls) == 1 and calls[0].args else None
    if isinstance(arg0, (ast.List, ast.Tuple)):
        names = [src(e) for e in arg0.elts]
        binds = {}
        for st in body_walk(W):
            if isinstance(st, ast.Assign) and isinstance(st.targets[0], ast.Tuple) and isinstance(st.value, ast.Tuple):
                for t, v in zip(st.targets[0].elts, st.value.elts):
                    binds[src(t)] = src(v).split('.')[-1]
            elif isinstance(st, ast.Assign) and len(st.targets) == 1 and isinstance(st.targets[0], ast.Name) and isinstance(st.value, ast.Attribute):
                binds[st.targets[0].id] = st.value.attr
        order_ok = [binds.get(n, n.split('.')[-1]) for n in names] == ['months', 'days', 'nanoseconds']
    chk.judge(order_ok, 'C02.const', W, 'duration writer: vints of months, days, nanoseconds', 'duration fields are not written in months, days, nanoseconds order')
    ru = [st for st in body_walk(R) if isinstance(st, ast.Assign) and isinstance(st.value, ast.Call) and (chain(st.value.func) or ('',))[-1] == 'vints_unpack']
    rok = len(ru) == 1 and isinstance(ru[0].targets[0], ast.Tuple) and [src(t) for t in ru[0].targets[0].elts] == ['months', 'days', 'nanoseconds']
    rets = [n for n in body_walk(R) if isinstance(n, ast.Return)]
    rok = rok and len(rets) == 1 and isinstance(rets[0].value, ast.Call) and [src(a) for a in rets[0].value.args] == ['months', 'days', 'nanoseconds']
    chk.judge(rok, 'C02.const', R, 'duration reader: months, days, nanoseconds', 'duration reader does not unpack months, days, nanoseconds in order')
    tt = mod.cls('TimeType')
    W, _ = C.find_method(tt, 'serialize')
    chk.judge(any(isinstance(n, ast.Attribute) and n.attr == 'nanosecond_time' for n in body_walk(W)), 'C02.const', W,
              'time writer packs nanosecond_time', 'time writer no longer packs the nanosecond-of-day value')

    # ---- vint first byte over the byte domain
    mar = C.marshal
    mf = Folder(mar)
    for fname in ('vints_unpack', 'uvint_unpack'):
        f = mar.func(fname)
        assigns = dict()
        for st in body_walk(f):
            if isinstance(st, ast.Assign) and isinstance(st.targets[0], ast.Name):
                assigns.setdefault(st.targets[0].id, []).append(st.value)
        if 'num_extra_bytes' not in assigns or 'first_byte' not in assigns:
            raise AnalysisError('%s: first-byte decoding not recognised' % fname)
        ne = assigns['num_extra_bytes'][0]
        try:
            got = []
            for b in range(256):
                got.append(_eval_bl(mf, ne, {'first_byte': b}))
        except Unfoldable as e:
            raise AnalysisError('%s: cannot fold %s: %s' % (fname, src(ne), e))
        want = [spec.vint_extra_bytes(b) for b in range(256)]
        bad = [b for b in range(128, 256) if got[b] != want[b]]
        chk.judge(not bad, 'C02.vint', f, '%s: num_extra_bytes = leading ones of the first byte (%s)' % (fname, src(ne)),
                  'extra-byte count wrong for first bytes %s' % [hex(b) for b in bad[:8]])
        # single byte test
        tests = [n for n in body_walk(f) if isinstance(n, ast.If) and 'first_byte' in src(n.test)]
        if not tests:
            raise AnalysisError('%s: single-byte test not found' % fname)
        t0 = tests[0].test
        try:
            single = [bool(mf.eval(t0, env={'first_byte': b})) for b in range(256)]
        except Unfoldable as e:
            raise AnalysisError(str(e))
        # which arm reads the extra bytes: the test selects the one-byte form when that arm is the else arm, the multi-byte form when it is the body
        in_body = any(isinstance(n, ast.Name) and n.id == 'num_extra_bytes' for st in tests[0].body for n in ast.walk(st))
        in_else = any(isinstance(n, ast.Name) and n.id == 'num_extra_bytes' for st in tests[0].orelse for n in ast.walk(st))
        if not in_body and not in_else and tests[0].body and isinstance(tests[0].body[-1], (ast.Return, ast.Continue, ast.Raise)):
            in_else = True      # early exit: what follows the test is its else arm
        if in_body == in_else:
            raise AnalysisError('%s: the arm of the first-byte test that reads the extra bytes is not recognised' % fname)
        if in_body:
            single = [not x for x in single]
        chk.judge(single == [b < 128 for b in range(256)], 'C02.vint', f, '%s: one-byte vint iff first byte < 0x80' % fname,
                  'single-byte test wrong at %s' % [hex(b) for b in range(256) if single[b] != (b < 128)][:8])
        # value mask
        mask_exprs = [v for k in ('val', 'rv') for v in assigns.get(k, []) if isinstance(v, ast.BinOp) and isinstance(v.op, ast.BitAnd) and 'first_byte' in src(v)]
        if not mask_exprs:
            raise AnalysisError('%s: value mask not found' % fname)
        badm = []
        for b in range(128, 256):
            k = want[b]
            try:
                g = mf.eval(mask_exprs[0], env={'first_byte': b, 'num_extra_bytes': k})
            except Unfoldable as e:
                raise AnalysisError(str(e))
            if g != (b & (0xff >> k)) if k < 8 else g != 0:
                badm.append(b)
        chk.judge(not badm, 'C02.vint', f, '%s: value bits of the first byte = first_byte & (0xff >> extra)' % fname,
                  'first-byte value mask wrong at %s' % [hex(b) for b in badm[:8]])
    for fname in ('vints_pack', 'uvint_pack'):
        f = mar.func(fname)
        # marker: v |= (0xff >> n << n) with n = 8 - num_extra_bytes
        # the marker expression (0xff >> n << n), wherever it is or-ed into the first byte: in `v |= ...`, in `v = v | ...`, through a temporary
        class _M(object):
            pass
        cands = [x for x in ast.walk(f) if isinstance(x, ast.BinOp) and isinstance(x.op, ast.LShift) and isinstance(x.left, ast.BinOp) and isinstance(x.left.op, ast.RShift)
                 and isinstance(x.left.left, ast.Constant) and x.left.left.value == 0xff]
        ored = [x for x in ast.walk(f) if (isinstance(x, ast.AugAssign) and isinstance(x.op, ast.BitOr)) or (isinstance(x, ast.BinOp) and isinstance(x.op, ast.BitOr))]
        aug = []
        if len(set(src(c_) for c_ in cands)) == 1 and ored:
            m_ = _M()
            m_.value = cands[0]
            aug = [m_]
        ndef = [st for st in body_walk(f) if isinstance(st, ast.Assign) and isinstance(st.targets[0], ast.Name) and st.targets[0].id == 'n']
        if len(aug) != 1 or len(ndef) != 1:
            raise AnalysisError('%s: first-byte marker not recognised' % fname)
        bad = []
        for k in range(1, 9):
            n = mf.eval(ndef[0].value, env={'num_extra_bytes': k})
            marker = mf.eval(aug[0].value, env={'n': n})
            if marker != ((0xff << (8 - k)) & 0xff):
                bad.append(k)
        chk.judge(not bad, 'C02.vint', f, '%s: marker for k extra bytes has k leading ones' % fname, 'marker wrong for k in %s' % bad)
        # overflow raise
        rs = [n for n in body_walk(f) if isinstance(n, ast.If) and any(isinstance(s, ast.Raise) for s in n.body)]
        goodr = any(normalise_atom(r.test) == ('8 < num_extra_bytes', False) for r in rs)
        chk.judge(goodr, 'C02.range', f, '%s raises when more than 8 extra bytes are needed' % fname,
                  'a value too large for a vint is not rejected')
        thr = [n for n in body_walk(f) if isinstance(n, ast.If) and normalise_atom(n.test)[0] in ('v < 128', 'val < 128')]
        chk.judge(bool(thr), 'C02.vint', f, '%s: values below 128 take one byte' % fname, 'single-byte threshold is no longer 128')
    # the zig-zag step keeps out-of-range values out of range (so that vints_pack's size test rejects them): no wrap-around mask
    for zz in ('encode_zig_zag',):
        fz = mar.func(zz)
        wide = [n for n in body_walk(fz) if isinstance(n, ast.BinOp) and isinstance(n.op, (ast.BitAnd, ast.Mod))
                and any(isinstance(x, ast.Constant) and isinstance(x.value, int) and x.value >= 2 ** 31 for x in (n.left, n.right))]
        chk.judge(not wide, 'C02.range', fz, '%s does not reduce its result modulo 2**64' % zz,
                  'a duration component outside the signed 64-bit range is wrapped into range by a mask instead of being rejected by vints_pack')
    chk.require('C02.vint', 10)
    chk.require('C02.coll', 60)

    # a `date` value is the day number of the instant: floor division also before 1970 (the Date helper is what the date codec serializes)
    # nested collections: Cassandra encodes the elements of a collection with the v3 layout whatever the connection's version (C01 decides it per writer / reader pair)
    chk.rule('C02.inner', 'every element of a collection is handed to its codec with the inner protocol version max(3, v) on the writer and the reader side (shared with C01.coll)')
    chk.borrow('C01', {'C01.coll': 'C02.inner'}, 'under protocol v1 / v2 a nested collection is then written with 2-byte counts where Cassandra (and the driver\'s own reader) expect the v3 layout')
    chk.rule('C02.date', 'Date computes its day number by floor division of the epoch seconds (shared with C34)')
    chk.borrow('C34', {'C34.datefmt': 'C02.date'}, 'a datetime before 1970 with a time of day is encoded as the following day')

    # vector elements: Cassandra writes the elements of a vector without a length prefix exactly when the element type has a fixed value length
    # (AbstractType.valueLengthIfFixed in Cassandra 5.0: boolean 1, int 4, float 4, bigint 8, double 8, timestamp 8, uuid 16, timeuuid 16 - `time`, `date`,
    # smallint, tinyint ... are variable there and get an unsigned-vint length per element); the driver mirrors that with serial_size()
    chk.rule('C02.fixed', 'serial_size() is defined for exactly the types Cassandra treats as fixed length in a vector, with Cassandra\'s sizes')
    FIXED = {'UUIDType': 16, 'BooleanType': 1, 'FloatType': 4, 'DoubleType': 8, 'LongType': 8, 'Int32Type': 4, 'DateType': 8, 'TimeUUIDType': 16}
    declared = {}
    for cn_, c_ in mod.classes():
        if '.' in cn_ or cn_ in ('_CassandraType', 'VectorType'):
            continue
        for fn_ in c_.body:
            if isinstance(fn_, ast.FunctionDef) and fn_.name == 'serial_size':
                rets_ = [r for r in body_walk(fn_) if isinstance(r, ast.Return) and r.value is not None]
                declared[cn_] = rets_[0].value.value if len(rets_) == 1 and isinstance(rets_[0].value, ast.Constant) else '?'
    chk.judge(declared == FIXED, 'C02.fixed', mod.cls('VectorType'), 'fixed-length element types: %s' % sorted(FIXED.items()),
              'the set of types with a serial_size() is %s, Cassandra\'s fixed-length types are %s: a vector over %s is written / read without (or with) the per-element length '
              'prefix that Cassandra uses' % (sorted(declared.items()), sorted(FIXED.items()), sorted(set(declared) ^ set(FIXED)) or 'a resized type'))
    # timestamp: the instant of a datetime is taken in UTC (utctimetuple converts an aware datetime); timetuple() - wall-clock fields - only for a
    # value that has no utctimetuple (a date), i.e. inside the AttributeError arm
    chk.rule('C02.instant', 'DateType.serialize: epoch seconds from calendar.timegm(v.utctimetuple()); timegm(v.timetuple()) only in the AttributeError arm (dates)')
    from ..core import parent as _par2
    dts = mod.func('DateType.serialize')
    tcalls = [c for c in body_walk(dts) if isinstance(c, ast.Call) and src(c.func) == 'calendar.timegm' and c.args]
    if not tcalls:
        raise AnalysisError('DateType.serialize: calendar.timegm not found')
    kinds = []
    for c in tcalls:
        a0 = c.args[0]
        meth = a0.func.attr if isinstance(a0, ast.Call) and isinstance(a0.func, ast.Attribute) else None
        in_attr_handler = False
        p_ = _par2(c)
        while p_ is not None and p_ is not dts:
            if isinstance(p_, ast.ExceptHandler) and p_.type is not None and 'AttributeError' in src(p_.type):
                in_attr_handler = True
            p_ = _par2(p_)
        kinds.append((meth, in_attr_handler))
        good = meth == 'utctimetuple' or (meth == 'timetuple' and in_attr_handler)
        chk.judge(good, 'C02.instant', c, 'DateType.serialize: timegm(%s)%s' % (src(a0), ' in the AttributeError arm' if in_attr_handler else ''),
                  'the epoch seconds of a datetime are computed from %s: a timezone-aware datetime with a non-zero offset is encoded as another instant (off by its UTC offset)' % src(a0))
    chk.judge(any(k == ('utctimetuple', False) for k in kinds), 'C02.instant', dts, 'the datetime arm uses utctimetuple()', 'no arm converts an aware datetime to UTC')



def _eval_bl(folder, node, env):
    """fold with support for (<int expr>).bit_length()"""
    class T(ast.NodeTransformer):
        def visit_Call(self, n):
            self.generic_visit(n)
            if isinstance(n.func, ast.Attribute) and n.func.attr == 'bit_length' and not n.args:
                v = folder.eval(n.func.value, env=env)
                return ast.Constant(value=int(v).bit_length())
            return n
    t = T().visit(ast.parse(src(node), mode='eval').body)
    return folder.eval(t, env=env)
