"""C44 - heartbeats detect dead idle connections without leaking capacity (structure)."""
import ast

from ..core import AnalysisError, src, body_walk, walk_no_nested, parent, enclosing
from ..cfg import CFG, Flow
from ..locks import holds
from .c09 import attr_writes

CONN = 'cassandra/connection.py'


def _derives_from(name, loop, root):
    """inside `loop`'s body: is every assignment to `name` an attribute chain rooted at `root`, and is there one?"""
    asg = [n for st in loop.body for n in ast.walk(st) if isinstance(n, ast.Assign) and any(src(t) == name for t in n.targets)]
    if not asg:
        return False
    return all(src(a.value).startswith(root + '.') and isinstance(a.value, ast.Attribute) for a in asg)


def _live(fa):
    return fa.knows('connection.is_defunct') is False and fa.knows('connection.is_closed') is False


def _dead(fa):
    return fa.knows('connection.is_defunct') is True or fa.knows('connection.is_closed') is True


def check(chk):
    chk.decides = ('in a heartbeat round each connection falls in exactly one arm: defunct/closed -> handed back to its owner; idle -> one heartbeat; not idle -> '
                   'idle flag reset and no heartbeat; the only writers of the traffic flag are the message handler (True) and reset_idle (False); a heartbeat takes '
                   'one unit of capacity under the connection lock only when it is sent, and the success arm gives exactly that unit back under the same lock; '
                   'every failure (send error, error answer, silence) is recorded with the failing future\'s own connection and owner, and every recorded failure is '
                   'made defunct and returned to that owner; wait() raises for an error answer and for silence; the answer callback always sets the event')
    chk.does_not_decide = 'timing of rounds; which answers arrive'
    chk.rule('C44.arms', 'send loop: HeartbeatFuture only under (not defunct/closed) and is_idle; reset_idle under not idle; return_connection under defunct/closed')
    chk.rule('C44.flag', 'msg_received written only by process_msg (True, first statement) and reset_idle (False)')
    chk.rule('C44.capacity', 'in_flight += 1 once, under the lock, only on the sending arm guarded by in_flight < max_request_id; in_flight -= 1 once, under the lock, only on the success path of the wait loop')
    chk.rule('C44.failed', 'each failed_connections.append((c, o, e)) names the connection/owner of the thing that failed (loop variables in the send loop; derived from the future in the wait loop); every failed entry: defunct(exc) and owner.return_connection(connection)')
    chk.rule('C44.future', 'wait(): event set and exception -> raise; event not set -> OperationTimedOut; _options_callback: non-Supported answer sets the exception; event always set')
    m = chk.repo.mod(CONN)
    run = m.func('ConnectionHeartbeat.run')
    g = CFG(run, may_raise=lambda n: ['Exception'] if ('HeartbeatFuture(' in src(n) or 'f.wait(' in src(n)) else [])
    fl = Flow(g, 0, lambda n, c: c)
    hb = [n for n in g.stmt_nodes() if n.kind == 'stmt' and 'HeartbeatFuture(' in src(n.ast)]
    if len(hb) != 1:
        raise AnalysisError('run: one HeartbeatFuture creation expected, found %d' % len(hb))
    call = [x for x in ast.walk(hb[0].ast) if isinstance(x, ast.Call) and src(x.func) == 'HeartbeatFuture'][0]
    ok = all(fa.knows('connection.is_idle') is True and _live(fa) for fa, _ in fl.at(hb[0]))
    # the future is put on the list that the wait loop goes over: directly, or through a local appended on the normal path after the creation
    kept = src(hb[0].ast).startswith('futures.append(')
    if not kept and isinstance(hb[0].ast, ast.Assign) and isinstance(hb[0].ast.targets[0], ast.Name):
        v_ = hb[0].ast.targets[0].id
        aps_ = [n for n in g.stmt_nodes() if n.kind == 'stmt' and src(n.ast) == 'futures.append(%s)' % v_]
        kept = len(aps_) == 1 and g.dominates(hb[0], aps_[0])
    chk.judge(ok and [src(a) for a in call.args] == ['connection', 'owner'] and kept, 'C44.arms', hb[0].ast,
              'heartbeat sent only on an idle, live connection; the future remembers (connection, owner)', 'a heartbeat is sent on a busy, defunct or closed connection')
    send_loop = enclosing(hb[0].ast, ast.For)
    outer = enclosing(send_loop, ast.For)
    if send_loop is None or outer is None or src(send_loop.target) != 'connection' or 'owner' not in src(outer.target):
        raise AnalysisError('run: send loops not recognised')
    resets = [n for n in g.stmt_nodes() if n.kind == 'stmt' and src(n.ast) == 'connection.reset_idle()']
    first = [n for n in resets if any(n.ast is x for x in ast.walk(send_loop))]
    ok = len(first) == 1 and all(fa.knows('connection.is_idle') is False and _live(fa) for fa, _ in fl.at(first[0]))
    chk.judge(ok, 'C44.arms', send_loop, 'a connection that saw traffic gets its flag reset and no heartbeat', 'traffic flag not reset / reset on the wrong arm')
    rcs = [n for n in g.stmt_nodes() if n.kind == 'stmt' and src(n.ast) == 'owner.return_connection(connection)']
    r1 = [n for n in rcs if any(n.ast is x for x in ast.walk(send_loop))]
    ok = len(r1) == 1 and all(_dead(fa) for fa, _ in fl.at(r1[0]))
    chk.judge(ok, 'C44.arms', send_loop, 'defunct/closed connection is handed back to its owner', 'defunct connections are not returned to the owner')
    chk.judge(src(outer.iter) == '[(o.get_connections(), o) for o in self._get_connection_holders()]', 'C44.arms', outer, 'every holder\'s connections are visited with that holder as owner', 'holder/owner pairing changed')
    # flag
    ws = attr_writes(m, 'msg_received')
    shape = sorted((f.name, src(st)) for st, _, f in ws)
    good = shape == [('process_msg', 'self.msg_received = True'), ('reset_idle', 'self.msg_received = False')]
    pm = m.func('Connection.process_msg')
    chk.judge(good and src(pm.body[0]) == 'self.msg_received = True', 'C44.flag', pm, 'writers of msg_received: process_msg (first statement, True), reset_idle (False)', 'traffic flag writers changed: %s' % shape)
    ii = m.func('Connection.is_idle')
    cls = m.cls('Connection')
    dflt = [st for st in cls.body if isinstance(st, ast.Assign) and src(st.targets[0]) == 'msg_received']
    chk.judge(src(ii.body[-1]) == 'return not self.msg_received' and len(dflt) == 1 and src(dflt[0].value) == 'False', 'C44.flag', ii, 'is_idle == not msg_received; starts False', 'is_idle changed')
    # capacity
    hf = m.func('HeartbeatFuture.__init__')
    gi = CFG(hf)
    fli = Flow(gi, 0, lambda n, c: c)
    incs = [n for n in gi.stmt_nodes() if n.kind == 'stmt' and isinstance(n.ast, ast.AugAssign) and src(n.ast.target) == 'connection.in_flight']
    ok = len(incs) == 1 and isinstance(incs[0].ast.op, ast.Add) and src(incs[0].ast.value) == '1' and holds(incs[0].ast, ('connection',)) and \
        all(fa.knows('connection.in_flight < connection.max_request_id') is True for fa, _ in fli.at(incs[0]))
    chk.judge(ok, 'C44.capacity', hf, 'one unit taken under connection.lock, only when a stream id is free', 'heartbeat capacity accounting changed on the send side')
    sends = [n for n in gi.stmt_nodes() if n.kind == 'stmt' and 'connection.send_msg(' in src(n.ast)]
    ok = len(sends) == 1 and holds(sends[0].ast, ('connection',)) and incs and parent(sends[0].ast) is parent(incs[0].ast) \
        and 'OptionsMessage()' in src(sends[0].ast) and 'connection.get_request_id()' in src(sends[0].ast) and 'self._options_callback' in src(sends[0].ast)
    chk.judge(ok, 'C44.capacity', hf, 'OPTIONS sent with a fresh stream id and the future\'s callback, in the same critical section', 'send side changed')
    full = [n for n in gi.stmt_nodes() if n.kind == 'stmt' and src(n.ast) == 'self._event.set()']
    ok = len(full) == 1 and all(fa.knows('connection.in_flight < connection.max_request_id') is False for fa, _ in fli.at(full[0])) and \
        any(isinstance(n.ast, ast.Assign) and src(n.ast.targets[0]) == 'self._exception' and not (isinstance(n.ast.value, ast.Constant)) for n in gi.stmt_nodes() if n.kind == 'stmt')
    chk.judge(ok, 'C44.capacity', hf, 'no free stream id -> the future fails at once, nothing taken', 'full connection handling changed')
    wait_loop = [n for n in body_walk(run) if isinstance(n, ast.For) and src(n.iter) == 'futures']
    if len(wait_loop) != 1 or src(wait_loop[0].target) != 'f':
        raise AnalysisError('run: `for f in futures` not found')
    wl = wait_loop[0]
    decs = [n for n in g.stmt_nodes() if n.kind == 'stmt' and isinstance(n.ast, ast.AugAssign) and src(n.ast.target).endswith('.in_flight')]
    ok = len(decs) == 1 and isinstance(decs[0].ast.op, ast.Sub) and src(decs[0].ast.value) == '1' and any(decs[0].ast is x for x in ast.walk(wl))
    if ok:
        recv = src(decs[0].ast.target)[:-len('.in_flight')]
        ok = holds(decs[0].ast, tuple(recv.split('.'))) and (recv == 'f.connection' or _derives_from(recv, wl, 'f'))
        trys = [t for t in ast.walk(wl) if isinstance(t, ast.Try)]
        ok = ok and len(trys) == 1 and any(decs[0].ast is x for st in trys[0].body for x in ast.walk(st)) and not any(decs[0].ast is x for h in trys[0].handlers for x in ast.walk(h))
        if ok:
            # the wait precedes the decrement inside the try body
            pos = [i for i, st in enumerate(trys[0].body) if any(isinstance(x, ast.Call) and src(x.func) == 'f.wait' for x in ast.walk(st))]
            dpos = [i for i, st in enumerate(trys[0].body) if any(decs[0].ast is x for x in ast.walk(st))]
            ok = bool(pos) and pos[0] < dpos[0]
    chk.judge(ok, 'C44.capacity', wl, 'the unit is given back once, under the same connection\'s lock, only after f.wait() returned normally',
              'the heartbeat\'s unit of capacity is not returned exactly once on success (or is returned on failure / for another connection)')
    r2 = [n for n in resets if any(n.ast is x for x in ast.walk(wl))]
    chk.judge(len(r2) == 1, 'C44.capacity', wl, 'the answered heartbeat itself does not count as traffic (reset_idle after success)', 'reset after success removed', nontrivial=False)
    if len(r2) == 1 and decs:
        # ... for every kind of connection: each normal path from the decrement back to the loop head passes the reset
        seen_, work_, skipped = set(), [x for x, l_ in decs[0].succ if not (l_ and l_[0] == 'exc')], False
        while work_:
            n_ = work_.pop()
            if n_.id in seen_ or n_ is r2[0]:
                continue
            seen_.add(n_.id)
            if n_.kind in ('for_iter', 'exit'):
                skipped = True
                break
            work_.extend(x for x, l_ in n_.succ if not (l_ and l_[0] == 'exc'))
        chk.judge(not skipped, 'C44.capacity', r2[0].ast, 'after an answered heartbeat reset_idle() runs on every path (pooled and control connections alike)',
                  'some answered heartbeats do not reset the idle flag: the answer itself set msg_received, so that connection looks busy in the next round and is '
                  'heartbeated only every second interval')
    # failures
    apps = [n for n in body_walk(run) if isinstance(n, ast.Call) and src(n.func) == 'failed_connections.append']
    if len(apps) != 2:
        raise AnalysisError('run: two failed_connections.append sites expected, found %d' % len(apps))
    for a in apps:
        t = a.args[0]
        h = enclosing(a, ast.ExceptHandler)
        if not isinstance(t, ast.Tuple) or len(t.elts) != 3 or h is None:
            chk.viol('C44.failed', a, src(a), 'failure record is not a (connection, owner, exception) triple inside a handler')
            continue
        c, o, e = [src(x) for x in t.elts]
        in_wait = any(a is x for x in ast.walk(wl))
        if in_wait:
            okc = c == 'f.connection' or _derives_from(c, wl, 'f')
            oko = o == 'f.owner' or _derives_from(o, wl, 'f')
            chk.judge(okc and oko and e == h.name, 'C44.failed', a, 'wait loop: failure recorded for the future\'s own connection and owner',
                      'the failure triple (%s, %s, %s) is not derived from the future that failed: `%s` still holds whatever the earlier loop left in it, so with more than one holder '
                      'the wrong owner is flagged / told about the dead connection' % (c, o, e, o if not oko else c))
        else:
            chk.judge(c == 'connection' and o == 'owner' and e == h.name and any(a is x for x in ast.walk(send_loop)), 'C44.failed', a,
                      'send loop: failure recorded for the loop\'s connection and owner', 'send failure recorded for the wrong connection/owner')
    floop = [n for n in body_walk(run) if isinstance(n, ast.For) and src(n.iter) == 'failed_connections']
    good = len(floop) == 1 and isinstance(floop[0].target, ast.Tuple) and [src(x) for x in floop[0].target.elts] == ['connection', 'owner', 'exc']
    if good:
        top = [src(st) for st in floop[0].body]
        good = 'connection.defunct(exc)' in top and 'owner.return_connection(connection)' in top and top.index('connection.defunct(exc)') < top.index('owner.return_connection(connection)')
    chk.judge(good, 'C44.failed', run, 'every recorded failure: connection.defunct(exc) then owner.return_connection(connection), unconditionally', 'failed connections are not defuncted / not reported to the owner')
    soe = [n for n in g.stmt_nodes() if n.kind == 'stmt' and src(n.ast) == 'owner.shutdown_on_error = True']
    chk.judge(len(soe) == 1 and all(fa.knows('connection.is_control_connection') is False for fa, _ in fl.at(soe[0])), 'C44.failed', run, 'shutdown_on_error only for pool owners', 'shutdown_on_error set on the control connection')
    # all three loops inside one try whose handlers do not lose the failure pass for ordinary exceptions in a single future: the per-future try catches Exception
    trys = [t for t in ast.walk(wl) if isinstance(t, ast.Try)]
    chk.judge(len(trys) == 1 and [src(h.type) for h in trys[0].handlers] == ['Exception'], 'C44.failed', wl, 'any exception of one future is caught per future', 'per-future handler narrowed')
    # future
    w = m.func('HeartbeatFuture.wait')
    gw = CFG(w)
    flw = Flow(gw, 0, lambda n, c: c)
    raises = [n for n in gw.nodes if n.kind == 'raise_stmt']
    r_exc = [n for n in raises if src(n.ast.exc) == 'self._exception']
    r_to = [n for n in raises if 'OperationTimedOut' in src(n.ast.exc)]
    ok = len(r_exc) == 1 and len(r_to) == 1 and all(fa.knows('self._event.is_set()') is True and fa.knows('self._exception') is True for fa, _ in flw.at(r_exc[0])) and \
        all(fa.knows('self._event.is_set()') is False for fa, _ in flw.at(r_to[0])) and src(w.body[0]) == 'self._event.wait(timeout)'
    # the normal exit needs: event set and no exception
    ex_ok = all(fa.knows('self._event.is_set()') is True and fa.knows('self._exception') is False for fa, _ in flw.at(gw.exit))
    chk.judge(ok and ex_ok, 'C44.future', w, 'wait returns normally only for an answered, error-free heartbeat; error -> raise it; silence -> OperationTimedOut', 'wait() can return normally for a failed or unanswered heartbeat')
    cb = m.func('HeartbeatFuture._options_callback')
    gc = CFG(cb)
    flc = Flow(gc, 0, lambda n, c: c)
    sets = [n for n in gc.stmt_nodes() if n.kind == 'stmt' and isinstance(n.ast, ast.Assign) and src(n.ast.targets[0]) == 'self._exception']
    # at function exit: either SupportedMessage or exception assigned
    def stepc(n, c):
        if n.kind == 'stmt' and isinstance(n.ast, ast.Assign) and src(n.ast.targets[0]) == 'self._exception':
            return 'exc'
        if n.kind == 'stmt' and src(n.ast) == 'self._event.set()':
            return c + '+set'
        return c
    flc = Flow(gc, 'none', stepc)
    outs = flc.at(gc.exit)
    ok = bool(outs) and all(c.endswith('+set') and (c.startswith('exc') or fa.knows('isinstance(response, SupportedMessage)') is True) for fa, c in outs)
    chk.judge(ok and len(sets) == 2, 'C44.future', cb, 'anything but SUPPORTED records an exception; the event is set on every path', 'an unexpected answer is treated as a successful heartbeat / the waiter is never woken')
