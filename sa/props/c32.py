"""C32 - concurrent execution returns one ordered result per statement (structure)."""
import ast

from ..core import AnalysisError, src, body_walk, walk_no_nested, qual_of
from ..cfg import CFG, Flow
from ..locks import held

CONC = 'cassandra/concurrent.py'


def check(chk):
    chk.decides = ('the statement index travels unchanged from enumeration through the callbacks to _put_result on all three completion arms and results are '
                   'ordered by it; the started-count is advanced before a statement is started (a synchronous completion reads it); at most `concurrency` '
                   'statements are started initially and at most one more per completion, always under the condition; fail-fast raises the stored '
                   'exception; a future completed from a function that lies on a call cycle needs a once-latch')
    chk.does_not_decide = 'interleavings of completions'
    chk.rule('C32.index', 'idx from enumerate reaches _put_result unchanged on the callback, errback and synchronous-raise arms; results are sorted / heap-ordered by idx')
    chk.rule('C32.count', '_exec_count += 1 precedes self._execute(...) in _execute_next')
    chk.rule('C32.bound', '_execute_next: called `concurrency` times at most by execute() and at most once per _put_result, under self._condition')
    chk.rule('C32.failfast', 'both _results implementations raise the stored/received exception when _fail_fast')
    chk.rule('C32.latch', 'a completion of the asynchronous future that can be reached more than once (call-graph cycle / except arm after execute) is guarded by a done() test')
    m = chk.repo.mod(CONC)
    en = m.func('_ConcurrentExecutor._execute_next')
    s = src(en)
    asg = [st for st in body_walk(en) if isinstance(st, ast.Assign) and 'next(self._enum_statements)' in src(st.value)]
    good = len(asg) == 1
    if good:
        # (i, (stmt, params)) = next(...)  - whatever the names - and self._execute(i, stmt, params) with exactly those
        t_ = asg[0].targets[0]
        flat = [x.id for x in ast.walk(t_) if isinstance(x, ast.Name)]
        shape = isinstance(t_, ast.Tuple) and len(t_.elts) == 2 and isinstance(t_.elts[0], ast.Name) and isinstance(t_.elts[1], ast.Tuple) and len(t_.elts[1].elts) == 2
        exs = [c_ for c_ in body_walk(en) if isinstance(c_, ast.Call) and src(c_.func) == 'self._execute']
        good = shape and len(flat) == 3 and len(exs) == 1 and [src(a_) for a_ in exs[0].args] == [t_.elts[0].id, src(t_.elts[1].elts[0]), src(t_.elts[1].elts[1])] and not exs[0].keywords
    chk.judge(good, 'C32.index', en, '(idx, (statement, params)) = next(enum); self._execute(idx, statement, params)', 'index/statement hand-over changed')
    init = m.func('_ConcurrentExecutor.__init__')
    from ..sem import resolve as _res32
    ens = [st for st in body_walk(init) if isinstance(st, ast.Assign) and src(st.targets[0]) == 'self._enum_statements']
    chk.judge(len(ens) == 1 and src(_res32(init, ens[0].value)) in ('enumerate(iter(statements_and_params))', 'enumerate(statements_and_params)'), 'C32.index', init, 'indexes come from enumerate over the input order', 'enumeration changed')
    # ordering of increment vs start
    g = CFG(en, may_raise=lambda n: ['StopIteration'] if 'next(self._enum_statements)' in src(n) else [])
    fl = Flow(g, False, lambda n, c: True if (n.kind == 'stmt' and isinstance(n.ast, ast.AugAssign) and src(n.ast.target) == 'self._exec_count' and src(n.ast.value) == '1') else c)
    ex = [n for n in g.stmt_nodes() if n.kind == 'stmt' and 'self._execute(' in src(n.ast)]
    chk.judge(len(ex) == 1 and all(c for _f, c in fl.at(ex[0])), 'C32.count', en, '_exec_count incremented before the statement is started',
              '_exec_count is advanced after self._execute(): a statement that completes (or fails) synchronously re-enters _put_result with a lagging count, so the '
              '"all finished" test misses and the waiter is never notified')
    retn = [n for n in g.stmt_nodes() if n.kind == 'return' and src(n.ast.value) == 'True']
    chk.judge(bool(retn) and all(c for n in retn for _f, c in fl.at(n)), 'C32.count', en, 'returns True only after starting a statement', 'True returned without a started statement')
    # _execute arms
    exf = m.func('_ConcurrentExecutor._execute')
    s = src(exf)
    adds = [c for c in body_walk(exf) if isinstance(c, ast.Call) and isinstance(c.func, ast.Attribute) and c.func.attr == 'add_callbacks']
    okcb = len(adds) == 1
    if okcb:
        def _one(v):
            # a temporary standing for the argument tuple is followed one step (the names inside the tuple are what is compared)
            if isinstance(v, ast.Name):
                ds = [st for st in body_walk(exf) if isinstance(st, ast.Assign) and len(st.targets) == 1 and src(st.targets[0]) == v.id]
                if len(ds) == 1:
                    return src(ds[0].value)
            return src(v)
        kw = dict((k.arg, _one(k.value)) for k in adds[0].keywords if k.arg)
        okcb = src(adds[0].func.value) == 'future' and kw.get('callback') == 'self._on_success' and kw.get('errback') == 'self._on_error' and \
            kw.get('callback_args') == '(future, idx)' and kw.get('errback_args') == '(future, idx)' and not adds[0].args
    chk.judge(okcb, 'C32.index', exf, 'callbacks registered with (future, idx)', 'callback arguments changed')
    puts = [n for n in body_walk(exf) if isinstance(n, ast.Call) and (src(n.func) == 'self._put_result' or (src(n.func) == 'self.session.submit' and n.args and src(n.args[0]) == 'self._put_result'))]
    good = len(puts) == 2 and all([src(a) for a in (p.args if src(p.func) == 'self._put_result' else p.args[1:])] == ['exc', 'idx', 'False'] for p in puts)
    chk.judge(good, 'C32.index', exf, 'synchronous raise -> _put_result(exc, idx, False) (directly or via submit past the recursion bound)', 'synchronous failure arm changed')
    chk.judge("self._exec_depth < self.max_error_recursion" in s and s.count('self._exec_depth') >= 3, 'C32.index', exf, 'recursion depth bounded', 'recursion bound changed')
    os_, oe = m.func('_ConcurrentExecutor._on_success'), m.func('_ConcurrentExecutor._on_error')
    # a paged ResponseFuture runs its callbacks again for every later page: the executor detaches itself before handing the result on
    chk.rule('C32.once', '_on_success clears the future\'s callbacks before it stores the result (one result per statement, also when the ResultSet is paged further)')
    gos = CFG(os_)
    clr = [n for n in gos.stmt_nodes() if n.kind == 'stmt' and src(n.ast) == 'future.clear_callbacks()']
    put = [n for n in gos.stmt_nodes() if n.kind == 'stmt' and 'self._put_result(' in src(n.ast)]
    chk.judge(len(clr) == 1 and len(put) == 1 and gos.dominates(clr[0], put[0]), 'C32.once', os_, 'future.clear_callbacks() precedes _put_result',
              'the executor stays registered on the future: when the caller iterates a multi-page ResultSet the future fires its callbacks for every further page, _put_result runs again '
              'for the same index - an extra statement is started and the results queue holds a duplicate')
    def _put_args(fn):
        cs = [c_ for c_ in body_walk(fn) if isinstance(c_, ast.Call) and src(c_.func) == 'self._put_result' and not c_.keywords]
        return [src(_res32(fn, a_)) for a_ in cs[0].args] if len(cs) == 1 else None
    chk.judge(_put_args(os_) == ['ResultSet(future, result)', 'idx', 'True'], 'C32.index', os_, '_on_success -> _put_result(ResultSet, idx, True)', 'success arm changed')
    chk.judge(_put_args(oe) == ['result', 'idx', 'False'], 'C32.index', oe, '_on_error -> _put_result(error, idx, False)', 'error arm changed')
    lst = m.func('ConcurrentExecutorListResults._put_result')
    gen = m.func('ConcurrentExecutorGenResults._put_result')
    def _stored(fn, fname, pos):
        cs = [c_ for c_ in body_walk(fn) if isinstance(c_, ast.Call) and src(c_.func) == fname and len(c_.args) == pos + 1]
        return [src(_res32(fn, c_.args[pos])) for c_ in cs]
    chk.judge(_stored(lst, 'self._results_queue.append', 0) == ['(idx, ExecutionResult(success, result))'], 'C32.index', lst, 'list results stored as (idx, ExecutionResult)', 'stored tuple changed')
    hp = [c_ for c_ in body_walk(gen) if isinstance(c_, ast.Call) and src(c_.func) in ('heappush', 'heapq.heappush') and len(c_.args) == 2]
    chk.judge(len(hp) == 1 and src(hp[0].args[0]) == 'self._results_queue' and src(_res32(gen, hp[0].args[1])) == '(idx, ExecutionResult(success, result))', 'C32.index', gen,
              'generator results heap-ordered by idx', 'heap entry changed')
    lr = m.func('ConcurrentExecutorListResults._results')
    def _sorted_projection(fn):
        # every returned list is [x[1] for x in <sorted(self._results_queue)>], the sorted list possibly held in a temporary
        rets_ = [r for r in body_walk(fn) if isinstance(r, ast.Return) and r.value is not None]
        if not rets_:
            return False
        for r in rets_:
            v = r.value
            if not (isinstance(v, ast.ListComp) and len(v.generators) == 1 and not v.generators[0].ifs and isinstance(v.generators[0].target, ast.Name)):
                return False
            var = v.generators[0].target.id
            it_ = v.generators[0].iter
            if isinstance(it_, ast.Name):
                ds = [st for st in body_walk(fn) if isinstance(st, ast.Assign) and len(st.targets) == 1 and src(st.targets[0]) == it_.id]
                it_ = ds[0].value if len(ds) == 1 else it_
            if src(v.elt) != '%s[1]' % var or src(it_) != 'sorted(self._results_queue)':
                return False
        return True
    def _sorted_projection2(fn):
        # the same through an accumulating loop: for idx, res in sorted(queue): out.append(res)
        from ..sem import elementwise as _ew32
        ew = _ew32(fn)
        from ..sem import _comp_descr as _cd32, resolve as _rs32
        rets_ = [r for r in body_walk(fn) if isinstance(r, ast.Return) and r.value is not None]
        good_ = (('list', 'sorted(self._results_queue)', '_e1'), ('list', 'sorted(self._results_queue)', '_e0[1]'))

        def _d(r):
            if isinstance(r.value, ast.Name) and len(ew.get(r.value.id, [])) == 1:
                return ew[r.value.id][0][0]
            return _cd32(_rs32(fn, r.value))
        return bool(rets_) and all(_d(r) in good_ for r in rets_)
    chk.judge(_sorted_projection(lr) or _sorted_projection2(lr), 'C32.index', lr, 'list results returned sorted by idx', 'result order changed')
    gr = m.func('ConcurrentExecutorGenResults._results')
    chk.judge('self._results_queue[0][0] != self._current' in src(gr) and 'self._current += 1' in src(gr), 'C32.index', gr, 'generator yields result number _current next', 'generator order changed')

    # concurrency bound
    exe = m.func('_ConcurrentExecutor.execute')
    loops = [n for n in body_walk(exe) if isinstance(n, ast.For) and src(n.iter) == 'range(concurrency)']
    good = len(loops) == 1 and any(isinstance(x, ast.Call) and src(x.func) == 'self._execute_next' for x in ast.walk(loops[0])) and \
        any(l == ('self', '_condition') for l, w in held(loops[0]))
    chk.judge(good, 'C32.bound', exe, 'execute(): at most `concurrency` initial starts, under self._condition', 'initial start loop changed')
    ec = m.func('execute_concurrent')
    from ..sem import flow_of as _flow32
    gec, flec = _flow32(ec)
    rv = [n for n in gec.nodes if n.kind == 'raise_stmt' and 'ValueError' in src(n.ast)]
    # the rejection covers exactly the non-positive values: at the raise `0 < concurrency` is false, and past it it holds on every path that goes on
    okb = bool(rv) and any(all(fa.knows('0 < concurrency') is False for fa, _c in flec.at(r_)) for r_ in rv)
    if okb:
        goes_on = [n for n in gec.stmt_nodes() if n.kind in ('stmt', 'return') and any(isinstance(x, ast.Name) and x.id == 'concurrency' for x in ast.walk(n.ast))
                   and not isinstance(n.ast, ast.Raise)]
        okb = bool(goes_on) and all(fa.knows('0 < concurrency') is True for n in goes_on for fa, _c in flec.at(n))
    chk.judge(okb, 'C32.bound', ec, 'concurrency must be positive (ValueError otherwise; every later use is under concurrency > 0)', 'non-positive concurrency accepted')
    for f in (lst, gen):
        g = CFG(f)

        def step(node, c):
            if node.ast is not None and node.kind in ('stmt', 'test'):
                for n in walk_no_nested(node.ast):
                    if isinstance(n, ast.Call) and src(n.func) == 'self._execute_next':
                        return min(c + 1, 2)
            return c
        fl = Flow(g, 0, step)
        mx = max(c for _f, c in fl.at(g.exit))
        calls = [n for n in body_walk(f) if isinstance(n, ast.Call) and src(n.func) == 'self._execute_next']
        locked = all(any(l == ('self', '_condition') for l, w in held(c)) for c in calls)
        chk.judge(mx <= 1 and locked and calls, 'C32.bound', f, '%s: at most one new statement per completion, under self._condition' % qual_of(f),
                  'a completion can start %s statements%s' % ('several' if mx > 1 else 'no', '' if locked else ' outside the condition'))
    # publication and the next start form one critical section: the consumer's "all done" test (_current vs _exec_count) reads both
    chk.rule('C32.atomic', '_put_result: the result is published (heappush / _current += 1) and the next statement is started (_execute_next advances _exec_count) inside the same `with self._condition` block')
    for f, pub in ((gen, lambda n: isinstance(n, ast.Call) and src(n.func) == 'heappush'), (lst, lambda n: isinstance(n, ast.AugAssign) and src(n.target) == 'self._current')):
        pubs = [n for n in body_walk(f) if pub(n)]
        nxt = [n for n in body_walk(f) if isinstance(n, ast.Call) and src(n.func) == 'self._execute_next']
        ok = len(pubs) == 1 and len(nxt) == 1
        if ok:
            wp = [w for l, w in held(pubs[0]) if l == ('self', '_condition')]
            wn = [w for l, w in held(nxt[0]) if l == ('self', '_condition')]
            ok = bool(wp) and bool(wn) and any(a is b for a in wp for b in wn)
        chk.judge(ok, 'C32.atomic', f, '%s: publish and start-next in one critical section' % qual_of(f),
                  'the result is published and the condition released before the next statement is counted: a consumer that runs in the gap sees _current == _exec_count and stops although statements remain (results are lost)')
    # fail fast
    glr = CFG(lr)
    fllr = Flow(glr, 0, lambda n, c: c)
    raises_ = [n for n in glr.nodes if n.kind == 'raise_stmt' and src(n.ast.exc) == 'self._exception']
    okff = len(raises_) == 2 and all(fa.knows('self._exception') is True and fa.knows('self._fail_fast') is True for n in raises_ for fa, _c in fllr.at(n))
    rets_lr = [n for n in glr.stmt_nodes() if n.kind == 'return']
    okff = okff and bool(rets_lr) and all(fa.knows('self._exception') is False or fa.knows('self._fail_fast') is False for n in rets_lr for fa, _c in fllr.at(n))
    chk.judge(okff, 'C32.failfast', lr, 'list results: stored exception raised (also without waiting)', 'fail-fast raise missing')
    chk.judge('if self._fail_fast and (not res[0])' in src(gr) and 'raise res[1]' in src(gr), 'C32.failfast', gr, 'generator results: failed result raised when fail_fast', 'fail-fast raise missing')
    g = CFG(lst)
    fl = Flow(g, 0, lambda n, c: c)
    st = [n for n in g.stmt_nodes() if n.kind == 'stmt' and src(n.ast) == 'self._exception = result']
    chk.judge(len(st) == 1 and all(fa.knows('success') is False and fa.knows('self._fail_fast') is True and fa.knows('self._exception') is False for fa, _ in fl.at(st[0])), 'C32.failfast', lst,
              'first failure is stored (only the first, only when fail_fast)', 'stored exception is not the first failure')

    # once latch
    fut = m.func('ConcurrentExecutorFutureResults._put_result')
    completes = [n for n in body_walk(fut) if isinstance(n, ast.Call) and src(n.func) in ('self.future.set_result', 'self.future.set_exception')]
    if not completes:
        raise AnalysisError('ConcurrentExecutorFutureResults._put_result: future completion not found')
    # call cycle: _put_result -> _execute_next -> _execute -> _put_result
    on_cycle = 'self._execute_next' in src(lst) and 'self._execute(' in src(en) and 'self._put_result' in src(exf)
    guarded = any(isinstance(n, ast.If) and 'self.future.done()' in src(n.test) for n in body_walk(fut))
    chk.judge((not on_cycle) or guarded, 'C32.latch', fut, 'future completion in _put_result is once-latched',
              '_put_result lies on the cycle _put_result -> _execute_next -> _execute -> _put_result (synchronous-raise arm): the nested call and the outer call both see '
              '_current == _exec_count and complete the future; the second set_result raises InvalidStateError')
    eca = m.func('execute_concurrent_async')
    # with nothing to execute no completion ever runs: the caller resolves the future with what execute() returned, unless something else already did
    chk.rule('C32.empty', 'execute_concurrent_async resolves the future with the value of executor.execute(...) when it is not done after execute() returned')
    ex_as = [st for st in body_walk(eca) if isinstance(st, ast.Assign) and isinstance(st.value, ast.Call) and src(st.value.func) == 'executor.execute' and isinstance(st.targets[0], ast.Name)]
    sr_ = [c_ for c_ in body_walk(eca) if isinstance(c_, ast.Call) and src(c_.func) == 'future.set_result']
    ok_empty = len(ex_as) == 1 and len(sr_) == 1 and [src(a_) for a_ in sr_[0].args] == [ex_as[0].targets[0].id]
    if ok_empty:
        from ..sem import flow_of as _flow32e
        ge_, fe_ = _flow32e(eca)
        nd_ = [n for n in ge_.stmt_nodes() if n.kind == 'stmt' and any(sr_[0] is x for x in ast.walk(n.ast))]
        ok_empty = len(nd_) == 1 and all(fa.knows('future.done()') is False for fa, _c in fe_.at(nd_[0]))
    chk.judge(ok_empty, 'C32.empty', eca, 'the future is resolved with execute()\'s result when no completion did it',
              'for an empty statement list nothing ever completes the future: execute_concurrent_async(session, []) returns a future whose result() blocks for ever')
    exc_arms = [n for n in body_walk(eca) if isinstance(n, ast.ExceptHandler)]
    guarded2 = all(any(isinstance(x, ast.If) and 'future.done()' in src(x.test) for x in ast.walk(h)) for h in exc_arms) if exc_arms else True
    chk.judge(guarded2, 'C32.latch', eca, 'except arm of execute_concurrent_async completes the future only if not done',
              'executor.execute() can raise after the future was already completed by _put_result (fail-fast with a synchronous failure): set_exception then raises InvalidStateError out of the call')
