"""C39 - column encryption is transparent, including for nulls."""
import ast

from ..core import AnalysisError, src, body_walk, walk_no_nested, parent
from ..cfg import CFG, Flow
from ..pyx import PyxModule, walk as pwalk, text as ptext, parent_map

PROTO = 'cassandra/protocol.py'
QUERY = 'cassandra/query.py'
POL = 'cassandra/column_encryption/_policies.py'
OBJP = 'cassandra/obj_parser.pyx'


def check(chk):
    chk.decides = ('a value that may be None (read_value returns None for a negative length; a NULL buffer in the compiled parser) reaches the decrypting call '
                   'only under a not-null guard, in both result decoders; bind and both decoders build the column descriptor from (keyspace, table, column) in '
                   'that order, consult contains_column, take the codec from column_type(col_desc), and order serialize->encrypt / decrypt->deserialize; a null '
                   'is bound unencrypted; the AES policy prepends the IV it later strips and pads/unpads with the same block size')
    chk.does_not_decide = 'AES / PKCS7 correctness (the cryptography package)'
    chk.rule('C39.null', 'decrypt() receives the cell only when it is not null (both decoders); bind() sends None as null without encrypting')
    chk.rule('C39.sibling', 'bind, pure-Python decode and Cython decode agree on ColDesc(keyspace, table, column), contains_column, column_type and the codec/cipher order')
    chk.rule('C39.policy', 'AES256ColumnEncryptionPolicy: encrypt returns iv + ciphertext of the PKCS7-padded bytes; decrypt splits at the same block size and unpads')
    proto = chk.repo.mod(PROTO)
    rr = proto.func('ResultMessage.recv_results_rows')
    # every decrypt() call of the decoder, wherever it sits (nested function, lambda, comprehension): the cell it receives is guarded
    decs = [n for n in ast.walk(rr) if isinstance(n, ast.Call) and isinstance(n.func, ast.Attribute) and n.func.attr == 'decrypt'
            and src(n.func.value).endswith('column_encryption_policy')]
    if not decs:
        raise AnalysisError('recv_results_rows: no decrypt call found')
    from ..guards import normalise_atom

    def nonnull_guards(call, arg):
        """tests that hold when the call is evaluated: enclosing IfExp / If bodies, earlier operands of an enclosing `and`"""
        out = []
        node, p = call, parent(call)
        while p is not None and p is not rr:
            if isinstance(p, ast.IfExp) and node is p.body:
                out.append((p.test, True))
            elif isinstance(p, ast.IfExp) and node is p.orelse:
                out.append((p.test, False))
            elif isinstance(p, ast.If):
                if any(node is x for x in p.body):
                    out.append((p.test, True))
                elif any(node is x for x in p.orelse):
                    out.append((p.test, False))
            elif isinstance(p, ast.BoolOp) and isinstance(p.op, ast.And):
                i = [k for k, v in enumerate(p.values) if v is node]
                for v in p.values[:i[0]] if i else ():
                    out.append((v, True))
            node, p = p, parent(p)
        atoms = []
        for t, pol in out:
            parts = t.values if (isinstance(t, ast.BoolOp) and isinstance(t.op, ast.And) and pol) else [t]
            for x in parts:
                k, flip = normalise_atom(x)
                atoms.append((k, pol != flip))
        return atoms
    for dc in decs:
        arg = src(dc.args[1]) if len(dc.args) > 1 else '?'
        atoms = nonnull_guards(dc, arg)
        ok = ('%s is None' % arg, False) in atoms
        # a local test variable (`uses_ce and val is not None` bound to a name) is looked through once
        chk.judge(ok, 'C39.null', dc, 'pure decoder: decrypt(col_desc, %s) only when %s is not None (guards: %s)' % (arg, arg, ['%s%s' % ('' if v else 'not ', k) for k, v in atoms]),
                  'read_value returns None for a null cell and decrypt() slices its argument: a null in an encrypted column fails the whole result with "NoneType is not subscriptable"')
    nested = dict((n.name, n) for n in body_walk(rr) if isinstance(n, ast.FunctionDef))
    dv = nested.get('decode_val')
    rv = proto.func('read_value')
    chk.judge('if size < 0' in src(rv) and 'return None' in src(rv), 'C39.null', rv, 'read_value maps negative length to None (the source of nullness)', 'read_value changed')
    s = src(dv) if dv is not None else src(rr)
    if dv is None:
        dv = rr
    chk.judge(('col_type = column_encryption_policy.column_type(col_desc) if uses_ce else col_md[3]' in s or 'col_type = column_encryption_policy.column_type(col_desc)' in s) and 'col_type.from_binary(' in s, 'C39.sibling', dv,
              'pure decoder: codec from column_type(col_desc) for encrypted columns; decrypt before from_binary', 'pure decoder codec selection changed')
    chk.judge('column_encryption_policy and column_encryption_policy.contains_column(col_desc)' in s, 'C39.sibling', dv, 'pure decoder consults contains_column', 'contains_column consultation changed')
    chk.judge('col_descs = [ColDesc(md[0], md[1], md[2]) for md in column_metadata]' in src(rr), 'C39.sibling', rr, 'pure decoder: ColDesc(keyspace, table, column) from metadata positions 0,1,2', 'ColDesc construction changed')
    # bind
    q = chk.repo.mod(QUERY)
    bind = q.func('BoundStatement.bind')
    g = CFG(bind)
    fl = Flow(g, 0, lambda n, c: c)
    enc = [n for n in g.stmt_nodes() if n.kind == 'stmt' and 'ce_policy.encrypt(' in src(n.ast)]
    ok = len(enc) == 1
    order = False
    if ok:
        ecalls = [c for c in ast.walk(enc[0].ast) if isinstance(c, ast.Call) and src(c.func) == 'ce_policy.encrypt']
        ok = len(ecalls) == 1
    if ok:
        ec = ecalls[0]
        # the condition under which the call is evaluated: the path facts of its statement, plus the test of a conditional expression it is an arm of
        cond_ce = None
        pp = parent(ec)
        while pp is not None and not isinstance(pp, ast.stmt):
            if isinstance(pp, ast.IfExp) and src(pp.test) == 'uses_ce' and any(x is ec for x in ast.walk(pp.body)):
                cond_ce = True
            pp = parent(pp)
        ok = all(fa.knows('value is None') is False and (cond_ce or fa.knows('uses_ce') is True) for fa, _ in fl.at(enc[0])) and bool(list(fl.at(enc[0])))
        # serialize -> encrypt -> append: the plaintext handed to encrypt is the serialized value, and what is appended is its result (or the plaintext when not encrypted)
        sers = [n for n in g.stmt_nodes() if n.kind == 'stmt' and isinstance(n.ast, ast.Assign) and src(n.ast.value) == 'col_type.serialize(value, proto_version)']
        if len(sers) == 1 and len(ec.args) == 2 and src(ec.args[0]) == 'col_desc' and src(ec.args[1]) == src(sers[0].ast.targets[0]) and g.dominates(sers[0], enc[0]):
            plain = src(sers[0].ast.targets[0])
            apps_ = [n for n in g.stmt_nodes() if n.kind == 'stmt' and isinstance(n.ast, ast.Expr) and isinstance(n.ast.value, ast.Call) and src(n.ast.value.func) == 'self.values.append'
                     and g.dominates(sers[0], n)]
            if len(apps_) == 1:
                arg = apps_[0].ast.value.args[0]
                if enc[0] is apps_[0]:
                    order = isinstance(arg, ast.IfExp) and src(arg.test) == 'uses_ce' and arg.body is ec and src(arg.orelse) == plain
                else:
                    order = isinstance(enc[0].ast, ast.Assign) and src(enc[0].ast.targets[0]) == plain and enc[0].ast.value is ec and src(arg) == plain and \
                        not g.dominates(enc[0], apps_[0]) and any(apps_[0] is x or True for x in [apps_[0]])
    # ... and every non-null value of an encrypted column is encrypted - also an empty one (the reader decrypts whatever is not null): no test of the serialized bytes
    if ok and enc:
        extra = sorted(set(k for fa, _c in fl.at(enc[0]) for k, p_ in fa.items if any(isinstance(x_, ast.Name) and x_.id == src(ec.args[1]) for x_ in ast.walk(ast.parse(k, mode='eval').body)
                                                                                    if not k.startswith('('))))
        chk.judge(not extra, 'C39.null', bind, 'bind: the decision to encrypt does not look at the serialized bytes',
                  'encryption additionally depends on %s: an empty text / blob value of an encrypted column is sent as zero plaintext bytes, and the decoder - which decrypts every non-null cell - '
                  'fails on the page that contains it' % extra)
    chk.judge(ok, 'C39.null', bind, 'bind: encrypt only non-null values of encrypted columns (None is sent as null)', 'bind encrypts under the wrong condition')
    sb = src(bind)
    chk.judge(order and 'col_desc = ColDesc(col_spec.keyspace_name, col_spec.table_name, col_spec.name)' in sb and 'col_type = ce_policy.column_type(col_desc) if uses_ce else col_spec.type' in sb
              and 'uses_ce = ce_policy and ce_policy.contains_column(col_desc)' in sb, 'C39.sibling', bind,
              'bind: ColDesc(keyspace, table, column); codec from column_type; serialize then encrypt then append', 'bind-side encryption steps changed')
    # Cython decoder
    pm = PyxModule(chk.repo, OBJP)
    cls = pm.classes().get('TupleRowParser')
    if cls is None:
        raise AnalysisError('obj_parser.pyx: TupleRowParser not found')
    ur = pm.funcs(cls).get('unpack_row')
    if ur is None:
        raise AnalysisError('obj_parser.pyx: unpack_row not found')
    nodes = pwalk(ur)
    par = parent_map(ur)
    dcalls = [n for n in nodes if type(n).__name__ == 'SimpleCallNode' and ptext(n.function) == 'ce_policy.decrypt']
    if len(dcalls) != 1:
        raise AnalysisError('obj_parser.pyx: ce_policy.decrypt call not found')
    conds = []
    n = dcalls[0]
    while id(n) in par:
        pnode = par[id(n)]
        if type(pnode).__name__ == 'IfClauseNode':
            conds.append(ptext(pnode.condition))
        n = pnode
    ctxt = ' and '.join(conds)
    ok = 'uses_ce' in ctxt and ('buf.size >= 0' in ctxt or 'buf.size > -1' in ctxt or 'buf.ptr' in ctxt)
    chk.judge(ok, 'C39.null', (OBJP, 'TupleRowParser.unpack_row', pm.line(dcalls[0])), 'compiled decoder: decrypt only when the buffer is not NULL (guard: %s)' % ctxt,
              'the compiled decoder hands to_bytes(&buf) of a NULL buffer (size -1) to decrypt(): a null in an encrypted column crashes or yields garbage')
    calls = [ptext(x) for x in nodes if type(x).__name__ == 'SimpleCallNode']
    need = ['ce_policy.contains_column(coldesc)', 'ce_policy.column_type(coldesc)', 'ce_policy.decrypt(coldesc, to_bytes(&buf))', 'from_binary(deserializer, &newbuf, desc.protocol_version)',
            'from_binary(deserializer, &buf, desc.protocol_version)']
    miss = [c for c in need if c not in calls]
    chk.judge(not miss, 'C39.sibling', (OBJP, 'TupleRowParser.unpack_row', pm.line(ur)), 'compiled decoder: contains_column, column_type, decrypt(coldesc, bytes), then from_binary with the policy\'s codec',
              'compiled decoder no longer performs %s' % miss)
    order = calls.index('ce_policy.decrypt(coldesc, to_bytes(&buf))') < calls.index('from_binary(deserializer, &newbuf, desc.protocol_version)') if not miss else False
    chk.judge(order, 'C39.sibling', (OBJP, 'TupleRowParser.unpack_row', pm.line(ur)), 'compiled decoder decrypts before deserializing', 'order of decrypt/deserialize changed')
    # where the compiled decoder's coldescs come from (row_parser.pyx)
    rp = PyxModule(chk.repo, 'cassandra/row_parser.pyx')
    cds = [n for n in rp.nodes() if type(n).__name__ == 'SimpleCallNode' and ptext(n.function) == 'ColDesc']
    chk.judge(len(cds) == 1 and [ptext(a) for a in cds[0].args] == ['md[0]', 'md[1]', 'md[2]'], 'C39.sibling', ('cassandra/row_parser.pyx', 'make_recv_results_rows', rp.line(cds[0]) if cds else 0),
              'compiled path builds ColDesc(md[0], md[1], md[2]) from the same metadata positions', 'compiled-path ColDesc construction changed')
    cd = chk.repo.mod('cassandra/policies.py').toplevel_assign('ColDesc')
    chk.judge("namedtuple('ColDesc', ['ks', 'table', 'col'])" in src(cd), 'C39.sibling', ('cassandra/policies.py', '<module>', 0), 'ColDesc fields: ks, table, col', 'ColDesc field order changed')
    # policy
    pol = chk.repo.mod(POL)
    e = pol.func('AES256ColumnEncryptionPolicy.encrypt')
    d = pol.func('AES256ColumnEncryptionPolicy.decrypt')
    se, sd = src(e), src(d)
    # the returned bytes: IV first, then the cipher's update output, then its finalize output - as a flat concatenation, however it is bracketed or named
    def _concat(x):
        if isinstance(x, ast.Name):
            ds = [st for st in body_walk(e) if isinstance(st, ast.Assign) and len(st.targets) == 1 and src(st.targets[0]) == x.id]
            if len(ds) == 1 and isinstance(ds[0].value, ast.BinOp) and isinstance(ds[0].value.op, ast.Add):
                x = ds[0].value
        if isinstance(x, ast.BinOp) and isinstance(x.op, ast.Add):
            return _concat(x.left) + _concat(x.right)
        return [src(x)]
    rets39 = [r for r in body_walk(e) if isinstance(r, ast.Return) and r.value is not None]
    parts39 = _concat(rets39[0].value) if len(rets39) == 1 else []
    enc_names = [src(st.targets[0]) for st in body_walk(e) if isinstance(st, ast.Assign) and src(st.value).endswith('.encryptor()')]
    ok_layout = len(parts39) == 3 and parts39[0] == 'self.iv' and parts39[1].endswith('.update(padded_bytes)') and parts39[2].endswith('.finalize()') and \
        parts39[1].split('.update(')[0] == parts39[2].split('.finalize(')[0]
    chk.judge('padding.PKCS7(AES256_BLOCK_SIZE).padder()' in se and ok_layout, 'C39.policy', e,
              'encrypt: PKCS7 pad, encrypt, prepend the IV', 'encrypt output layout changed')
    chk.judge('iv = bytes[:AES256_BLOCK_SIZE_BYTES]' in sd and 'encrypted_bytes = bytes[AES256_BLOCK_SIZE_BYTES:]' in sd and 'padding.PKCS7(AES256_BLOCK_SIZE).unpadder()' in sd
              and 'self._get_cipher(coldesc, iv=iv)' in sd, 'C39.policy', d, 'decrypt: split IV / ciphertext at the block size, decrypt with that IV, unpad', 'decrypt layout changed')
    # the cipher is built with the IV the caller supplies (decrypt: the one stored in front of the ciphertext) and with the policy's own only when none is given
    chk.rule('C39.iv', '_get_cipher builds the cipher with its iv argument when one is given and with self.iv otherwise (folded over iv in {None, given}); encrypt writes self.iv and passes none')
    from ..fold import Folder as _Folder39, Unfoldable as _Unf39
    gc_ = pol.func('AES256ColumnEncryptionPolicy._get_cipher')
    bc_ = [c_ for c_ in body_walk(gc_) if isinstance(c_, ast.Call) and src(c_.func).endswith('._build_cipher') and len(c_.args) == 2]
    if len(bc_) != 1:
        raise AnalysisError('_get_cipher: _build_cipher(key, iv) call not found')

    class _S(ast.NodeTransformer):
        def visit_Attribute(s_, n_):
            return ast.Name(id='_own_iv', ctx=ast.Load()) if src(n_) == 'self.iv' else n_
    import copy as _copy39
    from ..sem import resolve as _res39
    ive = _S().visit(_copy39.deepcopy(_res39(gc_, bc_[0].args[1])))
    fo_ = _Folder39(pol)
    try:
        got_ = [fo_.eval(ive, env={'iv': v_, '_own_iv': b'OWN'}) for v_ in (None, b'GIVEN')]
    except _Unf39 as ex_:
        raise AnalysisError('_get_cipher: IV expression %s not foldable: %s' % (src(bc_[0].args[1]), ex_))
    chk.judge(got_ == [b'OWN', b'GIVEN'], 'C39.iv', bc_[0], '_get_cipher: cipher IV = the iv argument if given, else self.iv (%s)' % src(bc_[0].args[1]),
              'the cipher is built with %s: decrypt() passes the IV it found in front of the stored ciphertext, and it is %s - a value written by another policy instance or an earlier process '
              '(random IV per instance) does not decrypt' % (src(bc_[0].args[1]), 'ignored in favour of the policy\'s own' if got_[1] != b'GIVEN' else 'not replaced by the policy\'s own when absent'))
    enc_calls = [c_ for c_ in body_walk(e) if isinstance(c_, ast.Call) and src(c_.func) == 'self._get_cipher']
    chk.judge(len(enc_calls) == 1 and len(enc_calls[0].args) == 1 and not enc_calls[0].keywords, 'C39.iv', e, 'encrypt uses the policy\'s own IV (the one it writes in front of the ciphertext)',
              'encrypt builds its cipher with another IV than the self.iv it stores in front of the ciphertext')
    from ..fold import Folder
    f = Folder(pol)
    try:
        bs, bsb = f.module_const('AES256_BLOCK_SIZE'), f.module_const('AES256_BLOCK_SIZE_BYTES')
    except Exception:
        raise AnalysisError('AES block size constants not foldable')
    chk.judge(bs == 128 and bsb == 16 and bs == bsb * 8, 'C39.policy', (POL, '<module>', 0), 'AES block: 128 bits == 16 bytes (IV length)', 'block size constants inconsistent: %r bits, %r bytes' % (bs, bsb))

    # the compiled decoder keeps the decrypted bytes in a C struct reused across the columns of a row: it must be filled in the iteration that reads it
    chk.rule('C39.stale', 'compiled row parser: the buffer handed to from_binary was filled (decrypted) in the same iteration (shared with C07)')
    chk.borrow('C07', {'C07.stale': 'C39.stale'}, 'a null in an encrypted column is decoded from the bytes of the previous encrypted column')
