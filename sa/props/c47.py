"""C47 - a connection is usable only after a successful handshake (structure)."""
import ast

from ..core import AnalysisError, src, body_walk, walk_no_nested, parent, enclosing, qual_of, decorators
from ..cfg import CFG, Flow
from .c03 import Machine, load_spec
from .c09 import attr_writes

CONN = 'cassandra/connection.py'
REACTORS = ['cassandra/io/asyncorereactor.py', 'cassandra/io/asyncioreactor.py', 'cassandra/io/twistedreactor.py',
            'cassandra/io/geventreactor.py', 'cassandra/io/eventletreactor.py', 'cassandra/io/libevreactor.py']


def _isinst(fa, var, cls):
    return fa.knows('isinstance(%s, %s)' % (var, cls))


def check(chk):
    chk.decides = ('connected_event is set only (a) in the READY arm of the startup handler or the AUTH_SUCCESS arm of the auth handler, or (b) where last_error has been recorded '
                   'on every path on which the event was not already set (defunct and the reactors\' close()); the factory looks at last_error first, then at a timeout, and only '
                   'then returns the connection; all handshake handlers run under defunct_on_error; authentication failures raise AuthenticationFailed (no authenticator, '
                   'error after credentials, error during SASL) and every other non-success reply raises; compression and checksumming are switched on only in arms '
                   'reached after the server answered STARTUP (READY / AUTHENTICATE), compression before checksumming, checksumming exactly under '
                   'has_checksumming_support (folded: v5 only); the algorithm named in STARTUP is in the local-remote overlap or explicitly requested and remote-supported, '
                   'and it is the same value the stored compressor/decompressor pair was looked up with on every path')
    chk.does_not_decide = 'authenticator implementations; the bytes on the wire (C03/C06)'
    chk.rule('C47.ready', 'connected_event.set() only in a success arm or after last_error was recorded for the not-yet-set case')
    chk.rule('C47.factory', 'factory: last_error -> raise; event not set -> close and OperationTimedOut; otherwise return')
    chk.rule('C47.errors', 'reply arms: authentication failures -> AuthenticationFailed; shutdown -> re-raised; anything unexpected -> raise; handlers are @defunct_on_error')
    chk.rule('C47.compress', 'compressor installed only after READY/AUTHENTICATE/AUTH_SUCCESS; STARTUP names the algorithm the stored codec pair belongs to (value-identity dataflow)')
    chk.rule('C47.checksum', '_enable_checksumming only under has_checksumming_support(protocol_version), after _enable_compression; predicate folded over all versions')
    m = chk.repo.mod(CONN)
    hs = m.func('Connection._handle_startup_response')
    ha = m.func('Connection._handle_auth_response')
    ho = m.func('Connection._handle_options_response')
    for f in (hs, ha, ho, m.func('Connection._send_options_message'), m.func('Connection._send_startup_message')):
        chk.judge('defunct_on_error' in [src(d) for d in f.decorator_list], 'C47.errors', f, '%s is @defunct_on_error: a raise becomes last_error + defunct' % f.name, 'a raise in %s escapes into the reactor instead of failing the connection' % f.name)
    # ---- ready
    n_sets = 0
    for rel in [CONN] + REACTORS:
        mod = chk.repo.mod(rel)
        for q, f in mod.functions():
            sets = [c for c in body_walk(f) if isinstance(c, ast.Call) and src(c.func).endswith('connected_event.set')]
            if not sets:
                continue
            g = CFG(f)

            def step(n, c):
                if n.kind == 'stmt' and isinstance(n.ast, ast.Assign) and any(src(t) == 'self.last_error' for t in n.ast.targets) and not (isinstance(n.ast.value, ast.Constant) and n.ast.value.value is None):
                    return 'err'
                return c
            fl = Flow(g, 'none', step)
            for c in sets:
                n_sets += 1
                node = [n for n in g.stmt_nodes() if n.kind == 'stmt' and any(c is x for x in walk_no_nested(n.ast))]
                if len(node) != 1:
                    raise AnalysisError('%s: connected_event.set() site not a plain statement' % q)
                sts = fl.at(node[0])
                if q == 'Connection._handle_startup_response':
                    ok = all(_isinst(fa, 'startup_response', 'ReadyMessage') is True and fa.knows('self.is_defunct') is False for fa, _ in sts)
                    chk.judge(ok, 'C47.ready', c, 'startup handler: ready only in the READY arm', 'the connection is reported ready for a reply that is not READY')
                elif q == 'Connection._handle_auth_response':
                    ok = all(_isinst(fa, 'auth_response', 'AuthSuccessMessage') is True and fa.knows('self.is_defunct') is False for fa, _ in sts)
                    chk.judge(ok, 'C47.ready', c, 'auth handler: ready only in the AUTH_SUCCESS arm', 'the connection is reported ready for a reply that is not AUTH_SUCCESS')
                else:
                    ok = bool(sts) and all(cu == 'err' or fa.knows('self.connected_event.is_set()') is True for fa, cu in sts)
                    if not ok and q.endswith('.close'):
                        # close() reached from defunct(): last_error was recorded by defunct itself
                        ok = all(cu == 'err' or fa.knows('self.connected_event.is_set()') is True or fa.knows('self.is_defunct') is True for fa, cu in sts)
                    chk.judge(ok, 'C47.ready', c, '%s %s: waiters are released only with last_error recorded (or the handshake already over)' % (rel.split('/')[-1], q),
                              'connected_event is set on a path where the handshake has not succeeded and no last_error is recorded: Connection.factory() returns this closed connection as ready')
    if n_sets < 8:
        raise AnalysisError('connected_event.set() sites: expected at least 8, found %d' % n_sets)
    # ---- factory
    fac = m.func('Connection.factory')
    g = CFG(fac)
    fl = Flow(g, 0, lambda n, c: c)
    rets = [n for n in g.nodes if n.kind == 'return' and n.ast.value is not None]
    ok = len(rets) == 1 and src(rets[0].ast.value) == 'conn' and all(fa.knows('conn.last_error') is False and fa.knows('conn.connected_event.is_set()') is True for fa, _ in fl.at(rets[0]))
    chk.judge(ok, 'C47.factory', fac, 'factory returns the connection only when no error was recorded and the event is set', 'factory can return a connection that failed or never finished its handshake')
    to = [n for n in g.nodes if n.kind == 'raise_stmt' and 'OperationTimedOut' in src(n.ast)]
    closes = [n for n in g.stmt_nodes() if n.kind == 'stmt' and src(n.ast) == 'conn.close()']
    ok = len(to) == 1 and len(closes) == 1 and all(fa.knows('conn.connected_event.is_set()') is False for fa, _ in fl.at(closes[0]))
    chk.judge(ok, 'C47.factory', fac, 'handshake not finished in time: the connection is closed and OperationTimedOut raised', 'timed-out connection is not closed')
    chk.judge('conn.connected_event.wait(timeout - elapsed)' in src(fac) and 'raise conn.last_error' in src(fac), 'C47.factory', fac, 'waits for the event; re-raises the recorded error', 'factory wait/raise changed')
    # ---- error arms
    g = CFG(hs)
    fl = Flow(g, 0, lambda n, c: c)
    raises = [n for n in g.nodes if n.kind == 'raise_stmt']
    seen = set()
    for r in raises:
        t = src(r.ast.exc)
        sts = fl.at(r)
        if t.startswith('AuthenticationFailed('):
            a = all(_isinst(fa, 'startup_response', 'AuthenticateMessage') is True and fa.knows('self.authenticator is None') is True for fa, _ in sts)
            b = all(_isinst(fa, 'startup_response', 'ErrorMessage') is True and fa.knows('did_authenticate') is True for fa, _ in sts)
            chk.judge(a or b, 'C47.errors', r.ast, 'startup: AuthenticationFailed for %s' % ('AUTHENTICATE without an authenticator' if a else 'ERROR after credentials'), 'AuthenticationFailed raised on another arm')
            seen.add('auth-a' if a else 'auth-b')
        elif t.startswith('ConnectionException('):
            ok = all(_isinst(fa, 'startup_response', 'ErrorMessage') is True and fa.knows('did_authenticate') is False for fa, _ in sts)
            chk.judge(ok, 'C47.errors', r.ast, 'startup: ERROR before authentication -> ConnectionException', 'ConnectionException arm changed')
            seen.add('conn')
        elif t == 'startup_response':
            ok = all(_isinst(fa, 'startup_response', 'ConnectionShutdown') is True for fa, _ in sts)
            chk.judge(ok, 'C47.errors', r.ast, 'startup: ConnectionShutdown re-raised', 're-raise arm changed')
            seen.add('shutdown')
        elif t.startswith('ProtocolError('):
            ok = all(_isinst(fa, 'startup_response', c) is False for fa, _ in sts for c in ('ReadyMessage', 'AuthenticateMessage', 'ErrorMessage', 'ConnectionShutdown'))
            chk.judge(ok, 'C47.errors', r.ast, 'startup: anything else -> ProtocolError', 'fallback arm changed')
            seen.add('other')
        else:
            chk.viol('C47.errors', r.ast, t[:60], 'unrecognised raise in the startup handler')
    chk.judge(seen == set(['auth-a', 'auth-b', 'conn', 'shutdown', 'other']), 'C47.errors', hs, 'startup handler has all five failure arms', 'failure arms missing: %s' % sorted(set(['auth-a', 'auth-b', 'conn', 'shutdown', 'other']) - seen))
    # normal exits of the startup handler: READY (event set), AUTHENTICATE (a message sent with a handshake callback), defunct
    def step_out(n, c):
        if n.kind == 'stmt':
            s = src(n.ast)
            if s == 'self.connected_event.set()':
                return 'ready'
            if 'self.send_msg(' in s:
                return 'sent'
        return c
    fo = Flow(g, 'none', step_out)
    outs = fo.at(g.exit)
    ok = bool(outs) and all(c in ('ready', 'sent') or fa.knows('self.is_defunct') is True for fa, c in outs)
    chk.judge(ok, 'C47.errors', hs, 'every normal exit of the startup handler: ready, next handshake message sent, or already defunct', 'a reply is swallowed: the handshake neither proceeds nor fails')
    g2 = CFG(ha)
    fl2 = Flow(g2, 0, lambda n, c: c)
    seen = set()
    for r in [n for n in g2.nodes if n.kind == 'raise_stmt']:
        t = src(r.ast.exc)
        sts = fl2.at(r)
        if t.startswith('AuthenticationFailed('):
            chk.judge(all(_isinst(fa, 'auth_response', 'ErrorMessage') is True for fa, _ in sts), 'C47.errors', r.ast, 'auth: ERROR -> AuthenticationFailed', 'AuthenticationFailed arm changed')
            seen.add('auth')
        elif t == 'auth_response':
            chk.judge(all(_isinst(fa, 'auth_response', 'ConnectionShutdown') is True for fa, _ in sts), 'C47.errors', r.ast, 'auth: ConnectionShutdown re-raised', 're-raise arm changed')
            seen.add('shutdown')
        elif t.startswith('ProtocolError('):
            ok = all(_isinst(fa, 'auth_response', c) is False for fa, _ in sts for c in ('AuthSuccessMessage', 'AuthChallengeMessage', 'ErrorMessage', 'ConnectionShutdown'))
            chk.judge(ok, 'C47.errors', r.ast, 'auth: anything else -> ProtocolError', 'fallback arm changed')
            seen.add('other')
        else:
            chk.viol('C47.errors', r.ast, t[:60], 'unrecognised raise in the auth handler')
    chk.judge(seen == set(['auth', 'shutdown', 'other']), 'C47.errors', ha, 'auth handler has all three failure arms', 'failure arms missing')
    fo2 = Flow(g2, 'none', step_out)
    outs = fo2.at(g2.exit)
    chk.judge(bool(outs) and all(c in ('ready', 'sent') or fa.knows('self.is_defunct') is True for fa, c in outs), 'C47.errors', ha, 'every normal exit of the auth handler: ready, challenge answered, or already defunct', 'an auth reply is swallowed')
    ch = [n for n in g2.stmt_nodes() if n.kind == 'stmt' and 'self.send_msg(' in src(n.ast)]
    chk.judge(len(ch) == 1 and 'self._handle_auth_response' in src(ch[0].ast) and all(_isinst(fa, 'auth_response', 'AuthChallengeMessage') is True for fa, _ in fl2.at(ch[0])), 'C47.errors', ha,
              'a challenge is answered and the same handler waits for the next reply', 'challenge loop changed')
    # options handler: non-SUPPORTED raises
    g3 = CFG(ho)
    fl3 = Flow(g3, 0, lambda n, c: c)
    st = [n for n in g3.stmt_nodes() if n.kind == 'stmt' and 'self._send_startup_message(' in src(n.ast)]
    ok = len(st) == 1 and all(_isinst(fa, 'options_response', 'SupportedMessage') is True and fa.knows('self.is_defunct') is False for fa, _ in fl3.at(st[0]))
    chk.judge(ok, 'C47.errors', ho, 'STARTUP is sent only after a SUPPORTED reply', 'STARTUP sent after a non-SUPPORTED reply')
    cred = [c for c in body_walk(hs) if isinstance(c, ast.Call) and src(c.func) == 'partial']
    chk.judge(len(cred) == 1 and src(cred[0]) == 'partial(self._handle_startup_response, did_authenticate=True)', 'C47.errors', hs, 'credentials reply is handled with did_authenticate=True', 'did_authenticate marker lost')
    # ---- compression / checksumming
    for f, var in ((hs, 'startup_response'),):
        g = CFG(f)
        fl = Flow(g, 0, lambda n, c: c)
        for call, rid in (('self._enable_compression()', 'C47.compress'), ('self._enable_checksumming()', 'C47.checksum')):
            sites = [n for n in g.stmt_nodes() if n.kind == 'stmt' and src(n.ast) == call]
            ok = len(sites) == 2 and all((_isinst(fa, var, 'ReadyMessage') is True or _isinst(fa, var, 'AuthenticateMessage') is True) for s_ in sites for fa, _ in fl.at(s_))
            if rid == 'C47.checksum':
                ok = ok and all(fa.knows('ProtocolVersion.has_checksumming_support(self.protocol_version)') is True for s_ in sites for fa, _ in fl.at(s_))
            chk.judge(ok, rid, f, '%s only in the READY / AUTHENTICATE arms%s' % (call, ' under has_checksumming_support' if rid == 'C47.checksum' else ''),
                      '%s is reachable before the server accepted STARTUP%s' % (call, ' or without the v5 test' if rid == 'C47.checksum' else ''))
        # order: compression first (the segment codec is chosen from self.compressor)
        def step_o(n, c):
            if n.kind == 'stmt' and src(n.ast) == 'self._enable_compression()':
                return 'comp'
            return c
        fo = Flow(g, 'none', step_o)
        sites = [n for n in g.stmt_nodes() if n.kind == 'stmt' and src(n.ast) == 'self._enable_checksumming()']
        chk.judge(bool(sites) and all(c == 'comp' for s_ in sites for _, c in fo.at(s_)), 'C47.checksum', f, '_enable_compression precedes _enable_checksumming on every path', 'segment codec chosen before the compressor is installed')
        # on the AUTHENTICATE arm both happen before the auth response is sent
        sends = [n for n in g.stmt_nodes() if n.kind == 'stmt' and 'self.send_msg(' in src(n.ast)]
        chk.judge(len(sends) == 2 and all(c == 'comp' for s_ in sends for _, c in fo.at(s_)), 'C47.compress', f, 'auth replies are sent with the negotiated framing already on', 'auth response sent before compression/checksumming is set up')
    ws = [(qual_of(f), src(st)) for st, t, f in attr_writes(m, 'compressor') if src(t) == 'self.compressor']
    okw = bool(ws) and all(w[1] == 'self.compressor = self._compressor' and w[0] in ('Connection._enable_compression', 'Connection._handle_auth_response') for w in ws) and \
        any(w[0] == 'Connection._enable_compression' for w in ws)
    # AUTH_SUCCESS: the negotiated compressor is installed (directly or through _enable_compression) before the connection is reported ready
    har = m.func('Connection._handle_auth_response')
    gh = CFG(har)

    def step_h(n, c):
        if n.kind == 'stmt' and src(n.ast) in ('self._enable_compression()', 'self.compressor = self._compressor'):
            return 'installed'
        return c
    fh = Flow(gh, 'none', step_h)
    sets_ = [n for n in gh.stmt_nodes() if n.kind == 'stmt' and src(n.ast) == 'self.connected_event.set()']
    ready_ok = [n for n in sets_ if all(_isinst(fa, 'auth_response', 'AuthSuccessMessage') is True for fa, _c in fh.at(n))]
    okw = okw and len(ready_ok) >= 1 and all(c == 'installed' or not fa.knows('self._compressor') is not False for n in ready_ok for fa, c in fh.at(n))
    chk.judge(okw, 'C47.compress', m.func('Connection._enable_compression'), 'self.compressor is written only by _enable_compression and the AUTH_SUCCESS arm (from the negotiated _compressor)', 'other writers of the outgoing compressor: %s' % ws)
    for rel in REACTORS:
        mod = chk.repo.mod(rel)
        w2 = [(qual_of(f), src(st)) for st, t, f in attr_writes(mod, 'compressor') if src(t) == 'self.compressor']
        chk.judge(not w2, 'C47.compress', (rel, '-', 0), '%s does not touch the compressor' % rel.split('/')[-1], 'reactor writes the compressor: %s' % w2, nontrivial=False)
    ec = m.func('Connection._enable_checksumming')
    chk.judge("self._segment_codec = segment_codec_lz4 if self.compressor else segment_codec_no_compression" in src(ec) and 'self._is_checksumming_enabled = True' in src(ec) and
              'self._io_buffer.set_checksumming_buffer()' in src(ec), 'C47.checksum', ec, 'checksumming: segment codec follows the installed compressor; flag and buffer switched together', '_enable_checksumming changed')
    w3 = [(qual_of(f), src(st)) for st, t, f in attr_writes(m, '_is_checksumming_enabled')]
    chk.judge(w3 == [('Connection._enable_checksumming', 'self._is_checksumming_enabled = True')], 'C47.checksum', ec, 'only _enable_checksumming turns checksumming on', 'other writers: %s' % w3)
    spec = load_spec()
    M = Machine(chk)
    for v in M.versions:
        got = M.pv_pred('has_checksumming_support', v)
        chk.judge(bool(got) == bool(spec.checksumming(v)), 'C47.checksum', ('cassandra/__init__.py', 'ProtocolVersion.has_checksumming_support', 0), 'has_checksumming_support(%#x) == %s' % (v, spec.checksumming(v)),
                  'checksummed framing would be %s for version %#x' % ('on' if got else 'off', v))
    # negotiation
    g = CFG(ho)

    def step_n(n, c):
        ct, stored = c
        if n.kind == 'stmt' and isinstance(n.ast, ast.Assign):
            tg = [src(t) for t in n.ast.targets]
            if tg == ['compression_type']:
                v = n.ast.value
                ct = 'None' if (isinstance(v, ast.Constant) and v.value is None) else 'val@%d' % n.ast.lineno
            elif tg == ['self._compressor']:
                stored = 'None' if (isinstance(n.ast.value, ast.Constant) and n.ast.value.value is None) else '?'
            elif isinstance(n.ast.targets[0], ast.Tuple) and [src(e) for e in n.ast.targets[0].elts] == ['self._compressor', 'self.decompressor']:
                stored = ct if src(n.ast.value) == 'locally_supported_compressions[compression_type]' else '?'
        return (ct, stored)
    fn = Flow(g, ('?', '?'), step_n)
    bad = sorted(set(c for _, c in fn.at(st[0]) if c[0] != c[1])) if st else [('?', '?')]
    chk.judge(not bad, 'C47.compress', st[0].ast if st else ho, 'the algorithm named in STARTUP is the one the stored (compressor, decompressor) pair was looked up with, on every path (None <-> no compressor)',
              'on some path STARTUP announces %s while the stored codec pair belongs to %s: the driver then compresses/decompresses (and picks the v5 segment layout) differently from what the server agreed to' % (bad[0][0] if bad else '', bad[0][1] if bad else ''))
    s = src(ho)
    chk.judge('overlap = set(locally_supported_compressions.keys()) & set(remote_supported_compressions)' in s and "remote_supported_compressions = options_response.options['COMPRESSION']" in s,
              'C47.compress', ho, 'overlap = locally supported & server supported', 'overlap computation changed')
    flo = Flow(g, 0, lambda n, c: c)
    picks = [n for n in g.stmt_nodes() if n.kind == 'stmt' and isinstance(n.ast, ast.Assign) and src(n.ast.targets[0]) == 'compression_type' and not (isinstance(n.ast.value, ast.Constant))]
    for p in picks:
        v = src(p.ast.value)
        if v == 'self.compression':
            ok = all(fa.knows('self.compression in remote_supported_compressions') is True and fa.knows('isinstance(self.compression, str)') is True for fa, _ in flo.at(p))
            chk.judge(ok, 'C47.compress', p.ast, 'explicitly requested algorithm used only if the server lists it', 'a requested algorithm the server does not support is announced')
        elif v == 'k':
            ok = all(fa.knows('k in overlap') is True for fa, _ in flo.at(p))
            lp = enclosing(p.ast, ast.For)
            chk.judge(ok and lp is not None and src(lp.iter) == 'locally_supported_compressions.keys()', 'C47.compress', p.ast, 'automatic choice: first locally supported algorithm that is in the overlap', 'automatic choice can leave the overlap')
        else:
            chk.viol('C47.compress', p.ast, src(p.ast), 'unrecognised source of the compression algorithm')
    chk.require('C47.compress', 8)
    sm = m.func('Connection._send_startup_message')
    okc = any(isinstance(x, ast.If) and src(x.test) == 'compression' and [src(y) for y in x.body] == ["opts['COMPRESSION'] = compression"] for x in sm.body)
    chk.judge(okc and "StartupMessage(cqlversion=self.cql_version, options=opts)" in src(sm) and 'cb=self._handle_startup_response' in src(sm), 'C47.compress', sm, 'STARTUP carries COMPRESSION only when an algorithm was chosen', 'STARTUP options changed')
    snappy = [n for n in g.nodes if n.kind == 'test' and 'snappy' in src(n.ast)]
    chk.judge(len(snappy) == 1, 'C47.compress', ho, 'snappy is not announced with checksummed framing', 'snappy/v5 exclusion removed', nontrivial=False)
