"""C47 - a connection is usable only after a successful handshake (structure)."""
import ast

from ..core import AnalysisError, src, body_walk, walk_no_nested, parent, enclosing, qual_of, decorators
from ..cfg import CFG, Flow
from .c03 import Machine, load_spec
from .c09 import attr_writes

CONN = 'cassandra/connection.py'
REACTORS = ['cassandra/io/asyncorereactor.py', 'cassandra/io/asyncioreactor.py', 'cassandra/io/twistedreactor.py',
            'cassandra/io/geventreactor.py', 'cassandra/io/eventletreactor.py', 'cassandra/io/libevreactor.py']


def _isinst(fa, var, cls):
    return fa.knows('isinstance(%s, %s)' % (var, cls))


def check(chk):
    chk.decides = ('connected_event is set only (a) in the READY arm of the startup handler or the AUTH_SUCCESS arm of the auth handler, or (b) where last_error has been recorded '
                   'on every path on which the event was not already set (defunct and the reactors\' close()); the factory looks at last_error first, then at a timeout, and only '
                   'then returns the connection; all handshake handlers run under defunct_on_error; authentication failures raise AuthenticationFailed (no authenticator, '
                   'error after credentials, error during SASL) and every other non-success reply raises; compression and checksumming are switched on only in arms '
                   'reached after the server answered STARTUP (READY / AUTHENTICATE), compression before checksumming, checksumming exactly under '
                   'has_checksumming_support (folded: v5 only); the algorithm named in STARTUP is in the local-remote overlap or explicitly requested and remote-supported, '
                   'and it is the same value the stored compressor/decompressor pair was looked up with on every path')
    chk.does_not_decide = 'authenticator implementations; the bytes on the wire (C03/C06)'
    chk.rule('C47.ready', 'connected_event.set() only in a success arm or after last_error was recorded for the not-yet-set case')
    chk.rule('C47.factory', 'factory: last_error -> raise; event not set -> close and OperationTimedOut; otherwise return')
    chk.rule('C47.errors', 'reply arms: authentication failures -> AuthenticationFailed; shutdown -> re-raised; anything unexpected -> raise; handlers are @defunct_on_error')
    chk.rule('C47.compress', 'compressor installed only after READY/AUTHENTICATE/AUTH_SUCCESS; STARTUP names the algorithm the stored codec pair belongs to (value-identity dataflow)')
    chk.rule('C47.checksum', '_enable_checksumming only under has_checksumming_support(protocol_version), after _enable_compression; predicate folded over all versions')
    m = chk.repo.mod(CONN)
    hs = m.func('Connection._handle_startup_response')
    ha = m.func('Connection._handle_auth_response')
    ho = m.func('Connection._handle_options_response')
    for f in (hs, ha, ho, m.func('Connection._send_options_message'), m.func('Connection._send_startup_message')):
        chk.judge('defunct_on_error' in [src(d) for d in f.decorator_list], 'C47.errors', f, '%s is @defunct_on_error: a raise becomes last_error + defunct' % f.name, 'a raise in %s escapes into the reactor instead of failing the connection' % f.name)
    # ---- ready
    n_sets = 0
    for rel in [CONN] + REACTORS:
        mod = chk.repo.mod(rel)
        for q, f in mod.functions():
            sets = [c for c in body_walk(f) if isinstance(c, ast.Call) and src(c.func).endswith('connected_event.set')]
            if not sets:
                continue
            g = CFG(f)

            def step(n, c):
                if n.kind == 'stmt' and isinstance(n.ast, ast.Assign) and any(src(t) == 'self.last_error' for t in n.ast.targets) and not (isinstance(n.ast.value, ast.Constant) and n.ast.value.value is None):
                    return 'err'
                return c
            fl = Flow(g, 'none', step)
            for c in sets:
                n_sets += 1
                node = [n for n in g.stmt_nodes() if n.kind == 'stmt' and any(c is x for x in walk_no_nested(n.ast))]
                if len(node) != 1:
                    raise AnalysisError('%s: connected_event.set() site not a plain statement' % q)
                sts = fl.at(node[0])
                if q == 'Connection._handle_startup_response':
                    ok = all(_isinst(fa, 'startup_response', 'ReadyMessage') is True and fa.knows('self.is_defunct') is False for fa, _ in sts)
                    chk.judge(ok, 'C47.ready', c, 'startup handler: ready only in the READY arm', 'the connection is reported ready for a reply that is not READY')
                elif q == 'Connection._handle_auth_response':
                    ok = all(_isinst(fa, 'auth_response', 'AuthSuccessMessage') is True and fa.knows('self.is_defunct') is False for fa, _ in sts)
                    chk.judge(ok, 'C47.ready', c, 'auth handler: ready only in the AUTH_SUCCESS arm', 'the connection is reported ready for a reply that is not AUTH_SUCCESS')
                else:
                    ok = bool(sts) and all(cu == 'err' or fa.knows('self.connected_event.is_set()') is True for fa, cu in sts)
                    if not ok and q.endswith('.close'):
                        # close() reached from defunct(): last_error was recorded by defunct itself
                        ok = all(cu == 'err' or fa.knows('self.connected_event.is_set()') is True or fa.knows('self.is_defunct') is True for fa, cu in sts)
                    chk.judge(ok, 'C47.ready', c, '%s %s: waiters are released only with last_error recorded (or the handshake already over)' % (rel.split('/')[-1], q),
                              'connected_event is set on a path where the handshake has not succeeded and no last_error is recorded: Connection.factory() returns this closed connection as ready')
    if n_sets < 8:
        raise AnalysisError('connected_event.set() sites: expected at least 8, found %d' % n_sets)
    # ---- factory
    fac = m.func('Connection.factory')
    g = CFG(fac)
    fl = Flow(g, 0, lambda n, c: c)
    rets = [n for n in g.nodes if n.kind == 'return' and n.ast.value is not None]
    ok = len(rets) == 1 and src(rets[0].ast.value) == 'conn' and all(fa.knows('conn.last_error') is False and fa.knows('conn.connected_event.is_set()') is True for fa, _ in fl.at(rets[0]))
    chk.judge(ok, 'C47.factory', fac, 'factory returns the connection only when no error was recorded and the event is set', 'factory can return a connection that failed or never finished its handshake')
    to = [n for n in g.nodes if n.kind == 'raise_stmt' and 'OperationTimedOut' in src(n.ast)]
    closes = [n for n in g.stmt_nodes() if n.kind == 'stmt' and src(n.ast) == 'conn.close()']
    ok = len(to) == 1 and len(closes) == 1 and all(fa.knows('conn.connected_event.is_set()') is False for fa, _ in fl.at(closes[0]))
    chk.judge(ok, 'C47.factory', fac, 'handshake not finished in time: the connection is closed and OperationTimedOut raised', 'timed-out connection is not closed')
    chk.judge('conn.connected_event.wait(timeout - elapsed)' in src(fac) and 'raise conn.last_error' in src(fac), 'C47.factory', fac, 'waits for the event; re-raises the recorded error', 'factory wait/raise changed')
    # ---- error arms
    g = CFG(hs)
    fl = Flow(g, 0, lambda n, c: c)
    raises = [n for n in g.nodes if n.kind == 'raise_stmt']
    seen = set()
    for r in raises:
        t = src(r.ast.exc)
        sts = fl.at(r)
        if t.startswith('AuthenticationFailed('):
            a = all(_isinst(fa, 'startup_response', 'AuthenticateMessage') is True and fa.knows('self.authenticator is None') is True for fa, _ in sts)
            b = all(_isinst(fa, 'startup_response', 'ErrorMessage') is True and fa.knows('did_authenticate') is True for fa, _ in sts)
            chk.judge(a or b, 'C47.errors', r.ast, 'startup: AuthenticationFailed for %s' % ('AUTHENTICATE without an authenticator' if a else 'ERROR after credentials'), 'AuthenticationFailed raised on another arm')
            seen.add('auth-a' if a else 'auth-b')
        elif t.startswith('ConnectionException('):
            ok = all(_isinst(fa, 'startup_response', 'ErrorMessage') is True and fa.knows('did_authenticate') is False for fa, _ in sts)
            chk.judge(ok, 'C47.errors', r.ast, 'startup: ERROR before authentication -> ConnectionException', 'ConnectionException arm changed')
            seen.add('conn')
        elif t == 'startup_response':
            ok = all(_isinst(fa, 'startup_response', 'ConnectionShutdown') is True for fa, _ in sts)
            chk.judge(ok, 'C47.errors', r.ast, 'startup: ConnectionShutdown re-raised', 're-raise arm changed')
            seen.add('shutdown')
        elif t.startswith('ProtocolError('):
            ok = all(_isinst(fa, 'startup_response', c) is False for fa, _ in sts for c in ('ReadyMessage', 'AuthenticateMessage', 'ErrorMessage', 'ConnectionShutdown'))
            chk.judge(ok, 'C47.errors', r.ast, 'startup: anything else -> ProtocolError', 'fallback arm changed')
            seen.add('other')
        else:
            chk.viol('C47.errors', r.ast, t[:60], 'unrecognised raise in the startup handler')
    chk.judge(seen == set(['auth-a', 'auth-b', 'conn', 'shutdown', 'other']), 'C47.errors', hs, 'startup handler has all five failure arms', 'failure arms missing: %s' % sorted(set(['auth-a', 'auth-b', 'conn', 'shutdown', 'other']) - seen))
    # normal exits of the startup handler: READY (event set), AUTHENTICATE (a message sent with a handshake callback), defunct
    def step_out(n, c):
        if n.kind == 'stmt':
            s = src(n.ast)
            if s == 'self.connected_event.set()':
                return 'ready'
            if 'self.send_msg(' in s:
                return 'sent'
        return c
    fo = Flow(g, 'none', step_out)
    outs = fo.at(g.exit)
    ok = bool(outs) and all(c in ('ready', 'sent') or fa.knows('self.is_defunct') is True for fa, c in outs)
    chk.judge(ok, 'C47.errors', hs, 'every normal exit of the startup handler: ready, next handshake message sent, or already defunct', 'a reply is swallowed: the handshake neither proceeds nor fails')
    g2 = CFG(ha)
    fl2 = Flow(g2, 0, lambda n, c: c)
    seen = set()
    for r in [n for n in g2.nodes if n.kind == 'raise_stmt']:
        t = src(r.ast.exc)
        sts = fl2.at(r)
        if t.startswith('AuthenticationFailed('):
            chk.judge(all(_isinst(fa, 'auth_response', 'ErrorMessage') is True for fa, _ in sts), 'C47.errors', r.ast, 'auth: ERROR -> AuthenticationFailed', 'AuthenticationFailed arm changed')
            seen.add('auth')
        elif t == 'auth_response':
            chk.judge(all(_isinst(fa, 'auth_response', 'ConnectionShutdown') is True for fa, _ in sts), 'C47.errors', r.ast, 'auth: ConnectionShutdown re-raised', 're-raise arm changed')
            seen.add('shutdown')
        elif t.startswith('ProtocolError('):
            ok = all(_isinst(fa, 'auth_response', c) is False for fa, _ in sts for c in ('AuthSuccessMessage', 'AuthChallengeMessage', 'ErrorMessage', 'ConnectionShutdown'))
            chk.judge(ok, 'C47.errors', r.ast, 'auth: anything else -> ProtocolError', 'fallback arm changed')
            seen.add('other')
        else:
            chk.viol('C47.errors', r.ast, t[:60], 'unrecognised raise in the auth handler')
    chk.judge(seen == set(['auth', 'shutdown', 'other']), 'C47.errors', ha, 'auth handler has all three failure arms', 'failure arms missing')
    fo2 = Flow(g2, 'none', step_out)
    outs = fo2.at(g2.exit)
    chk.judge(bool(outs) and all(c in ('ready', 'sent') or fa.knows('self.is_defunct') is True for fa, c in outs), 'C47.errors', ha, 'every normal exit of the auth handler: ready, challenge answered, or already defunct', 'an auth reply is swallowed')
    ch = [n for n in g2.stmt_nodes() if n.kind == 'stmt' and 'self.send_msg(' in src(n.ast)]
    chk.judge(len(ch) == 1 and 'self._handle_auth_response' in src(ch[0].ast) and all(_isinst(fa, 'auth_response', 'AuthChallengeMessage') is True for fa, _ in fl2.at(ch[0])), 'C47.errors', ha,
              'a challenge is answered and the same handler waits for the next reply', 'challenge loop changed')
    # options handler: non-SUPPORTED raises
    g3 = CFG(ho)
    fl3 = Flow(g3, 0, lambda n, c: c)
    st = [n for n in g3.stmt_nodes() if n.kind == 'stmt' and 'self._send_startup_message(' in src(n.ast)]
    ok = len(st) == 1 and all(_isinst(fa, 'options_response', 'SupportedMessage') is True and fa.knows('self.is_defunct') is False for fa, _ in fl3.at(st[0]))
    chk.judge(ok, 'C47.errors', ho, 'STARTUP is sent only after a SUPPORTED reply', 'STARTUP sent after a non-SUPPORTED reply')
    cred = [c for c in body_walk(hs) if isinstance(c, ast.Call) and src(c.func) == 'partial']
    chk.judge(len(cred) == 1 and src(cred[0]) == 'partial(self._handle_startup_response, did_authenticate=True)', 'C47.errors', hs, 'credentials reply is handled with did_authenticate=True', 'did_authenticate marker lost')
    # ---- compression / checksumming
    for f, var in ((hs, 'startup_response'),):
        g = CFG(f)
        fl = Flow(g, 0, lambda n, c: c)
        for call, rid in (('self._enable_compression()', 'C47.compress'), ('self._enable_checksumming()', 'C47.checksum')):
            sites = [n for n in g.stmt_nodes() if n.kind == 'stmt' and src(n.ast) == call]
            ok = len(sites) == 2 and all((_isinst(fa, var, 'ReadyMessage') is True or _isinst(fa, var, 'AuthenticateMessage') is True) for s_ in sites for fa, _ in fl.at(s_))
            if rid == 'C47.checksum':
                ok = ok and all(fa.knows('ProtocolVersion.has_checksumming_support(self.protocol_version)') is True for s_ in sites for fa, _ in fl.at(s_))
            chk.judge(ok, rid, f, '%s only in the READY / AUTHENTICATE arms%s' % (call, ' under has_checksumming_support' if rid == 'C47.checksum' else ''),
                      '%s is reachable before the server accepted STARTUP%s' % (call, ' or without the v5 test' if rid == 'C47.checksum' else ''))
        # order: compression first (the segment codec is chosen from self.compressor)
        def step_o(n, c):
            if n.kind == 'stmt' and src(n.ast) == 'self._enable_compression()':
                return 'comp'
            return c
        fo = Flow(g, 'none', step_o)
        sites = [n for n in g.stmt_nodes() if n.kind == 'stmt' and src(n.ast) == 'self._enable_checksumming()']
        chk.judge(bool(sites) and all(c == 'comp' for s_ in sites for _, c in fo.at(s_)), 'C47.checksum', f, '_enable_compression precedes _enable_checksumming on every path', 'segment codec chosen before the compressor is installed')
        # on the AUTHENTICATE arm both happen before the auth response is sent
        sends = [n for n in g.stmt_nodes() if n.kind == 'stmt' and 'self.send_msg(' in src(n.ast)]
        chk.judge(len(sends) == 2 and all(c == 'comp' for s_ in sends for _, c in fo.at(s_)), 'C47.compress', f, 'auth replies are sent with the negotiated framing already on', 'auth response sent before compression/checksumming is set up')
    ws = [(qual_of(f), src(st)) for st, t, f in attr_writes(m, 'compressor') if src(t) == 'self.compressor']
    okw = bool(ws) and all(w[1] == 'self.compressor = self._compressor' and w[0] in ('Connection._enable_compression', 'Connection._handle_auth_response') for w in ws) and \
        any(w[0] == 'Connection._enable_compression' for w in ws)
    # AUTH_SUCCESS: the negotiated compressor is installed (directly or through _enable_compression) before the connection is reported ready
    har = m.func('Connection._handle_auth_response')
    gh = CFG(har)

    def step_h(n, c):
        if n.kind == 'stmt' and src(n.ast) in ('self._enable_compression()', 'self.compressor = self._compressor'):
            return 'installed'
        return c
    fh = Flow(gh, 'none', step_h)
    sets_ = [n for n in gh.stmt_nodes() if n.kind == 'stmt' and src(n.ast) == 'self.connected_event.set()']
    ready_ok = [n for n in sets_ if all(_isinst(fa, 'auth_response', 'AuthSuccessMessage') is True for fa, _c in fh.at(n))]
    okw = okw and len(ready_ok) >= 1 and all(c == 'installed' or not fa.knows('self._compressor') is not False for n in ready_ok for fa, c in fh.at(n))
    chk.judge(okw, 'C47.compress', m.func('Connection._enable_compression'), 'self.compressor is written only by _enable_compression and the AUTH_SUCCESS arm (from the negotiated _compressor)', 'other writers of the outgoing compressor: %s' % ws)
    for rel in REACTORS:
        mod = chk.repo.mod(rel)
        w2 = [(qual_of(f), src(st)) for st, t, f in attr_writes(mod, 'compressor') if src(t) == 'self.compressor']
        chk.judge(not w2, 'C47.compress', (rel, '-', 0), '%s does not touch the compressor' % rel.split('/')[-1], 'reactor writes the compressor: %s' % w2, nontrivial=False)
    ec = m.func('Connection._enable_checksumming')
    chk.judge("self._segment_codec = segment_codec_lz4 if self.compressor else segment_codec_no_compression" in src(ec) and 'self._is_checksumming_enabled = True' in src(ec) and
              'self._io_buffer.set_checksumming_buffer()' in src(ec), 'C47.checksum', ec, 'checksumming: segment codec follows the installed compressor; flag and buffer switched together', '_enable_checksumming changed')
    w3 = [(qual_of(f), src(st)) for st, t, f in attr_writes(m, '_is_checksumming_enabled')]
    chk.judge(w3 == [('Connection._enable_checksumming', 'self._is_checksumming_enabled = True')], 'C47.checksum', ec, 'only _enable_checksumming turns checksumming on', 'other writers: %s' % w3)
    spec = load_spec()
    M = Machine(chk)
    for v in M.versions:
        got = M.pv_pred('has_checksumming_support', v)
        chk.judge(bool(got) == bool(spec.checksumming(v)), 'C47.checksum', ('cassandra/__init__.py', 'ProtocolVersion.has_checksumming_support', 0), 'has_checksumming_support(%#x) == %s' % (v, spec.checksumming(v)),
                  'checksummed framing would be %s for version %#x' % ('on' if got else 'off', v))
    # negotiation
    g = CFG(ho)

    def step_n(n, c):
        ct, stored = c
        if n.kind == 'stmt' and isinstance(n.ast, ast.Assign):
            tg = [src(t) for t in n.ast.targets]
            if tg == ['compression_type']:
                v = n.ast.value
                ct = 'None' if (isinstance(v, ast.Constant) and v.value is None) else 'val@%d' % n.ast.lineno
            elif tg == ['self._compressor']:
                stored = 'None' if (isinstance(n.ast.value, ast.Constant) and n.ast.value.value is None) else '?'
            elif isinstance(n.ast.targets[0], ast.Tuple) and [src(e) for e in n.ast.targets[0].elts] == ['self._compressor', 'self.decompressor']:
                stored = ct if src(n.ast.value) == 'locally_supported_compressions[compression_type]' else '?'
        return (ct, stored)
    fn = Flow(g, ('?', '?'), step_n)
    bad = sorted(set(c for _, c in fn.at(st[0]) if c[0] != c[1])) if st else [('?', '?')]
    chk.judge(not bad, 'C47.compress', st[0].ast if st else ho, 'the algorithm named in STARTUP is the one the stored (compressor, decompressor) pair was looked up with, on every path (None <-> no compressor)',
              'on some path STARTUP announces %s while the stored codec pair belongs to %s: the driver then compresses/decompresses (and picks the v5 segment layout) differently from what the server agreed to' % (bad[0][0] if bad else '', bad[0][1] if bad else ''))
    s = src(ho)
    LOCAL = ('locally_supported_compressions.keys()', 'locally_supported_compressions', 'list(locally_supported_compressions)', 'list(locally_supported_compressions.keys())')

    def _set_arg(e):
        if isinstance(e, ast.Call) and src(e.func) in ('set', 'frozenset') and len(e.args) == 1:
            return src(e.args[0])
        return src(e)
    ovs = [x for x in body_walk(ho) if isinstance(x, ast.Assign) and src(x.targets[0]) == 'overlap']
    okov = len(ovs) == 1
    if okov:
        v = ovs[0].value
        if isinstance(v, ast.BinOp) and isinstance(v.op, ast.BitAnd):
            ops_ = [_set_arg(v.left), _set_arg(v.right)]
        elif isinstance(v, ast.Call) and isinstance(v.func, ast.Attribute) and v.func.attr == 'intersection' and len(v.args) == 1:
            ops_ = [_set_arg(v.func.value), _set_arg(v.args[0])]
        else:
            ops_ = []
        okov = len(ops_) == 2 and 'remote_supported_compressions' in ops_ and any(o in LOCAL for o in ops_)
    rdefs = [x for x in body_walk(ho) if isinstance(x, ast.Assign) and src(x.targets[0]) == 'remote_supported_compressions']
    okov = okov and len(rdefs) == 1 and src(rdefs[0].value) == "options_response.options['COMPRESSION']"
    chk.judge(okov, 'C47.compress', ovs[0] if ovs else ho, 'overlap = locally supported & server supported (the server list is the COMPRESSION option of SUPPORTED)', 'overlap computation changed')

    def _filtered_local(e):
        """e is a comprehension / generator over the locally supported algorithms, in their order, keeping those in the overlap"""
        if not isinstance(e, (ast.ListComp, ast.GeneratorExp)) or len(e.generators) != 1:
            return False
        gen = e.generators[0]
        return isinstance(gen.target, ast.Name) and src(e.elt) == gen.target.id and src(gen.iter) in LOCAL and [src(i) for i in gen.ifs] == ['%s in overlap' % gen.target.id]

    def _pick(func, g_, fl_, node, expr, depth=2):
        """None if the value of expr at node is None, the explicitly requested algorithm under its tests, or the first locally supported algorithm in the overlap;
        otherwise a text saying what is not recognised"""
        if isinstance(expr, ast.Constant) and expr.value is None:
            return None
        t = src(expr)
        sts = fl_.at(node)
        if t == 'self.compression':
            ok = all(fa.knows('self.compression in remote_supported_compressions') is True and fa.knows('isinstance(self.compression, str)') is True for fa, _ in sts)
            return None if ok else 'a requested algorithm the server does not list can be announced'
        if isinstance(expr, ast.Name):
            lp = enclosing(node.ast, ast.For)
            if lp is not None and isinstance(lp.target, ast.Name) and lp.target.id == t:
                if src(lp.iter) not in LOCAL:
                    return 'automatic choice iterates %s, not the locally supported algorithms in preference order' % src(lp.iter)
                if not all(fa.knows('%s in overlap' % t) is True for fa, _ in sts):
                    return 'automatic choice can leave the overlap'
                # the first match wins: control leaves the loop right after the choice
                leaves = node.kind == 'return' or all(getattr(x, 'kind', '') != 'for_iter' and not (x.kind == 'stmt' and enclosing(x.ast, ast.For) is lp) or
                                                      (x.kind == 'stmt' and isinstance(x.ast, ast.Break)) for x, _l in node.succ)
                return None if leaves else 'the loop goes on after a match: the last common algorithm is chosen, not the preferred one'
            defs = [x for x in body_walk(func) if isinstance(x, ast.Assign) and len(x.targets) == 1 and src(x.targets[0]) == t]
            if len(defs) == 1 and depth:
                dn = sem.node_of(g_, defs[0])
                return _pick(func, g_, fl_, dn, defs[0].value, depth - 1)
            return 'value of %s not traced' % t
        if isinstance(expr, ast.IfExp) and isinstance(expr.orelse, ast.Constant) and expr.orelse.value is None and isinstance(expr.body, ast.Subscript) \
                and src(expr.body.slice) == '0' and src(expr.body.value) == src(expr.test) and isinstance(expr.test, ast.Name):
            defs = [x for x in body_walk(func) if isinstance(x, ast.Assign) and len(x.targets) == 1 and src(x.targets[0]) == expr.test.id]
            if len(defs) == 1 and _filtered_local(defs[0].value):
                return None
            return '%s is not the locally supported algorithms filtered by the overlap' % expr.test.id
        if isinstance(expr, ast.Call) and src(expr.func) == 'next' and len(expr.args) == 2 and isinstance(expr.args[1], ast.Constant) and expr.args[1].value is None \
                and _filtered_local(expr.args[0]):
            return None
        if isinstance(expr, ast.Call) and isinstance(expr.func, ast.Attribute) and src(expr.func.value) == 'self' and depth and not expr.keywords:
            try:
                h = m.func('Connection.' + expr.func.attr)
            except Exception:
                return 'helper %s not found' % expr.func.attr
            ps = [a.arg for a in h.args.args][1:]
            if ps != [src(a) for a in expr.args]:
                return 'helper %s is called with renamed arguments (%s for %s)' % (h.name, [src(a) for a in expr.args], ps)
            gh_, fh_ = sem.flow_of(h)
            rets_ = [n for n in gh_.nodes if n.kind == 'return']
            if not rets_:
                return 'helper %s returns nothing' % h.name
            for r in rets_:
                why = _pick(h, gh_, fh_, r, r.ast.value if r.ast.value is not None else ast.Constant(value=None), depth - 1)
                if why:
                    return '%s: %s' % (h.name, why)
            return None
        return 'unrecognised source of the compression algorithm'

    from .. import sem
    g2, flo = sem.flow_of(ho)
    picks = [n for n in g2.stmt_nodes() if n.kind == 'stmt' and isinstance(n.ast, ast.Assign) and src(n.ast.targets[0]) == 'compression_type' and not (isinstance(n.ast.value, ast.Constant))]
    for p in picks:
        why = _pick(ho, g2, flo, p, p.ast.value)
        chk.judge(why is None, 'C47.compress', p.ast, 'announced algorithm %s: the requested one if the server lists it, else the first locally supported one in the overlap' % src(p.ast.value)[:60], why or '')
    if not picks:
        raise AnalysisError('_handle_options_response: no choice of compression_type found')
    chk.require('C47.compress', 8)
    sm = m.func('Connection._send_startup_message')
    okc = any(isinstance(x, ast.If) and src(x.test) == 'compression' and [src(y) for y in x.body] == ["opts['COMPRESSION'] = compression"] for x in sm.body)
    chk.judge(okc and "StartupMessage(cqlversion=self.cql_version, options=opts)" in src(sm) and 'cb=self._handle_startup_response' in src(sm), 'C47.compress', sm, 'STARTUP carries COMPRESSION only when an algorithm was chosen', 'STARTUP options changed')
    snappy = [n for n in g.nodes if n.kind == 'test' and 'snappy' in src(n.ast)]
    chk.judge(len(snappy) == 1, 'C47.compress', ho, 'snappy is not announced with checksummed framing', 'snappy/v5 exclusion removed', nontrivial=False)
