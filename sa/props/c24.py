"""C24 - reconnection schedules respect delay bounds and attempt limits (structure)."""
import ast

from ..core import AnalysisError, chain, src, walk_no_nested, body_walk, is_none
from ..cfg import CFG, Flow
from ..guards import tri_eval, tri_vars, NONE, FALSY, TRUTHY, normalise_atom, show_env

POL = 'cassandra/policies.py'
POOL = 'cassandra/pool.py'


def _returns(func):
    return [n for n in body_walk(func) if isinstance(n, ast.Return)]


def _yields(func):
    return [n for n in body_walk(func) if isinstance(n, ast.Yield)]


def check_limit_guard(chk, func, guard, bounded_when_true, label):
    """the guard must send None to the unlimited arm and 0 / n>0 to the bounded arm
    (three-valued domain of self.max_attempts)."""
    vs, opaque = tri_vars(guard)
    var = 'self.max_attempts'
    if var not in vs and not any(var in o for o in opaque):
        raise AnalysisError('%s: guard %s does not test self.max_attempts' % (label, src(guard)))
    bad = []
    for state in (NONE, FALSY, TRUTHY):
        env = {var: state}
        for v in vs:
            env.setdefault(v, TRUTHY)
        outcomes = set()
        import itertools
        ol = sorted(opaque)
        for combo in itertools.product((False, True), repeat=len(ol)):
            outcomes.add(tri_eval(guard, env, dict(zip(ol, combo))))
        if bounded_when_true:
            # guard true => bounded arm: must be true for 0 and n, false for None
            want = {NONE: {False}, FALSY: {True}, TRUTHY: {True}}[state]
            if outcomes != want:
                bad.append('max_attempts=%s -> %s arm' % (
                    {NONE: 'None', FALSY: '0', TRUTHY: 'n>0'}[state],
                    'bounded' if outcomes == {True} else ('unbounded' if outcomes == {False} else 'either')))
        else:
            # loop guard "continue while ...": None must always continue; 0/n must depend on the counter comparison only
            if state == NONE and outcomes != {True}:
                bad.append('max_attempts=None does not always continue')
            if state != NONE and outcomes != {True, False}:
                bad.append('max_attempts=%s: loop %s regardless of the attempt counter' % (
                    '0' if state == FALSY else 'n>0', 'continues' if outcomes == {True} else 'stops'))
    chk.judge(not bad, 'C24.limit', func, '%s: %s' % (label, src(guard)),
              'attempt-limit guard treats the three cases None / 0 / n>0 wrongly: %s' % '; '.join(bad))


def check(chk):
    chk.decides = ('the attempt-limit guards over {None, 0, n>0}, argument validation, the shape of every yielded delay '
                   '(clamped between base and max), per-iteration counter increment, overflow latch, and that the '
                   'reconnection handler stops on an exhausted schedule')
    chk.does_not_decide = 'the numeric jitter band and the doubling curve values (random / floating point)'
    chk.rule('C24.limit', 'a schedule is unbounded exactly when max_attempts is None; 0 and n>0 are bounded (0 yields nothing)')
    chk.rule('C24.validate', '__init__ rejects negative delays and negative max_attempts, accepts None and 0')
    chk.rule('C24.delay', 'every delay yielded is the configured constant, or max_delay, or _add_jitter(min(growth, max_delay)) '
                          'with _add_jitter clamping into [base_delay, max_delay]')
    chk.rule('C24.counter', 'the attempt counter advances exactly once on every path around the schedule loop')
    chk.rule('C24.exhaust', 'the reconnection handler draws delays with next(schedule) under a StopIteration handler and does not reschedule after exhaustion')
    pol = chk.repo.mod(POL)

    # ---- ConstantReconnectionPolicy
    ns = pol.func('ConstantReconnectionPolicy.new_schedule')
    rets = _returns(ns)
    if len(rets) < 1:
        raise AnalysisError('ConstantReconnectionPolicy.new_schedule has no return')
    bounded, unbounded = [], []
    for r in rets:
        v = r.value
        if isinstance(v, ast.IfExp):
            cands = [(v.body, (v.test, True)), (v.orelse, (v.test, False))]
        else:
            cands = [(v, None)]
        for val, g in cands:
            if not (isinstance(val, ast.Call) and (chain(val.func) or ('',))[-1] == 'repeat'):
                raise AnalysisError('ConstantReconnectionPolicy.new_schedule returns %s, not itertools.repeat(...)' % src(val))
            chk.judge(val.args and src(val.args[0]) == 'self.delay', 'C24.delay', r, 'constant schedule yields %s' % src(val.args[0] if val.args else val),
                      'the constant schedule must repeat self.delay')
            if len(val.args) >= 2 or val.keywords:
                times = val.args[1] if len(val.args) >= 2 else val.keywords[0].value
                chk.judge(src(times) == 'self.max_attempts', 'C24.delay', r, 'bounded repeat count %s' % src(times),
                          'the bounded schedule must repeat exactly self.max_attempts times')
                bounded.append((r, g))
            else:
                unbounded.append((r, g))
    if not bounded or not unbounded:
        raise AnalysisError('ConstantReconnectionPolicy.new_schedule: bounded/unbounded arms not recognised')
    # the path condition of the bounded return
    g = CFG(ns)
    from ..cfg import enumerate_paths
    from ..guards import conj
    for p in enumerate_paths(g):
        if p.end.kind != 'return':
            continue
        r = p.end.ast
        val = r.value
        conds = list(p.conds)
        if isinstance(val, ast.IfExp):
            # evaluate both arms separately
            for arm, pol_ in ((val.body, True), (val.orelse, False)):
                isb = len(arm.args) >= 2 or bool(arm.keywords)
                check_limit_guard(chk, ns, conj(conds + [(val.test, pol_)]) if isb else conj(conds + [(val.test, pol_)]),
                                  True, 'Constant.new_schedule %s arm' % ('bounded' if isb else 'unbounded')) if isb else None
            continue
        isb = len(val.args) >= 2 or bool(val.keywords)
        if isb:
            check_limit_guard(chk, ns, conj(conds), True, 'ConstantReconnectionPolicy.new_schedule bounded arm')
    chk.require('C24.limit', 1)

    # ---- validation in both __init__
    for cls in ('ConstantReconnectionPolicy', 'ExponentialReconnectionPolicy'):
        init = pol.func(cls + '.__init__')
        raises_under = []
        g = CFG(init)
        for p in enumerate_paths(g):
            if p.end.kind == 'raise_stmt':
                raises_under.append(p)
        # max_attempts: some raising path whose last condition is max_attempts < 0 guarded by "is not None"
        ok_neg = False
        ok_none = True
        for p in raises_under:
            texts = [(normalise_atom(e)[0], pl != normalise_atom(e)[1]) for e, pl in p.conds]
            if ('max_attempts < 0', True) in texts:
                ok_neg = True
                if ('max_attempts is None', False) not in texts:
                    ok_none = False
        chk.judge(ok_neg and ok_none, 'C24.validate', init, '%s.__init__ rejects max_attempts < 0 (None allowed)' % cls,
                  'negative max_attempts is not rejected, or None is compared with 0')
        # zero must not be rejected: no raising path conditioned on truthiness/<=0 of max_attempts
        bad0 = []
        for p in raises_under:
            for e, pl in p.conds:
                k, fl = normalise_atom(e)
                if 'max_attempts' in k and k not in ('max_attempts < 0', 'max_attempts is None'):
                    bad0.append(src(e))
        chk.judge(not bad0, 'C24.validate', init, '%s.__init__ accepts max_attempts == 0' % cls,
                  'a validation branch on %s may reject 0 or positive limits' % bad0)
        delays = ['delay'] if cls.startswith('Constant') else ['base_delay', 'max_delay']
        for d in delays:
            found = any(('%s < 0' % d, True) in [(normalise_atom(e)[0], pl != normalise_atom(e)[1]) for e, pl in p.conds]
                        for p in raises_under)
            chk.judge(found, 'C24.validate', init, '%s.__init__ rejects %s < 0' % (cls, d), 'negative %s is not rejected' % d)
        if not cls.startswith('Constant'):
            found = any(('max_delay < base_delay', True) in [(normalise_atom(e)[0], pl != normalise_atom(e)[1]) for e, pl in p.conds]
                        for p in raises_under)
            chk.judge(found, 'C24.validate', init, 'Exponential.__init__ rejects max_delay < base_delay', 'max < base is not rejected')
        # the validated values are the ones stored
        stores = dict((src(t), src(st.value)) for st in init.body if isinstance(st, ast.Assign) for t in st.targets)
        for a in delays + ['max_attempts']:
            chk.judge(stores.get('self.' + a) == a, 'C24.validate', init, 'self.%s = %s' % (a, a),
                      'the validated argument %s is not what is stored (self.%s = %s)' % (a, a, stores.get('self.' + a)))

    # ---- ExponentialReconnectionPolicy.new_schedule
    ens = pol.func('ExponentialReconnectionPolicy.new_schedule')
    loops = [n for n in body_walk(ens) if isinstance(n, ast.While)]
    if len(loops) != 1:
        raise AnalysisError('Exponential.new_schedule: expected one while loop, found %d' % len(loops))
    check_limit_guard(chk, ens, loops[0].test, False, 'ExponentialReconnectionPolicy.new_schedule loop guard')
    # counter name: the name compared with self.max_attempts
    counter = None
    for n in ast.walk(loops[0].test):
        if isinstance(n, ast.Compare) and 'self.max_attempts' in src(n) and \
                isinstance(n.ops[0], (ast.Lt, ast.LtE, ast.Gt, ast.GtE, ast.Eq, ast.NotEq)):
            for side in [n.left] + n.comparators:
                if isinstance(side, ast.Name):
                    counter = side.id
            k, flip = normalise_atom(n)
            chk.judge(k == '%s < self.max_attempts' % counter and not flip, 'C24.limit', ens, 'loop continues while %s' % src(n),
                      'the loop must continue exactly while the attempt counter is below max_attempts (found %s)' % src(n))
    if counter is None:
        raise AnalysisError('Exponential.new_schedule: attempt counter not recognised')
    # counter starts at 0
    init0 = None
    for st in ens.body:
        if isinstance(st, ast.Assign):
            tg = st.targets[0]
            if isinstance(tg, ast.Tuple) and isinstance(st.value, ast.Tuple):
                for te, ve in zip(tg.elts, st.value.elts):
                    if isinstance(te, ast.Name) and te.id == counter:
                        init0 = ve
            elif isinstance(tg, ast.Name) and tg.id == counter:
                init0 = st.value
    chk.judge(init0 is not None and isinstance(init0, ast.Constant) and init0.value == 0, 'C24.counter', ens,
              '%s starts at 0' % counter, 'the attempt counter does not start at 0')
    # yields
    for y in _yields(ens):
        v = y.value
        t = src(v) if v is not None else 'None'
        ok = t == 'self.max_delay'
        if not ok and isinstance(v, ast.Call) and src(v.func) == 'self._add_jitter' and len(v.args) == 1:
            a = v.args[0]
            if isinstance(a, ast.Call) and isinstance(a.func, ast.Name) and a.func.id == 'min' and len(a.args) == 2:
                texts = [src(x) for x in a.args]
                if 'self.max_delay' in texts:
                    other = a.args[0] if texts[1] == 'self.max_delay' else a.args[1]
                    # growth term: base_delay * 2 ** counter
                    ok = isinstance(other, ast.BinOp) and isinstance(other.op, ast.Mult) and \
                        any(src(s) == 'self.base_delay' for s in (other.left, other.right)) and \
                        any(isinstance(s, ast.BinOp) and isinstance(s.op, ast.Pow) and src(s.left) == '2' and src(s.right) == counter
                            for s in (other.left, other.right))
        chk.judge(ok, 'C24.delay', y, 'yield %s' % t,
                  'a yielded delay is neither self.max_delay nor self._add_jitter(min(self.base_delay * 2 ** %s, self.max_delay))' % counter)
    chk.require('C24.delay', 4)
    aj = pol.func('ExponentialReconnectionPolicy._add_jitter')
    rets = _returns(aj)
    okj = False
    if len(rets) == 1:
        from ..sem import resolve
        v = resolve(aj, rets[0].value)
        if isinstance(v, ast.Call) and isinstance(v.func, ast.Name) and v.func.id == 'min' and len(v.args) == 2:
            texts = [src(x) for x in v.args]
            if 'self.max_delay' in texts:
                inner = v.args[0] if texts[1] == 'self.max_delay' else v.args[1]
                if isinstance(inner, ast.Call) and isinstance(inner.func, ast.Name) and inner.func.id == 'max' and len(inner.args) == 2 \
                        and 'self.base_delay' in [src(x) for x in inner.args]:
                    okj = True
    chk.judge(okj, 'C24.delay', aj, '_add_jitter returns min(max(self.base_delay, x), self.max_delay)',
              '_add_jitter no longer clamps its result into [base_delay, max_delay]')
    # per-iteration increment: exactly once on every path around the loop
    g = CFG(ens, may_raise=lambda n: ['OverflowError'] if any(isinstance(x, ast.BinOp) and isinstance(x.op, ast.Pow) for x in ast.walk(n)) else [])
    head = [n for n in g.nodes if n.kind == 'join' and n.ast is loops[0]][0]

    def step(node, c):
        if node is head:
            return 0 if c != 'start' or True else c
        if node.kind == 'stmt' and isinstance(node.ast, ast.AugAssign) and isinstance(node.ast.target, ast.Name) \
                and node.ast.target.id == counter and isinstance(node.ast.op, ast.Add) \
                and isinstance(node.ast.value, ast.Constant) and node.ast.value.value == 1:
            return min(c + 1, 2) if c != 'start' else c
        if c != 'start' and node.kind == 'stmt' and any(isinstance(t, ast.Name) and t.id == counter for t in _targets(node.ast)):
            return 'clobber'
        return c
    fl = Flow(g, 'start', step)
    at_head = fl.customs_at(head)
    bad = [c for c in at_head if c not in ('start', 1)]
    if bad:
        st = [s for s in fl.at(head) if s[1] in bad][0]
        chk.viol('C24.counter', ens, 'loop of new_schedule: %s += 1 once per iteration' % counter,
                 'a path around the schedule loop reaches the loop head with the attempt counter advanced %s times: %s'
                 % (bad, ' | '.join(fl.witness(head, st)[-8:])))
    else:
        chk.ok('C24.counter', ens, 'loop of new_schedule: %s += 1 once per iteration' % counter)
    # overflow latch: handler of OverflowError sets a flag tested before computing the growth term
    latch_ok = False
    for n in body_walk(ens):
        if isinstance(n, ast.ExceptHandler) and n.type is not None and 'OverflowError' in src(n.type):
            sets = [t.id for st in n.body if isinstance(st, ast.Assign) and isinstance(st.value, ast.Constant) and st.value.value is True
                    for t in st.targets if isinstance(t, ast.Name)]
            for flag in sets:
                if any(isinstance(x, ast.If) and flag in [m.id for m in ast.walk(x.test) if isinstance(m, ast.Name)] for x in body_walk(ens)):
                    latch_ok = True
    chk.judge(latch_ok, 'C24.counter', ens, 'OverflowError latches to max_delay',
              'no attempt index overflow latch: the OverflowError handler does not set a flag that later iterations test')

    # ---- _ReconnectionHandler
    pool = chk.repo.mod(POOL)
    for fn in ('_ReconnectionHandler.start', '_ReconnectionHandler.run'):
        f = pool.func(fn)
        nexts = [n for n in body_walk(f) if isinstance(n, ast.Call) and isinstance(n.func, ast.Name) and n.func.id == 'next'
                 and n.args and src(n.args[0]) == 'self.schedule']
        if not nexts:
            raise AnalysisError('%s no longer draws from self.schedule' % fn)
        for nx in nexts:
            # inside a try whose handlers catch StopIteration
            p = nx
            prot = False
            if len(nx.args) == 2:
                # next(schedule, default) does not raise on exhaustion; the default must be None so that exhaustion stays distinguishable from a delay
                chk.judge(is_none(nx.args[1]), 'C24.exhaust', nx, '%s: next(self.schedule, None) - exhaustion yields None' % fn,
                          'an exhausted schedule yields %s, which the handler cannot tell from a delay' % src(nx.args[1]))
                continue
            from ..core import parent
            while p is not None and p is not f:
                pp = parent(p)
                if isinstance(pp, ast.Try) and p in pp.body:
                    if any(h.type is None or 'StopIteration' in src(h.type) for h in pp.handlers):
                        prot = True
                p = pp
            chk.judge(prot, 'C24.exhaust', nx, '%s: next(self.schedule) under except StopIteration' % fn,
                      'an exhausted schedule raises StopIteration out of %s instead of ending the attempt series' % fn)
    run = pool.func('_ReconnectionHandler.run')
    g = CFG(run, may_raise=lambda n: ['StopIteration'] if any(isinstance(x, ast.Call) and isinstance(x.func, ast.Name) and x.func.id == 'next' and len(x.args) == 1 for x in walk_no_nested(n))
            else (['Exception'] if any(isinstance(x, ast.Call) and src(x.func) == 'self.try_reconnect' for x in walk_no_nested(n)) else []))

    # dataflow: value of next_delay: 'none' after the StopIteration handler, 'delay' after next(); scheduling requires 'delay'
    def step2(node, c):
        if node.kind == 'stmt' and isinstance(node.ast, ast.Assign) and len(node.ast.targets) == 1 and isinstance(node.ast.targets[0], ast.Name):
            name = node.ast.targets[0].id
            if isinstance(node.ast.value, ast.Call) and isinstance(node.ast.value.func, ast.Name) and node.ast.value.func.id == 'next':
                kind_ = 'delay' if len(node.ast.value.args) == 1 else 'maybe'
                return tuple(x for x in c if x[0] != name) + ((name, kind_),)
            if is_none(node.ast.value):
                return tuple(x for x in c if x[0] != name) + ((name, 'none'),)
        return c

    def edge2(node, succ, lab, c):
        if lab is not None and lab[0] == 'exc' and node.kind == 'stmt' and isinstance(node.ast, ast.Assign):
            # the assignment did not happen
            return c
        return c
    fl = Flow(g, (), step2)
    sched = [n for n in g.stmt_nodes() if n.kind == 'stmt' and any(
        isinstance(x, ast.Call) and src(x.func) == 'self.scheduler.schedule' for x in walk_no_nested(n.ast))]
    if not sched:
        raise AnalysisError('_ReconnectionHandler.run no longer reschedules itself')
    for sn in sched:
        call = [x for x in walk_no_nested(sn.ast) if isinstance(x, ast.Call) and src(x.func) == 'self.scheduler.schedule'][0]
        dv = src(call.args[0]) if call.args else '?'
        bad = []
        for facts, c in fl.at(sn):
            vals = dict(c)
            if vals.get(dv) in ('none', 'maybe') and facts.knows('%s is None' % dv) is not False:
                bad.append((facts, c))
        if bad:
            chk.viol('C24.exhaust', sn.ast, 'run: schedule(%s, self.run) only when a delay was drawn' % dv,
                     'the handler can reschedule itself after the schedule is exhausted: ' + ' | '.join(fl.witness(sn, bad[0])[-8:]))
        else:
            chk.ok('C24.exhaust', sn.ast, 'run: schedule(%s, self.run) only when a delay was drawn' % dv)
    # ... and the converse: a delay that was drawn is used - the only way not to reschedule after a failed attempt that on_exception wants retried is an exhausted schedule
    def step3(node, c):
        val, scheduled = c
        if node.kind == 'stmt' and isinstance(node.ast, ast.Assign) and len(node.ast.targets) == 1 and isinstance(node.ast.targets[0], ast.Name):
            if isinstance(node.ast.value, ast.Call) and isinstance(node.ast.value.func, ast.Name) and node.ast.value.func.id == 'next':
                val = 'delay'
            elif is_none(node.ast.value) and node.ast.targets[0].id.startswith('next'):
                val = 'none'
        if node in sched:
            scheduled = True
        return (val, scheduled)
    fl3 = Flow(g, ('unset', False), step3)
    lost = []
    for facts, c in fl3.at(g.exit):
        # (a drawn delay is a number: the combination "drawn" and "is None" is not a path of the program)
        if facts.knows('self.on_exception(exc, next_delay)') is True and c[0] == 'delay' and not c[1] and facts.knows('next_delay is None') is not True:
            lost.append((facts, c))
    chk.judge(not lost, 'C24.exhaust', run, 'run: after a failed attempt that on_exception wants retried, a drawn delay always leads to schedule(...)',
              'a delay was drawn from the schedule but the handler does not reschedule itself (%s): a legal delay of 0 / 0.0 is taken for an exhausted schedule and the '
              'reconnection attempts stop after the first failure' % (sorted(k for k, v in lost[0][0].items if 'next_delay' in k) if lost else ''))
    chk.require('C24.exhaust', 3)


def _targets(st):
    from ..core import assigned_targets
    return assigned_targets(st) if isinstance(st, ast.stmt) else []
