"""C15 - requests with a timeout finish in bounded time (timer chain; the clock itself is not decided)."""
import ast

from ..core import AnalysisError, src, body_walk, walk_no_nested
from ..cfg import CFG, Flow
from ..rfutil import CLUSTER, outcome_flow, FINAL_EXC, TIMEOUT


def creates_timer(stmt):
    return any(isinstance(n, ast.Call) and src(n.func).endswith('connection_class.create_timer') for n in walk_no_nested(stmt))


def check(chk):
    chk.decides = ('the timer chain: the constructor and every later page fetch arm a timer when the timeout is finite; every timer callback either '
                   'finalises the request or arms the next timer; the "slot free" guard of _start_timer is re-established (and the request clock restarted) '
                   'before a later page arms its timer; the remaining time is measured from the request start; the send loop checks the deadline')
    chk.does_not_decide = 'wall-clock behaviour of the reactor timers'
    chk.rule('C15.arm', '_start_timer: with the slot free and a finite timeout every path creates a timer')
    chk.rule('C15.chain', 'timer callbacks (_on_timeout, _on_speculative_execute) finalise or re-arm on every path')
    chk.rule('C15.entry', 'every entry point that starts a (page) request calls _start_timer after freeing the slot and (re)starting the clock')
    chk.rule('C15.timers', 'TimerManager.service_timeouts merges newly added timers into the queue before it reports the next deadline')
    chk.rule('C15.clock', '_time_remaining = start + timeout - now (None without timeout); the timers are created with these delays and these callbacks')
    cl = chk.repo.mod(CLUSTER)
    st = cl.func('ResponseFuture._start_timer')
    g = CFG(st)

    def step(node, c):
        if node.ast is not None and node.kind == 'stmt' and creates_timer(node.ast):
            return True
        return c
    fl = Flow(g, False, step)
    bad = []
    for facts, created in fl.at(g.exit):
        if created:
            continue
        if facts.knows('self._timer is None') is False:
            continue      # slot occupied
        if facts.knows('self._time_remaining is None') is True:
            continue      # no timeout configured
        if facts.knows('self._time_remaining is None') is None and not any('self._time_remaining' in k for k, _ in facts.items):
            bad.append((facts, created))
            continue
        bad.append((facts, created))
    chk.judge(not bad, 'C15.arm', st, '_start_timer arms a timer on every path with a finite timeout',
              'with a finite timeout a path leaves no timer armed (%s): a silent server then never completes the request'
              % (' | '.join(fl.witness(g.exit, bad[0])[-6:]) if bad else ''))
    # delays and callbacks
    timers = [n for n in body_walk(st) if isinstance(n, ast.Call) and src(n.func).endswith('connection_class.create_timer')]
    pairs = sorted((src(t.args[0]), src(t.args[1])) for t in timers if len(t.args) == 2)
    chk.judge(pairs == [('self._time_remaining', 'self._on_timeout'), ('spec_delay', 'self._on_speculative_execute')], 'C15.clock', st,
              'timers: (spec_delay -> _on_speculative_execute), (_time_remaining -> _on_timeout)', 'timer delays/callbacks are %s' % pairs)
    for t in timers:
        p = t
        from ..core import parent
        while p is not None and not isinstance(p, ast.Assign):
            p = parent(p)
        chk.judge(p is not None and src(p.targets[0]) == 'self._timer', 'C15.clock', t, 'created timer stored in self._timer', 'a created timer is not kept (cannot be cancelled)')
    # spec timer only when it fires before the deadline
    g2 = CFG(st)
    fl2 = Flow(g2, 0, lambda n, c: c)
    spec_nodes = [n for n in g2.stmt_nodes() if n.kind == 'stmt' and '_on_speculative_execute' in src(n.ast)]
    ok = bool(spec_nodes) and all((fa.knows('self._time_remaining is None') is True or fa.knows('spec_delay < self._time_remaining') is True) and fa.knows('spec_delay < 0') is False
                                  for n in spec_nodes for fa, _ in fl2.at(n))
    chk.judge(ok, 'C15.clock', st, 'speculative timer only when spec_delay >= 0 and it fires before the deadline', 'speculative timer can be armed past the deadline')
    tr = cl.func('ResponseFuture._time_remaining')
    rets = [n for n in body_walk(tr) if isinstance(n, ast.Return)]
    none_ret = [r for r in rets if r.value is None or src(r.value) == 'None']
    val_ret = [r for r in rets if r not in none_ret]

    def terms(e, sign=1):
        if isinstance(e, ast.BinOp) and isinstance(e.op, ast.Add):
            return terms(e.left, sign) + terms(e.right, sign)
        if isinstance(e, ast.BinOp) and isinstance(e.op, ast.Sub):
            return terms(e.left, sign) + terms(e.right, -sign)
        return [(sign, src(e))]
    good = len(none_ret) == 1 and len(val_ret) == 1 and sorted(terms(val_ret[0].value)) == sorted([(1, 'self._start_time'), (1, 'self.timeout'), (-1, 'time.time()')])
    g6 = CFG(tr)
    fl6 = Flow(g6, 0, lambda n, c: c)
    if good:
        nn = [n for n in g6.stmt_nodes() if n.ast is none_ret[0]][0]
        good = all(fa.knows('self.timeout is None') is True for fa, _ in fl6.at(nn))
    chk.judge(good, 'C15.clock', tr, '_time_remaining = _start_time + timeout - now, None exactly when timeout is None',
              '_time_remaining no longer measures the deadline from the request start: %s' % [src(r.value) for r in val_ret])

    # ---- callbacks finalise or re-arm
    ot = cl.func('ResponseFuture._on_timeout')
    g, fl = outcome_flow(ot)
    g3 = CFG(ot)

    def step3(node, c):
        fin, arm = c
        if node.ast is not None and node.kind in ('stmt', 'return'):
            for n in walk_no_nested(node.ast):
                if isinstance(n, ast.Call):
                    if src(n.func) == 'self._set_final_exception':
                        fin = True
            if creates_timer(node.ast):
                arm = True
        return (fin, arm)
    fl3 = Flow(g3, (False, False), step3)
    bad = [c for _f, c in fl3.at(g3.exit) if not (c[0] or c[1])]
    chk.judge(not bad, 'C15.chain', ot, '_on_timeout: every path sets the final exception or re-arms', 'a timeout path neither completes the request nor arms another timer')
    rearm = [n for n in body_walk(ot) if isinstance(n, ast.Call) and src(n.func).endswith('create_timer')]
    good = len(rearm) == 1 and '_attempts + 1' in src(rearm[0]) and any(isinstance(x, ast.If) and '_attempts < 3' in src(x.test) for x in body_walk(ot))
    chk.judge(good, 'C15.chain', ot, '_on_timeout re-arms at most a bounded number of times (_attempts < 3, incremented)', 're-arm of _on_timeout is no longer bounded')
    se = cl.func('ResponseFuture._on_speculative_execute')
    g4 = CFG(se)

    def step4(node, c):
        if node.ast is not None and node.kind in ('stmt', 'return'):
            if creates_timer(node.ast):
                return True
            for n in walk_no_nested(node.ast):
                if isinstance(n, ast.Call) and src(n.func) in ('self._start_timer', 'self._on_timeout'):
                    return True
        return c
    fl4 = Flow(g4, False, step4)
    bad = [(f_, c) for f_, c in fl4.at(g4.exit) if not c and f_.knows('self._event.is_set()') is not True]
    chk.judge(not bad, 'C15.chain', se, '_on_speculative_execute: unless already complete, every path re-arms or times out',
              'after a speculative execution no timer is left to enforce the deadline')
    first = [x for x in se.body if not (isinstance(x, ast.Expr) and isinstance(x.value, ast.Constant))][0]
    chk.judge(src(first) == 'self._timer = None', 'C15.entry', se, '_on_speculative_execute frees the timer slot first', 'the fired timer stays in the slot, _start_timer arms nothing')
    s = src(se)
    chk.judge('self._time_remaining <= 0' in s and 'self._on_timeout()' in s, 'C15.chain', se, 'speculative callback times out when the deadline passed', 'deadline check in speculative callback is gone')

    # ---- entry points
    init = cl.func('ResponseFuture.__init__')
    s = src(init)
    chk.judge('self._start_timer()' in s and s.index('self._start_time = ') < s.index('self._start_timer()') and s.index('self.timeout = timeout') < s.index('self._start_timer()'),
              'C15.entry', init, '__init__ records timeout and start time, then arms the timer', 'constructor no longer arms the timer after recording the clock')
    cls = cl.cls('ResponseFuture')
    tdef = [st_ for st_ in cls.body if isinstance(st_, ast.Assign) and src(st_.targets[0]) == '_timer']
    chk.judge(len(tdef) == 1 and src(tdef[0].value) == 'None', 'C15.entry', cls, 'class default _timer = None (slot free for a new future)', '_timer default changed')
    nf = cl.func('ResponseFuture.start_fetching_next_page')
    g5 = CFG(nf)

    def step5(node, c):
        freed, clock = c
        if node.ast is not None and node.kind == 'stmt':
            if isinstance(node.ast, ast.Assign):
                t = src(node.ast.targets[0])
                if t == 'self._timer' and src(node.ast.value) == 'None':
                    freed = True
                if t == 'self._start_time':
                    clock = True
        return (freed, clock)
    fl5 = Flow(g5, (False, False), step5)
    calls = [n for n in g5.stmt_nodes() if n.kind == 'stmt' and src(n.ast) == 'self._start_timer()']
    if len(calls) != 1:
        raise AnalysisError('start_fetching_next_page: _start_timer() call not found')
    states = fl5.customs_at(calls[0])
    cancel = cl.func('ResponseFuture._cancel_timer')
    cancel_frees = any(isinstance(x, ast.Assign) and src(x.targets[0]) == 'self._timer' and src(x.value) == 'None' for x in body_walk(cancel))
    chk.judge(all(c[0] for c in states) or cancel_frees, 'C15.entry', nf, 'next page: timer slot freed before _start_timer()',
              '_cancel_timer leaves the cancelled timer in self._timer and _start_timer only arms when the slot is None: later pages get no timeout')
    chk.judge(all(c[1] for c in states), 'C15.entry', nf, 'next page: request clock restarted before _start_timer()',
              'the deadline of a later page is still measured from the first page\'s start time')
    s = src(nf)
    chk.judge(s.index('self._start_timer()') < s.index('self.send_request()'), 'C15.entry', nf, 'timer armed before the page request is sent', 'page request sent before its timer is armed')
    # the send loop honours the deadline
    sr = cl.func('ResponseFuture.send_request')
    s = src(sr)
    chk.judge('self.timeout is not None and time.time() - self._start_time > self.timeout' in s and 'self._on_timeout()' in s, 'C15.chain', sr,
              'send_request gives up with _on_timeout() once the deadline passed while walking the plan', 'the plan walk no longer checks the deadline')

    # ---- the reactors' timer queue: a timer added after the queue was last serviced must be merged before the next deadline is reported
    cm = chk.repo.mod('cassandra/connection.py')
    st_ = cm.func('TimerManager.service_timeouts')
    gt = CFG(st_)

    def stept(node, c):
        if node.ast is not None and node.kind == 'test' and src(node.ast) in ('self._new_timers', 'new_timers'):
            return True
        if node.ast is not None and node.kind == 'stmt' and 'self._new_timers' in src(node.ast) and 'heappush' in src(node.ast):
            return True
        return c
    flt = Flow(gt, False, stept)
    rets = [n for n in gt.nodes if n.kind == 'return' and n.ast is not None and n.ast.value is not None]
    if not rets or not any('_new_timers' in src(x) for x in body_walk(st_)):
        raise AnalysisError('TimerManager.service_timeouts: deadline returns / new-timer merge not found')
    early = [n for n in rets if not all(c for _f, c in flt.at(n))]
    chk.judge(not early, 'C15.timers', st_, 'service_timeouts: every reported deadline comes after the merge of _new_timers',
              'a deadline is returned (line %s) before the newly added timers were merged: a request timer added while a later timer is queued is not '
              'seen until that later deadline - the request outlives its timeout' % ', '.join(str(n.line()) for n in early))
    at_ = cm.func('TimerManager.add_timer')
    chk.judge('self._new_timers.append((timer.end, timer))' in src(at_), 'C15.timers', at_, 'add_timer files the timer under its end time', 'add_timer changed')
