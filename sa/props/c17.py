"""C17 - hosts are tried in query-plan order and exhaustion is reported (structure)."""
import ast

from ..core import AnalysisError, src, body_walk, walk_no_nested, qual_of
from ..cfg import CFG, Flow
from ..rfutil import CLUSTER
from .c09 import attr_writes


def check(chk):
    chk.decides = ('the query plan has a closed set of writers, each storing a one-shot iterator, and a single consumer (send_request) that resumes where it '
                   'stopped; _query records why a host was skipped on every path that returns None; NoHostAvailable carries the recorded errors and is only '
                   'raised after the plan loop ended; a host is recorded as attempted exactly after a successful send')
    chk.does_not_decide = 'what load-balancing policies yield (C21/C22) and retry decisions (C16)'
    chk.rule('C17.writers', 'query_plan is written only by _make_query_plan and the analytics hook, and every stored plan is wrapped in iter(...)')
    chk.rule('C17.consumer', 'send_request is the only consumer of query_plan and iterates it directly (resuming across calls)')
    chk.rule('C17.record', 'every path of _query that returns None has assigned self._errors[host]')
    chk.rule('C17.exhaust', 'NoHostAvailable(self._errors) is raised only after the plan loop is exhausted; success stores the stream id and stops')
    chk.rule('C17.attempted', 'attempted_hosts.append(host) follows a successful send_msg, before the stream id is returned')
    cl = chk.repo.mod(CLUSTER)

    ALLOWED = {'ResponseFuture._make_query_plan': 'plan from the policy or the single target', 'Session._on_analytics_master_result': 'analytics master targeting'}
    n = 0
    for st, tgt, f in attr_writes(cl, 'query_plan'):
        if not isinstance(st, ast.Assign):
            continue
        fq = qual_of(f)
        n += 1
        chk.judge(fq in ALLOWED, 'C17.writers', st, '%s writes query_plan' % fq, '%s replaces the query plan; only %s may' % (fq, sorted(ALLOWED)))
        v = st.value
        good = isinstance(v, ast.Call) and isinstance(v.func, ast.Name) and v.func.id == 'iter' and len(v.args) == 1
        chk.judge(good, 'C17.writers', st, '%s: query_plan = iter(...)' % fq,
                  'the plan is stored as returned (%s): if it is a list or tuple every later send_request() restarts at its first host - hosts already tried '
                  'are tried again and exhaustion is never reported' % src(v)[:70])
    written_by = set(qual_of(f) for st, tgt, f in attr_writes(cl, 'query_plan') if isinstance(st, ast.Assign))
    if not set(ALLOWED) <= written_by:
        raise AnalysisError('query_plan writers not found in %s' % sorted(set(ALLOWED) - written_by))
    mq = cl.func('ResponseFuture._make_query_plan')
    s = src(mq)
    chk.judge('self._load_balancer.make_query_plan(self.session.keyspace, self.query)' in s and 'if self._host' in s and '[self._host]' in s, 'C17.writers', mq,
              'plan = the single explicit target, else the policy\'s plan for (keyspace, query)', 'plan source changed')

    # consumers
    readers = []
    for q, f in cl.functions():
        for nd in body_walk(f):
            if isinstance(nd, ast.Attribute) and nd.attr == 'query_plan' and isinstance(nd.ctx, ast.Load):
                readers.append((q, nd))
    chk.judge(set(q for q, _ in readers) == set(['ResponseFuture.send_request']), 'C17.consumer', cl.func('ResponseFuture.send_request'),
              'only send_request reads query_plan', 'query_plan is also consumed by %s' % sorted(set(q for q, _ in readers) - set(['ResponseFuture.send_request'])))
    sr = cl.func('ResponseFuture.send_request')
    loops = [x for x in sr.body if isinstance(x, ast.For)]
    good = len(loops) == 1 and src(loops[0].iter) == 'self.query_plan' and src(loops[0].target) == 'host'
    chk.judge(good, 'C17.consumer', sr, 'for host in self.query_plan (no copy, no restart)', 'send_request no longer iterates the stored plan directly: %s' % [src(l.iter) for l in loops])

    # exhaustion
    g = CFG(sr)

    def step(node, c):
        return c
    fl = Flow(g, 0, step)
    nha = [nd for nd in g.stmt_nodes() if nd.kind == 'stmt' and 'NoHostAvailable(' in src(nd.ast)]
    if len(nha) != 1:
        raise AnalysisError('send_request: NoHostAvailable site not found')
    inloop = any(nha[0].ast in list(ast.walk(l)) for l in loops)
    call = [x for x in ast.walk(nha[0].ast) if isinstance(x, ast.Call) and src(x.func) == 'NoHostAvailable'][0]
    chk.judge(not inloop and len(call.args) == 2 and src(call.args[1]) == 'self._errors' and all(fa.knows('error_no_hosts') is True for fa, _ in fl.at(nha[0])),
              'C17.exhaust', nha[0].ast, 'NoHostAvailable(..., self._errors) after the loop, when error_no_hosts', 'exhaustion is reported from inside the loop or without the recorded errors')
    if loops:
        # decided on the paths of one iteration: the host is asked first; the stream id is stored (and the loop left) exactly when one was obtained; the
        # loop goes on to the next host only after this one gave no stream id
        lp = loops[0]
        inl = set(id(x) for x in ast.walk(lp))
        it_node = [n for n in g.nodes if n.kind == 'for_iter' and n.ast is lp]
        qn = [n for n in g.stmt_nodes() if n.kind == 'stmt' and id(n.ast) in inl and isinstance(n.ast, ast.Assign) and src(n.ast.value) == 'self._query(host)']
        good = len(qn) == 1 and len(it_node) == 1
        if good:
            rid = src(qn[0].ast.targets[0])
            first_stmt = [x for x, l_ in it_node[0].succ if l_ and l_[0] == 'iter'] or [x for x, l_ in it_node[0].succ]
            good = any(x is qn[0] for x in first_stmt)
            stores = [n for n in g.stmt_nodes() if n.kind == 'stmt' and id(n.ast) in inl and src(n.ast) == 'self._req_id = %s' % rid]
            good = good and len(stores) == 1 and all(fa.knows('%s is None' % rid) is False for fa, _c in fl.at(stores[0]))
            # every way back to the loop head (the next host) knows that no stream id was obtained
            back = [(p_, l_) for p_, l_ in g.preds()[it_node[0].id] if id(getattr(p_, 'ast', None)) in inl or p_.kind in ('test', 'stmt', 'join')]
            nexts_ok = True
            for n in g.nodes:
                for x, l_ in n.succ:
                    if x is it_node[0] and n is not g.entry and n.ast is not None and (id(n.ast) in inl):
                        sts = list(fl.at(n))
                        # facts after the edge: use the successor-state approximation of the predecessor node plus the edge label
                        for fa, _c in sts:
                            fa2 = fa.assume(l_[1], l_[0] == 'T') if (l_ is not None and l_[0] in ('T', 'F')) else fa
                            if fa2 is None:
                                continue
                            if fa2.knows('%s is None' % rid) is not True:
                                nexts_ok = False
            good = good and nexts_ok
            rets_in = [n for n in g.stmt_nodes() if n.kind == 'return' and id(n.ast) in inl]
            good = good and bool(rets_in) and all(src(n.ast.value) == 'True' for n in rets_in)
        chk.judge(good, 'C17.exhaust', lp, 'loop: req_id = _query(host) first; the id is stored and the loop left only with an id; the next host only without one',
                  'the plan loop no longer asks each host once and stops at the first stream id')
    # _query records why
    q = cl.func('ResponseFuture._query')
    g = CFG(q, may_raise=lambda nd: ['Exception'] if any(isinstance(x, ast.Call) and src(x.func) in ('pool.borrow_connection', 'connection.send_msg') for x in walk_no_nested(nd)) else [])

    def step_q(node, c):
        if node.ast is not None and node.kind == 'stmt' and isinstance(node.ast, ast.Assign):
            t = node.ast.targets[0]
            if isinstance(t, ast.Subscript) and src(t.value) == 'self._errors' and src(t.slice) == 'host':
                return True
        return c
    fl = Flow(g, False, step_q)
    bad = []
    for nd in g.stmt_nodes():
        if nd.kind == 'return' and (nd.ast.value is None or src(nd.ast.value) == 'None'):
            for fa, rec in fl.at(nd):
                if not rec:
                    bad.append((nd, (fa, rec)))
    chk.judge(not bad, 'C17.record', q, '_query: every return None has recorded self._errors[host]',
              'a host is skipped without recording why: %s' % (' | '.join(fl.witness(bad[0][0], bad[0][1])[-5:]) if bad else ''))
    # the two skip reasons
    s = src(q)
    borrows = [n for n in g.stmt_nodes() if n.ast is not None and any(isinstance(x, ast.Call) and src(x.func) == 'pool.borrow_connection' for x in walk_no_nested(n.ast))]
    if not borrows:
        raise AnalysisError('ResponseFuture._query: pool.borrow_connection not found')
    okb = all(fa.knows('pool') is True and fa.knows('pool.is_shutdown') is False for b_ in borrows for fa, _c in fl.at(b_))
    chk.judge(okb, 'C17.record', q, 'a connection is borrowed only from a pool that exists and is not shut down (both cases are skipped with a recorded reason)', 'pool state tests changed')
    # attempted hosts
    g2 = CFG(q)
    sends = [nd for nd in g2.stmt_nodes() if nd.kind == 'stmt' and 'connection.send_msg(' in src(nd.ast)]
    apps = [nd for nd in g2.stmt_nodes() if nd.kind == 'stmt' and src(nd.ast) == 'self.attempted_hosts.append(host)']
    good = len(sends) == 1 and len(apps) == 1 and any(s_ is apps[0] for s_, _ in sends[0].succ)
    rets = [nd for nd in g2.stmt_nodes() if nd.kind == 'return' and nd.ast.value is not None and src(nd.ast.value) == 'request_id']
    good = good and len(rets) == 1 and any(s_ is rets[0] for s_, _ in apps[0].succ)
    chk.judge(good, 'C17.attempted', q, 'send_msg -> attempted_hosts.append(host) -> return request_id', 'attempted host bookkeeping no longer follows the successful send')
    chk.judge('self._current_host = host' in s, 'C17.attempted', q, '_current_host records the host being tried', '_current_host no longer updated')

    # "never tries a host again unless a retry decision says so": the same-host retry falls through to the next host only when the re-send failed
    chk.rule('C17.retry', '_retry_task moves on to the next host only when the same-host re-send returned None (shared with C16)')
    chk.borrow('C16', {'C16.host': 'C17.retry'}, 'a successful same-host retry (stream id 0 is falsy) is followed by an unrequested attempt on the next host')
