"""C45 - shutdown releases every connection and stops accepting work (structure)."""
import ast
from .. import sem as _sem45

from ..core import AnalysisError, src, body_walk, walk_no_nested, parent, enclosing, enclosing_func, qual_of
from ..cfg import CFG, Flow
from ..locks import holds, held
from .c09 import attr_writes

CLUSTER = 'cassandra/cluster.py'
POOL = 'cassandra/pool.py'


def _latch(chk, f, flag, lock):
    """with <lock>: if <flag>: return / else: <flag> = True   as the first effect of shutdown()"""
    ws = [n for n in body_walk(f) if isinstance(n, ast.Assign) and src(n.targets[0]) == flag]
    ok = len(ws) == 1 and src(ws[0].value) == 'True' and holds(ws[0], tuple(lock.split('.')[:-1]), lock.split('.')[-1])
    if ok:
        g = CFG(f)
        fl = Flow(g, 0, lambda n, c: c)
        node = [n for n in g.stmt_nodes() if n.ast is ws[0]]
        ok = len(node) == 1 and all(fa.knows(flag) is False for fa, _ in fl.at(node[0]))
        # every path on which the flag was already set returns without doing anything else
        rets = [n for n in g.nodes if n.kind == 'return' and any(fa.knows(flag) is True for fa, _ in fl.at(n))]
        ok = ok and len(rets) >= 1
    chk.judge(ok, 'C45.latch', f, 'test-and-set of %s under %s' % (flag, lock), 'shutdown is no longer an idempotent test-and-set under its lock')
    return ws[0] if ws else None


def _must_follow(chk, f, after, calls, rid):
    """each call text in `calls` occurs as a top-level statement (or top-level loop body statement) of f after statement `after`."""
    top = list(f.body)
    i0 = 0
    for i, st in enumerate(top):
        if any(x is after for x in ast.walk(st)):
            i0 = i
    tail = top[i0 + 1:]
    for want, desc in calls:
        hit = False
        for st in tail:
            if isinstance(st, ast.Expr) and src(st) == want:
                hit = True
            elif isinstance(st, ast.For) and any(isinstance(b, ast.Expr) and src(b) == want for b in st.body):
                hit = (st.iter, want)
                hit = True
            elif isinstance(st, ast.If) and not st.orelse and any(isinstance(b, ast.Expr) and src(b) == want for b in st.body) and desc.startswith('if-set'):
                hit = True
        chk.judge(hit, rid, f, '%s after the latch: %s' % (want, desc), 'shutdown no longer reaches %s unconditionally' % want)


def check(chk):
    chk.decides = ('the three shutdown latches are test-and-set under their lock; after the latch Cluster.shutdown stops the heartbeat and scheduler, shuts down the control '
                   'connection, every session and the executor; Session.shutdown cancels/awaits the initial connects and shuts down every pool; ControlConnection.shutdown '
                   'cancels its reconnection handler and closes its connection; every place in cluster.py that installs a freshly created connection or pool into '
                   'long-lived state tests the shutdown flag under the latch\'s own lock and closes the new object when set; every other created connection is closed in '
                   'a finally / error arm; the gates through which new work is started (connect, submit, scheduler, node events, reconnect) refuse once the flag is set')
    chk.does_not_decide = 'pool-internal replacement (C12); schedules as such: the rules are the lock/ordering conditions that make every interleaving safe'
    chk.rule('C45.latch', 'shutdown(): with lock: if flag: return; flag = True')
    chk.rule('C45.cascade', 'after the latch the owned resources are shut down unconditionally')
    chk.rule('C45.publish', 'installing a new connection/pool: inside the latch lock, dominated by flag False; on flag True the new object is closed')
    chk.rule('C45.created', 'every connection_factory()/_try_connect()/_reconnect_internal() result is installed through the guarded installer, returned to such a caller, or closed on all paths')
    chk.rule('C45.refuse', 'gates refuse after shutdown: Cluster.connect raises; submit/_submit/_insert_task drop; on_up/on_down/on_add/on_remove/connect/reconnect return first thing')
    cl = chk.repo.mod(CLUSTER)
    csd = cl.func('Cluster.shutdown')
    w = _latch(chk, csd, 'self.is_shutdown', 'self._lock')
    _must_follow(chk, csd, w, [('self._idle_heartbeat.stop()', 'if-set: heartbeat thread'), ('self.scheduler.shutdown()', 'scheduler'), ('self.control_connection.shutdown()', 'control connection'),
                               ('session.shutdown()', 'every session'), ('self.executor.shutdown()', 'executor')], 'C45.cascade')
    loops = [st for st in csd.body if isinstance(st, ast.For) and any(src(b) == 'session.shutdown()' for b in st.body)]
    chk.judge(len(loops) == 1 and src(loops[0].iter) in ('tuple(self.sessions)', 'list(self.sessions)', 'self.sessions'), 'C45.cascade', csd, 'loop covers self.sessions', 'session loop changed')
    ssd = cl.func('Session.shutdown')
    w = _latch(chk, ssd, 'self.is_shutdown', 'self._lock')
    _must_follow(chk, ssd, w, [('future.cancel()', 'initial connects not yet started'), ('wait_futures(self._initial_connect_futures)', 'initial connects in progress'), ('pool.shutdown()', 'every pool')], 'C45.cascade')
    loops = [st for st in ssd.body if isinstance(st, ast.For) and any(src(b) == 'pool.shutdown()' for b in st.body)]
    chk.judge(len(loops) == 1 and src(loops[0].iter) in ('tuple(self._pools.values())', 'list(self._pools.values())'), 'C45.cascade', ssd, 'loop covers self._pools.values()', 'pool loop changed')
    ccsd = cl.func('ControlConnection.shutdown')
    w = _latch(chk, ccsd, 'self._is_shutdown', 'self._lock')
    s = src(ccsd)
    # the receiver may be the attribute itself or a local that was loaded from it (resolved through single assignments)
    from ..sem import resolve as _res45

    def _calls_on(attr, meth):
        return [n for n in body_walk(ccsd) if isinstance(n, ast.Call) and isinstance(n.func, ast.Attribute) and n.func.attr == meth and src(_res45(ccsd, n.func.value)) == attr]
    closes = _calls_on('self._connection', 'close')
    cancels = _calls_on('self._reconnection_handler', 'cancel')
    chk.judge(len(closes) == 1 and holds(closes[0], ('self',), '_lock') and len(cancels) == 1 and holds(cancels[0], ('self',), '_reconnection_lock'), 'C45.cascade', ccsd,
              'reconnection handler cancelled; current connection closed inside the latch lock', 'control connection shutdown no longer closes its connection / cancels reconnection')
    # publish sites
    snc = cl.func('ControlConnection._set_new_connection')
    pubs = [(st, f) for st, t, f in attr_writes(cl, '_connection') if qual_of(f).startswith('ControlConnection.') and isinstance(st, ast.Assign) and not (isinstance(st.value, ast.Constant) and st.value.value is None)]
    good = len(pubs) == 1 and pubs[0][1] is snc
    chk.judge(good, 'C45.publish', snc, 'ControlConnection._connection is installed only by _set_new_connection', 'another function installs a control connection: %s' % [qual_of(f) for _, f in pubs])
    _publish(chk, snc, lambda st: isinstance(st, ast.Assign) and src(st.targets[0]) == 'self._connection', 'self._is_shutdown', ('self',), '_lock', 'conn.close()')
    arp = cl.func('Session.add_or_renew_pool')
    inner = [n for n in ast.walk(arp) if isinstance(n, ast.FunctionDef) and n.name == 'run_add_or_renew_pool']
    if len(inner) != 1:
        raise AnalysisError('run_add_or_renew_pool not found')
    pw = [st for st in ast.walk(cl.tree) if isinstance(st, ast.Assign) and isinstance(st.targets[0], ast.Subscript) and isinstance(st.targets[0].value, ast.Attribute) and st.targets[0].value.attr == '_pools']
    chk.judge(len(pw) == 1 and any(pw[0] is x for x in ast.walk(inner[0])), 'C45.publish', arp, 'Session._pools[...] is assigned only in run_add_or_renew_pool', 'another function publishes a pool')
    _publish(chk, inner[0], lambda st: isinstance(st, ast.Assign) and src(st.targets[0]) == 'self._pools[host]', 'self.is_shutdown', ('self',), '_lock', 'new_pool.shutdown()')
    # pools: a replacement / additional connection that finishes connecting after the pool was shut down (same rule; C12 looks at the pools in more depth)
    pl = chk.repo.mod(POOL)
    _publish(chk, pl.func('HostConnection._replace'), lambda st: isinstance(st, ast.Assign) and src(st.targets[0]) == 'self._connection' and src(st.value) == 'conn', 'self.is_shutdown', ('self',), '_lock', 'conn.close()')
    _publish(chk, pl.func('HostConnectionPool._add_conn_if_under_max'), lambda st: isinstance(st, ast.Assign) and src(st.targets[0]) == 'self._connections' and src(st.value) == 'new_connections', 'self.is_shutdown', ('self',), '_lock', 'conn.close()')
    # created connections
    n_sites = 0
    for q, f in cl.functions():
        for c in body_walk(f):
            if not isinstance(c, ast.Call):
                continue
            fn = src(c.func)
            if fn in ('self.connection_factory', 'self._cluster.connection_factory'):
                n_sites += 1
                st = parent(c)
                if not (isinstance(st, ast.Assign) and isinstance(st.targets[0], ast.Name)):
                    chk.viol('C45.created', c, src(c)[:60], 'created connection is not bound to a local name')
                    continue
                var = st.targets[0].id
                if q == 'ControlConnection._try_connect':
                    # returned on success; closed when anything after creation raises
                    trys = [t for t in body_walk(f) if isinstance(t, ast.Try) and any(src(h.type) == 'Exception' and [src(x) for x in h.body] == ['%s.close()' % var, 'raise'] for h in t.handlers if h.type is not None)]
                    rets = [r for r in body_walk(f) if isinstance(r, ast.Return) and r.value is not None]
                    # everything after the creation loop is inside that try
                    loop = enclosing(c, ast.While)
                    after = f.body[f.body.index(loop) + 1:] if loop in f.body else None
                    ok = len(trys) == 1 and [src(r.value) for r in rets] == [var] and after is not None and \
                        all(isinstance(x, ast.Try) and x is trys[0] or (isinstance(x, (ast.Expr, ast.Assign, ast.Return)) and not _may_raise_call(x)) for x in after)
                    chk.judge(ok, 'C45.created', c, '_try_connect: connection returned on success, closed if setup raises', 'a control connection can escape unclosed when its setup fails')
                elif q.startswith('ControlConnection._') and _only_called_from(cl, q, 'ControlConnection._try_connect') and \
                        any(isinstance(r_, ast.Return) and r_.value is not None and src(r_.value) == var for r_ in body_walk(f)):
                    # the negotiation loop moved into a private helper of _try_connect: the helper returns the connection or closes it before it raises,
                    # and _try_connect treats the helper's result as _try_connect treats a connection it created itself
                    from ..cfg import CFG as _CFG45, Flow as _Flow45
                    gh_ = _CFG45(f, may_raise=lambda n_: ['Exception'] if any(isinstance(x_, ast.Call) for x_ in walk_no_nested(n_)) else [])

                    def _edge_h(n_, s_, lab_, c_, var=var, call=c):
                        if lab_ is not None and lab_[0] == 'exc':
                            if n_.ast is not None and any(isinstance(x_, ast.Call) and src(x_.func) == '%s.close' % var for x_ in walk_no_nested(n_.ast)):
                                return 'closed'                         # close() itself failing: nothing more can be done for this connection
                            return c_                                   # the statement that raised had no effect (a failed creation created nothing)
                        if n_.kind == 'stmt' and n_.ast is not None:
                            if any(x_ is call for x_ in ast.walk(n_.ast)):
                                return 'open'
                            if any(isinstance(x_, ast.Call) and src(x_.func) == '%s.close' % var for x_ in walk_no_nested(n_.ast)):
                                return 'closed'
                        return c_
                    fh_ = _Flow45(gh_, 'none', lambda n_, c_: c_, edge=_edge_h)
                    leak = [st_ for st_ in fh_.at(gh_.raise_exit) if st_[1] == 'open']
                    # an exception raised by a statement after the creation, other than the deliberate raise after close(): only calls on the connection itself could raise there
                    risky = [n_ for n_ in gh_.stmt_nodes() if n_.kind == 'stmt' and any(isinstance(x_, ast.Call) and src(x_.func) not in ('%s.close' % var,) and x_ is not c
                                                                                         and not src(x_.func).startswith(('log.', 'self._cluster.protocol_downgrade', 'DriverException'))
                                                                                         for x_ in walk_no_nested(n_.ast)) and any(cc == 'open' for _f, cc in fh_.at(n_))]
                    tcf = cl.func('ControlConnection._try_connect')
                    asg_ = [st_ for st_ in tcf.body if isinstance(st_, ast.Assign) and isinstance(st_.value, ast.Call) and src(st_.value.func) == 'self.' + q.split('.')[-1]
                            and isinstance(st_.targets[0], ast.Name)]
                    okh = not risky and not leak and len(asg_) == 1
                    if okh:
                        v2 = asg_[0].targets[0].id
                        trys = [t for t in body_walk(tcf) if isinstance(t, ast.Try) and any(src(h.type) == 'Exception' and [src(x) for x in h.body] == ['%s.close()' % v2, 'raise'] for h in t.handlers if h.type is not None)]
                        rets = [r for r in body_walk(tcf) if isinstance(r, ast.Return) and r.value is not None]
                        after = tcf.body[tcf.body.index(asg_[0]) + 1:]
                        okh = len(trys) == 1 and [src(r.value) for r in rets] == [v2] and \
                            all(isinstance(x, ast.Try) and x is trys[0] or (isinstance(x, (ast.Expr, ast.Assign, ast.Return)) and not _may_raise_call(x)) for x in after)
                    chk.judge(okh, 'C45.created', c, '%s (helper of _try_connect): connection returned, or closed before an exception leaves; _try_connect closes it if setup raises' % q,
                              'a control connection can escape unclosed (%s)' % ('a statement of the helper can raise while the connection is open: %s' % [src(n_.ast)[:50] for n_ in risky] if risky
                                                                                 else '_try_connect does not guard the helper\'s result'))
                else:
                    fin = [t for t in body_walk(f) if isinstance(t, ast.Try) and any(c is x for b in t.body for x in ast.walk(b)) and
                           any(isinstance(x, ast.If) and src(x.test) == var and [src(y) for y in x.body] == ['%s.close()' % var] for x in t.finalbody)]
                    chk.judge(len(fin) == 1, 'C45.created', c, '%s: temporary connection closed in finally' % q, 'temporary connection is not closed on all paths')
            elif fn in ('self._try_connect', 'self._reconnect_internal', 'self.control_connection._reconnect_internal'):
                n_sites += 1
                p = parent(c)
                ok = isinstance(p, ast.Return) or (isinstance(p, ast.Call) and src(p.func) == 'self._set_new_connection' and p.args[0] is c)
                chk.judge(ok, 'C45.created', c, '%s: %s(...) result returned or handed to _set_new_connection' % (q, fn), 'a freshly connected control connection is neither installed through the guarded installer nor returned')
    if n_sites < 5:
        raise AnalysisError('connection creation sites: expected at least 5, found %d' % n_sites)
    orh = cl.func('_ControlReconnectionHandler.on_reconnection')
    chk.judge([src(x) for x in orh.body] == ['self.control_connection._set_new_connection(connection)'], 'C45.created', orh, 'reconnection handler installs through _set_new_connection', 'handler installs differently')
    # gates
    cc = cl.func('Cluster.connect')
    g = CFG(cc)
    fl = Flow(g, 0, lambda n, c: c)
    first = [st for st in cc.body if not (isinstance(st, ast.Expr) and isinstance(st.value, ast.Constant))][0]
    ok = isinstance(first, ast.With) and src(first.items[0].context_expr) == 'self._lock' and isinstance(first.body[0], ast.If) and src(first.body[0].test) == 'self.is_shutdown' \
        and isinstance(first.body[0].body[0], ast.Raise)
    chk.judge(ok, 'C45.refuse', cc, 'Cluster.connect raises when shut down (under the latch lock, before anything else)', 'connect on a shut down cluster proceeds')
    for q, flag in (('Cluster.on_up', 'self.is_shutdown'), ('Cluster.on_down', 'self.is_shutdown'), ('Cluster.on_add', 'self.is_shutdown'), ('Cluster.on_remove', 'self.is_shutdown'),
                    ('ControlConnection.connect', 'self._is_shutdown'), ('ControlConnection.reconnect', 'self._is_shutdown')):
        f = cl.func(q)
        body = [st for st in f.body if not (isinstance(st, ast.Expr) and isinstance(st.value, ast.Constant))]
        ok = isinstance(body[0], ast.If) and src(body[0].test) == flag and isinstance(body[0].body[0], ast.Return) and body[0].body[0].value is None
        chk.judge(ok, 'C45.refuse', f, '%s returns first thing when shut down' % q, '%s acts after shutdown' % q)
    for q, flag, act in (('Session.submit', 'self.is_shutdown', 'self.cluster.executor.submit'), ('ControlConnection._submit', 'self._cluster.is_shutdown', 'self._cluster.executor.submit'),
                         ('_Scheduler._insert_task', 'self.is_shutdown', 'self._queue.put_nowait')):
        f = cl.func(q)
        g = CFG(f)
        fl = Flow(g, 0, lambda n, c: c)
        acts = [n for n in g.nodes if n.kind in ('stmt', 'return') and any(isinstance(x, ast.Call) and src(x.func) == act for x in walk_no_nested(n.ast))]
        ok = len(acts) == 1 and all(fa.knows(flag) is False for fa, _ in fl.at(acts[0]))
        chk.judge(ok, 'C45.refuse', f, '%s: %s only when not shut down' % (q, act), 'work is accepted after shutdown')
    ri = cl.func('ControlConnection._reconnect_internal')
    loop = [n for n in ri.body if isinstance(n, ast.For)]
    ok = len(loop) == 1 and isinstance(loop[0].body[-1], ast.If) and src(loop[0].body[-1].test) == 'self._is_shutdown' and isinstance(loop[0].body[-1].body[0], ast.Raise)
    chk.judge(ok, 'C45.refuse', ri, 'no further host is tried once shut down', 'control reconnection keeps trying hosts after shutdown')
    ssh = cl.func('_Scheduler.shutdown')
    ok = 'self.is_shutdown = True' in src(ssh) and 'self.join()' in src(ssh)
    run = cl.func('_Scheduler.run')
    g = CFG(run)
    fl = Flow(g, 0, lambda n, c: c)
    subs = [n for n in g.stmt_nodes() if n.kind == 'stmt' and 'self._executor.submit(' in src(n.ast)]
    ok = ok and len(subs) == 1 and all(fa.knows('self.is_shutdown') is False for fa, _ in fl.at(subs[0]))
    chk.judge(ok, 'C45.refuse', run, 'scheduler: a dequeued task is not executed after shutdown', 'scheduled tasks run after shutdown')

    # a session is the largest thing a cluster opens: connect() tests the flag before it builds one, and must look again afterwards,
    # because shutdown() can sweep `sessions` in between
    chk.rule('C45.session', 'Cluster.connect re-tests is_shutdown under the cluster lock after the session exists and shuts the session down when the cluster was shut down meanwhile')
    cl_m = chk.repo.mod('cassandra/cluster.py')
    cn = cl_m.func('Cluster.connect')
    ns = cl_m.func('Cluster._new_session')
    created_at = [n for n in body_walk(cn) if isinstance(n, ast.Call) and src(n.func) == 'self._new_session']
    if len(created_at) != 1:
        raise AnalysisError('Cluster.connect: session creation not found')
    line0 = created_at[0].lineno
    ok_ = False
    for f_ in (cn, ns):
        for w in [x for x in body_walk(f_) if isinstance(x, ast.With) and any(src(i.context_expr) == 'self._lock' for i in x.items)]:
            if f_ is cn and w.lineno < line0:
                continue
            reads = [a for a in ast.walk(w) if isinstance(a, ast.Attribute) and a.attr == 'is_shutdown' and src(a.value) == 'self']
            if reads and any(isinstance(c_, ast.Call) and isinstance(c_.func, ast.Attribute) and c_.func.attr == 'shutdown' and src(c_.func.value) == 'session'
                             for c_ in body_walk(f_) if getattr(c_, 'lineno', 0) > w.lineno):
                ok_ = True
    chk.judge(ok_, 'C45.session', cn, 'connect(): after _new_session, is_shutdown is read again under self._lock and the new session is shut down when set',
              'the only test of is_shutdown is before the session is built: a shutdown() that runs in between sweeps an empty `sessions`, and the session created '
              'afterwards - with its pools and connections - is returned to the caller and never closed')

    _handler_rule(chk)
    _removed_pool_rule(chk)


def _may_raise_call(st):
    return any(isinstance(x, ast.Call) and not src(x.func).startswith('log.') and src(x.func) not in ('weakref.ref', 'partial', 'weakref.proxy') for x in ast.walk(st))


def _publish(chk, f, is_pub, flag, lock_recv, lockname, close_text):
    g = CFG(f)
    # the shutdown flag is shared state: what was read in an earlier critical section says nothing once the lock is taken again
    fl = Flow(g, 0, lambda n, c: c, volatile=lambda k: flag in k)
    pubs = [n for n in g.stmt_nodes() if n.kind == 'stmt' and is_pub(n.ast)]
    if len(pubs) != 1:
        raise AnalysisError('%s: one publication site expected, found %d' % (qual_of(f), len(pubs)))
    p = pubs[0]
    tests = [n for n in g.nodes if n.kind == 'test' and src(n.ast) == flag and holds(n.ast, lock_recv, lockname)]
    ok = holds(p.ast, lock_recv, lockname) and all(fa.knows(flag) is False for fa, _ in fl.at(p))
    # the test and the publication are in the same lock region instance (no release between them)
    same = False
    if ok and tests:
        rp = [w for l, w in held(p.ast) if l == tuple(lock_recv) + (lockname,)]
        same = any(any(w is w2 for l2, w2 in held(t.ast)) for t in tests for w in rp)
        between = False
        if same:
            # no explicit release between test and publication
            blk = parent(p.ast)
            sib = blk.body if p.ast in getattr(blk, 'body', []) else getattr(blk, 'orelse', [])
            i = sib.index(p.ast)
            for st in sib[:i]:
                if any(n.ast is x for n in tests for x in ast.walk(st)):
                    between = False
                elif any(isinstance(x, ast.Call) and src(x.func).endswith('%s.release' % lockname) for x in ast.walk(st)):
                    between = True
        same = same and not between
    chk.judge(ok and same, 'C45.publish', p.ast, '%s: `%s` under %s.%s and dominated by `not %s` tested in the same critical section' % (qual_of(f), src(p.ast), '.'.join(lock_recv), lockname, flag),
              'a connection/pool that finished connecting after shutdown() is installed into state that shutdown() already swept: it stays open forever')
    cl = [n for n in g.stmt_nodes() if n.kind == 'stmt' and src(n.ast) == close_text and all(fa.knows(flag) is True for fa, _ in fl.at(n)) and
          any(n.ast is x for t in tests for x in ast.walk(parent(t.ast) if not isinstance(t.ast, ast.If) else t.ast))]
    closes = [n for n in g.stmt_nodes() if n.kind == 'stmt' and src(n.ast) == close_text and fl.at(n) and all(fa.knows(flag) is True for fa, _ in fl.at(n))]
    chk.judge(len(closes) >= 1, 'C45.publish', f, '%s: shut down -> %s' % (qual_of(f), close_text), 'the object created during shutdown is dropped without being closed')


def _removed_pool_rule(chk):
    """a pool that leaves Session._pools is out of reach of Session.shutdown()'s sweep: whoever removed it shuts it down - directly, or through submit when
    submit accepted the task (submit answers None once the session is shut down)"""
    chk.rule('C45.removed', 'Session.remove_pool: the popped pool is shut down on every path (pool.shutdown() itself when submit(...) returned None)')
    cl = chk.repo.mod('cassandra/cluster.py')
    rp = cl.func('Session.remove_pool')
    sub = cl.func('Session.submit')
    declines = any(isinstance(n, ast.If) and 'is_shutdown' in src(n.test) for n in body_walk(sub))
    pops = [st for st in body_walk(rp) if isinstance(st, ast.Assign) and isinstance(st.value, ast.Call) and src(st.value.func) == 'self._pools.pop']
    if len(pops) != 1:
        raise AnalysisError('Session.remove_pool: self._pools.pop not found')
    pv = src(pops[0].targets[0])
    g, fl = _sem45.flow_of(rp)
    submits = [n for n in g.stmt_nodes() if n.kind in ('stmt', 'return') and any(isinstance(c, ast.Call) and src(c.func) == 'self.submit' and c.args and src(c.args[0]) == '%s.shutdown' % pv for c in ast.walk(n.ast))]
    directs = [n for n in g.stmt_nodes() if n.kind == 'stmt' and isinstance(n.ast, ast.Expr) and src(n.ast.value) == '%s.shutdown()' % pv]
    ok = bool(submits)
    if declines:
        # some path after a declined submit reaches the direct shutdown: the submit result is kept and tested for None
        kept = [n for n in submits if isinstance(n.ast, ast.Assign)]
        ok = ok and bool(kept) and bool(directs) and all(all(fa.knows('%s is None' % src(kept[0].ast.targets[0])) is True for fa, _c in fl.at(d)) for d in directs)
    chk.judge(ok, 'C45.removed', rp, 'remove_pool: submit(pool.shutdown), and pool.shutdown() when the task was not accepted',
              'the pool is popped and its shutdown only submitted: Session.submit does nothing once the session is shut down, and shutdown()\'s sweep no longer sees the pool - a host going '
              'down (or up, or being removed) while the session shuts down leaves that pool\'s connections open')


def _handler_rule(chk):
    """_ReconnectionHandler.run: the connection try_reconnect() returned is closed on every path that leaves run() (the host handler's probe
    connection; for the control handler on_reconnection has taken what it needs), including the cancelled one"""
    chk.rule('C45.handler', '_ReconnectionHandler.run closes the connection returned by try_reconnect() on every path out of run(), also when the handler was cancelled meanwhile')
    chk.rule('C45.ctor', 'a pool whose constructor fails is never registered with the session: the constructor closes the connections it opened (shared with C12)')
    chk.borrow('C12', {'C12.ctor': 'C45.ctor'}, 'the connection was opened on behalf of the session, but no shutdown - the pool\'s or the session\'s - ever sees it')
    pool = chk.repo.mod('cassandra/pool.py')
    run = pool.func('_ReconnectionHandler.run')
    g = CFG(run)
    gets = [n for n in g.stmt_nodes() if n.kind == 'stmt' and isinstance(n.ast, ast.Assign) and isinstance(n.ast.value, ast.Call) and src(n.ast.value.func) == 'self.try_reconnect']
    if len(gets) != 1:
        raise AnalysisError('_ReconnectionHandler.run: conn = self.try_reconnect() not found')
    var = src(gets[0].ast.targets[0])

    def closes(n):
        return n.kind == 'stmt' and any(isinstance(c, ast.Call) and src(c.func) == '%s.close' % var for c in ast.walk(n.ast))
    seen, work, leaks = set(), [(x, l) for x, l in gets[0].succ if not (l and l[0] == 'exc')], []
    while work:
        n, lab = work.pop()
        if n.id in seen or closes(n):
            continue
        seen.add(n.id)
        if n.kind in ('exit', 'raise'):
            leaks.append(n)
            continue
        for x, l2 in n.succ:
            # `if conn:` - after a successful try_reconnect the name is bound to a connection
            if n.kind == 'test' and src(n.ast) == var and l2 and l2[0] == 'F':
                continue
            if n.kind == 'test' and src(n.ast) == 'not %s' % var and l2 and l2[0] == 'T':
                continue
            work.append((x, l2))
    chk.judge(not leaks, 'C45.handler', gets[0].ast, 'every path from a successful try_reconnect() out of run() passes %s.close()' % var,
              'a path leaves run() with the freshly opened connection still open (e.g. the handler was cancelled by shutdown() while try_reconnect() was connecting): '
              'nobody else holds that connection, it stays open after the cluster is shut down')


def _only_called_from(mod, q, caller):
    name = q.split('.')[-1]
    callers = set(qual_of(c_) for c_ in ast.walk(mod.tree) if isinstance(c_, ast.Call) and isinstance(c_.func, ast.Attribute) and c_.func.attr == name and src(c_.func.value) == 'self')
    return callers == set([caller])
