"""C08 - partition tokens equal those of Cassandra's partitioners (narrow: table agreement with the reference algorithm)."""
import ast
import importlib.util
import os

from ..core import AnalysisError, VERIF, src, body_walk, parent
from ..fold import Folder, Unfoldable
from .c07 import c_facts, CMURMUR, MURMUR

META = 'cassandra/metadata.py'


def load_ref():
    p = os.path.join(VERIF, 'spec', 'murmur3.py')
    sp = importlib.util.spec_from_file_location('verif_spec_murmur3', p)
    m = importlib.util.module_from_spec(sp)
    sp.loader.exec_module(m)
    return m


def py_facts(pm, folder):
    """the same fact table as c07.c_facts, read from murmur3.py"""
    f = pm.func('_murmur3')
    out = {}
    for st in f.body:
        if isinstance(st, ast.Assign) and isinstance(st.targets[0], ast.Name) and st.targets[0].id in ('c1', 'c2'):
            out[st.targets[0].id] = folder.eval(st.value) % 2 ** 64
    out['rot'] = [(src(n.targets[0]), folder.eval(n.value.args[1])) for n in body_walk(f)
                  if isinstance(n, ast.Assign) and isinstance(n.value, ast.Call) and src(n.value.func) == 'rotl64' and src(n.value.args[0]) == src(n.targets[0])]
    out['mix'] = [(src(n.targets[0]), folder.eval(n.value.left.right), folder.eval(n.value.right)) for n in body_walk(f)
                  if isinstance(n, ast.Assign) and isinstance(n.value, ast.BinOp) and isinstance(n.value.op, ast.Add) and isinstance(n.value.left, ast.BinOp)
                  and isinstance(n.value.left.op, ast.Mult) and src(n.value.left.left) == src(n.targets[0])]
    return out


def check(chk):
    chk.decides = ('murmur3.py and cmurmur3.c each carry the reference algorithm\'s constants, rotation amounts, block-mix and fmix constants, logical 33-bit shifts, the tail '
                   '(byte, shift) table for every tail length 0..15 with sign-extended tail bytes, seed 0, the finalisation order and the wrap to a signed 64-bit value; '
                   'multiplications use the full constants (not reduced copies); Murmur3Token maps exactly MIN_LONG to MAX_LONG (folded over boundary values); MD5Token is the '
                   'absolute value of the digest read as a signed big-endian integer; BytesToken keeps the raw key; partitioner names select these token classes')
    chk.does_not_decide = 'equality of the computed hash with Cassandra\'s for all keys as an arithmetic fact (the rules pin every constant and structural choice of the algorithm instead)'
    chk.rule('C08.const', 'constants / rotations / mix / fmix tables equal the reference table (Python and C)')
    chk.rule('C08.tail', 'tail bytes: signed, exactly the reference (register, index, shift) set for each tail length; blocks little-endian signed 64-bit pairs')
    chk.rule('C08.final', 'finalisation sequence, seed, wrap to signed 64 bits, rotl64 / fmix masks')
    chk.rule('C08.token', 'Murmur3Token.hash_fn normalises MIN_LONG only; MD5Token = abs(varint_unpack(md5(key).digest())); BytesToken = key; partitioner -> token class table')
    ref = load_ref()
    repo = chk.repo
    pm_cur = repo.mod(MURMUR)
    # the Python implementation is compared, as an expression tree per key length, with the reference source spec/murmur3_reference.py; the structural
    # rules below (constants, rotations, tail table, finalisation ...) tie that reference - and the C source - to the specification table
    from .. import murmur as _mm
    pm = _mm.reference_module()
    chk.rule('C08.terms', 'murmur3.py computes, for every key length 0..48, the same expression over the blocks and tail bytes as the reference source (helpers followed, constants folded); '
                          'rotl64 / fmix / truncate_int64 agree with the reference on sample values')
    bad_len, bad_op, tc_, tr_ = _mm.compare(pm_cur, pm)
    chk.judge(not bad_len, 'C08.terms', pm_cur.func('_murmur3'), '_murmur3: same expression as the reference for key lengths 0..48',
              'the hash expression differs from the reference for key lengths %s; first difference (current <> reference): %s' %
              (bad_len[:8], _mm.first_difference(tc_[bad_len[0]], tr_[bad_len[0]]) if bad_len else ''))
    chk.judge(not bad_op, 'C08.terms', pm_cur.func('fmix'), 'rotl64 / fmix / truncate_int64: same values as the reference on %d samples' % (len(_mm.SAMPLES_X) * (2 + len(_mm.SAMPLES_R))),
              'operator results differ from the reference for %s' % (bad_op[:3],))
    folder = Folder(pm)
    f = pm.func('_murmur3')
    try:
        pf = py_facts(pm, folder)
        cf = c_facts(repo.read(CMURMUR))
    except (Unfoldable, ValueError) as e:
        raise AnalysisError('murmur3 sources not in the recognised form: %s' % e)
    for side, facts, loc in (('murmur3.py', pf, f), ('cmurmur3.c', cf, (CMURMUR, 'MurmurHash3_x64_128', 0))):
        chk.judge(facts.get('c1') == ref.C1 and facts.get('c2') == ref.C2, 'C08.const', loc, '%s: c1, c2 equal the reference (mod 2**64)' % side, '%s: c1/c2 are %s / %s' % (side, facts.get('c1'), facts.get('c2')))
        chk.judge(facts['rot'] == ref.ROTATIONS, 'C08.const', loc, '%s: rotations %s' % (side, facts['rot']), '%s: rotation amounts %s differ from the reference %s' % (side, facts['rot'], ref.ROTATIONS))
        chk.judge(facts['mix'] == ref.BLOCK_MIX, 'C08.const', loc, '%s: block mix h*5+c' % side, '%s: block mix %s differs from %s' % (side, facts['mix'], ref.BLOCK_MIX))
    fm = pm.func('fmix')
    pconst = [folder.eval(n.value) for n in body_walk(fm) if isinstance(n, ast.AugAssign) and isinstance(n.op, ast.Mult)]
    xors = [n for n in body_walk(fm) if isinstance(n, ast.AugAssign) and isinstance(n.op, ast.BitXor)]
    shape = []
    for n in xors:
        v = n.value
        if isinstance(v, ast.BinOp) and isinstance(v.op, ast.BitAnd) and isinstance(v.left, ast.BinOp) and isinstance(v.left.op, ast.RShift) and src(v.left.left) == src(n.target):
            shape.append((folder.eval(v.left.right), folder.eval(v.right)))
        else:
            shape.append(('?', src(v)))
    ok = pconst == ref.FMIX_MULTIPLIERS and shape == [(s, 2 ** (64 - s) - 1) for s in ref.FMIX_SHIFTS]
    chk.judge(ok, 'C08.const', fm, 'fmix (Python): multipliers and logical shifts (arithmetic >> s masked to the 64-s surviving bits)', 'fmix differs: multipliers %s, (shift, mask) %s' % (pconst, shape))
    chk.judge(cf['fmix_consts'] == ref.FMIX_MULTIPLIERS and cf['fmix_shifts'] == ref.FMIX_SHIFTS, 'C08.const', (CMURMUR, 'fmix', 0), 'fmix (C): multipliers and unsigned shifts', 'C fmix differs')
    # the multiplications use the named constants
    muls = [(src(n.target), src(n.value)) for n in body_walk(f) if isinstance(n, ast.AugAssign) and isinstance(n.op, ast.Mult)]
    chk.judge(muls == [('k1', 'c1'), ('k1', 'c2'), ('k2', 'c2'), ('k2', 'c1'), ('k2', 'c2'), ('k2', 'c1'), ('k1', 'c1'), ('k1', 'c2')], 'C08.const', f, 'k *= c order: block (k1:c1,c2; k2:c2,c1), tail (k2:c2,c1; k1:c1,c2)', 'multiplication order differs: %s' % muls)
    xs = [(src(n.target), src(n.value)) for n in body_walk(f) if isinstance(n, ast.AugAssign) and isinstance(n.op, ast.BitXor) and src(n.target) in ('h1', 'h2')]
    chk.judge(xs == [('h1', 'k1'), ('h2', 'k2'), ('h2', 'k2'), ('h1', 'k1'), ('h1', 'total_len'), ('h2', 'total_len')], 'C08.const', f, 'h ^= k / h ^= length sequence', 'xor sequence differs: %s' % xs)
    adds = [(src(n.target), src(n.value)) for n in body_walk(f) if isinstance(n, ast.AugAssign) and isinstance(n.op, ast.Add)]
    chk.judge(adds == [('h1', 'h2'), ('h2', 'h1'), ('h1', 'h2'), ('h2', 'h1'), ('h1', 'h2')], 'C08.const', f, 'h1 += h2 / h2 += h1 sequence (block, finalisation)', 'addition sequence differs: %s' % adds)
    # tail
    loops = [n for n in f.body if isinstance(n, ast.If) and 'len_tail' in src(n.test)]
    if len(loops) != 2:
        raise AnalysisError('_murmur3: two tail blocks expected')
    bad = []
    operands = set()
    for L in range(0, 16):
        got = set()
        for blk in loops:
            try:
                if not folder.eval(blk.test, env={'len_tail': L}):
                    continue
                fl = [n for n in blk.body if isinstance(n, ast.For)]
                if len(fl) != 1:
                    raise AnalysisError('_murmur3: tail block without a single loop')
                idxs = list(range(*[folder.eval(a, env={'len_tail': L}) for a in fl[0].iter.args]))
                upd = fl[0].body[0]
                if not (len(fl[0].body) == 1 and isinstance(upd, ast.AugAssign) and isinstance(upd.op, ast.BitXor) and isinstance(upd.value, ast.BinOp) and isinstance(upd.value.op, ast.LShift)):
                    raise AnalysisError('_murmur3: tail update is not `k ^= <byte> << <shift>`')
                operands.add(src(upd.value.left))
                for i in idxs:
                    got.add((src(upd.target), i, folder.eval(upd.value.right, env={'i': i})))
            except Unfoldable as e:
                raise AnalysisError('_murmur3 tail not foldable: %s' % e)
        if got != ref.tail_table(L):
            bad.append((L, sorted(got ^ ref.tail_table(L))))
    chk.judge(not bad, 'C08.tail', f, 'Python: tail (register, byte, shift) set equals the reference for each tail length 0..15', 'tail table differs for tail lengths %s' % bad[:3])
    ctab = set((v, i, s) for c, v, i, s in cf['tail'])
    cbad = [L for L in range(16) if set((v, i, s) for c, v, i, s in cf['tail'] if c <= L) != ref.tail_table(L)]
    chk.judge(not cbad and cf['switch'], 'C08.tail', (CMURMUR, 'MurmurHash3_x64_128', 0), 'C: fall-through case table equals the reference for each tail length', 'C tail table differs for tail lengths %s' % cbad)
    bt = pm_cur.func('body_and_tail')
    unpk = [n for n in body_walk(bt) if isinstance(n, ast.Call) and src(n.func) == 'struct.unpack_from' and "'b'" in src(n.args[0])]
    from .c07 import body_tail_facts
    bt_bad8, signed8 = body_tail_facts(pm_cur, bt)
    okp = signed8 and not bt_bad8 and operands == set(['tail[i]'])
    chk.judge(okp, 'C08.tail', bt, 'Python: tail bytes unpacked with the signed format b and used unmasked (sign-extended like a Java byte)',
              'tail bytes are not sign-extended (%s / operand %s): a key whose last len %% 16 bytes contain a byte >= 0x80 gets a different token than Cassandra assigns' % ([src(n.args[0]) for n in unpk], sorted(operands)))
    tz = cf.get('tail_zero') or {}
    if sorted(tz) != ['k1', 'k2']:
        raise AnalysisError('cmurmur3.c: block loop / tail switch not recognised')
    chk.judge(all(tz.values()), 'C08.tail', (CMURMUR, 'MurmurHash3_x64_128', 0), 'C: the tail accumulators k1, k2 are 0 when the tail switch starts (the block loop works on its own k1, k2)',
              'the block loop assigns the function-level %s that the tail switch xors into: for a key longer than one block whose length is not a multiple of 16 the tail starts from '
              'the last block\'s mixed value and the token differs from Cassandra\'s' % [v for v, ok_ in sorted(tz.items()) if not ok_])
    # python side: the tail registers are zeroed between the block loop and the tail
    zero_py = [st for st in f.body if isinstance(st, ast.Assign) and sorted(src(t) for t in st.targets) == ['k1', 'k2'] and src(st.value) == '0']
    loops_py = [st for st in f.body if isinstance(st, ast.For)]
    okz = len(zero_py) == 1 and len(loops_py) >= 1 and f.body.index(loops_py[0]) < f.body.index(zero_py[0]) and \
        not any(isinstance(x, (ast.Assign, ast.AugAssign)) and any(src(t) in ('k1', 'k2') for t in (x.targets if isinstance(x, ast.Assign) else [x.target]))
                for st in f.body[f.body.index(zero_py[0]) + 1:] if not isinstance(st, ast.If) for x in ast.walk(st))
    chk.judge(okz, 'C08.tail', f, 'Python: k1 = k2 = 0 after the block loop, before the tail', 'the tail registers are not reset after the block loop')
    chk.judge(not cf['narrow_shifts'], 'C08.tail', (CMURMUR, 'MurmurHash3_x64_128', 0), 'C: no byte is shifted left by 24 bits or more before it is widened to 64 bits',
              'integer promotion: %s is evaluated in int, a byte >= 0x80 lands in the sign bit and is sign-extended when widened - the block word (and the token) is wrong for keys of 16 bytes '
              'or more containing such a byte' % cf['narrow_shifts'])
    chk.judge(cf['tail_type'] == ('int8_t', 'int8_t') and cf['data_type'] == ('int8_t', 'int8_t'), 'C08.tail', (CMURMUR, 'MurmurHash3_x64_128', 0), 'C: tail bytes read through int8_t* (signed)', 'C tail pointer type is %s' % (cf['tail_type'],))
    blk = [n for n in body_walk(bt) if isinstance(n, ast.Call) and src(n.func) == 'struct.unpack_from' and 'qq' in src(n.args[0])]
    ok = not bt_bad8
    chk.judge(ok, 'C08.tail', bt, 'blocks: little-endian signed 64-bit pairs, 16 bytes per block, tail = len mod 16', 'block splitting changed')
    body_loop = [n for n in f.body if isinstance(n, ast.For)]
    ok = len(body_loop) == 1 and src(body_loop[0].iter) == 'range(0, len(body), 2)' and [src(s) for s in body_loop[0].body[:2]] == ['k1 = body[i]', 'k2 = body[i + 1]']
    chk.judge(ok, 'C08.tail', f, 'block loop: k1, k2 = consecutive 64-bit words', 'block loop changed')
    # finalisation etc
    fin = [src(st) for st in f.body if isinstance(st, (ast.AugAssign, ast.Assign, ast.Return))]
    tailseq = fin[fin.index('h1 ^= total_len'):] if 'h1 ^= total_len' in fin else []
    want = ['h1 ^= total_len', 'h2 ^= total_len', 'h1 += h2', 'h2 += h1', 'h1 = fmix(h1)', 'h2 = fmix(h2)', 'h1 += h2', 'return truncate_int64(h1)']
    chk.judge(tailseq == want, 'C08.final', f, 'finalisation: ^= len, cross-add, fmix both, h1 += h2, wrap', 'finalisation differs: %s' % tailseq)
    chk.judge('h1 ^= len; h2 ^= len; h1 += h2; h2 += h1; h1 = fmix(h1); h2 = fmix(h2); h1 += h2;' in cf['final'], 'C08.final', (CMURMUR, 'MurmurHash3_x64_128', 0), 'C finalisation sequence', 'C finalisation differs')
    chk.judge(src(f.body[0]) == 'h1 = h2 = 0' and cf['seed0'], 'C08.final', f, 'seed 0', 'seed differs')
    tr = pm_cur.func('truncate_int64')
    try:
        consts = dict((k, folder.module_const(k)) for k in ('INT64_MAX', 'INT64_MIN', 'INT64_OVF_OFFSET', 'INT64_OVF_DIV'))
    except Unfoldable as e:
        raise AnalysisError(str(e))
    # the function is interpreted on boundary values (all arithmetic on constants folds): the result is x wrapped into [-2**63, 2**63)
    from ..absint import Interp as _I8
    bad_tr = []
    for xv in (0, 1, -1, 2 ** 63 - 1, 2 ** 63, 2 ** 63 + 5, -2 ** 63, -2 ** 63 - 1, 2 ** 64, 2 ** 64 + 7, -2 ** 64 - 3, 3 * 2 ** 64 + 11, 2 ** 127 + 12345):
        try:
            outs8 = _I8(pm_cur).run_all(tr, {'x': xv})
        except Exception as e8:
            raise AnalysisError('truncate_int64 could not be interpreted: %s' % e8)
        for o8 in outs8:
            if o8.kind != 'ok' or o8.value != ((xv + 2 ** 63) % 2 ** 64) - 2 ** 63:
                bad_tr.append((xv, o8.value))
    ok = consts == {'INT64_MAX': 2 ** 63 - 1, 'INT64_MIN': -2 ** 63, 'INT64_OVF_OFFSET': 2 ** 63, 'INT64_OVF_DIV': 2 ** 64} and not bad_tr
    chk.judge(ok, 'C08.final', tr, 'truncate_int64 wraps into [-2**63, 2**63) by (x + 2**63) mod 2**64 - 2**63', 'wrap to signed 64 bits changed: %s' % consts)
    rl = pm.func('rotl64')
    ok = 'mask = 2 ** r - 1' in src(rl) and 'rotated = x << r | x >> 64 - r & mask' in src(rl).replace('(', '').replace(')', '')
    chk.judge(ok, 'C08.final', rl, 'rotl64: (x << r) | ((x >> (64 - r)) & (2**r - 1))', 'rotl64 changed')
    # tokens
    meta = repo.mod(META)
    mfold = Folder(meta)
    try:
        mn, mx = mfold.module_const('MIN_LONG'), mfold.module_const('MAX_LONG')
    except Unfoldable as e:
        raise AnalysisError(str(e))
    chk.judge(mn == ref.MIN_LONG and mx == ref.MAX_LONG, 'C08.token', (META, 'MIN_LONG', 0), 'MIN_LONG / MAX_LONG are the 64-bit bounds', 'bounds are %s / %s' % (mn, mx))
    hf = meta.func('Murmur3Token.hash_fn')
    rets = [n for n in body_walk(hf) if isinstance(n, ast.Return)]
    hs = [n for n in body_walk(hf) if isinstance(n, ast.Assign) and src(n.targets[0]) == 'h']
    ok = len(rets) == 1 and len(hs) == 1 and src(hs[0].value) == 'int(murmur3(key))'
    bad = []
    if ok:
        for h in (ref.MIN_LONG, ref.MIN_LONG + 1, -1, 0, 1, ref.MAX_LONG - 1, ref.MAX_LONG):
            try:
                got = mfold.eval(rets[0].value, env={'h': h})
            except Unfoldable as e:
                raise AnalysisError('Murmur3Token.hash_fn not foldable: %s' % e)
            want = ref.MAX_LONG if h == ref.MIN_LONG else h
            if got != want:
                bad.append('%d -> %d (want %d)' % (h, got, want))
    chk.judge(ok and not bad, 'C08.token', hf, 'Murmur3Token.hash_fn: murmur3(key), MIN_LONG normalised to MAX_LONG, every other value unchanged (7 boundary values)',
              'normalisation differs from Murmur3Partitioner.normalize: %s' % '; '.join(bad))
    imp = [n for n in ast.walk(meta.tree) if isinstance(n, ast.ImportFrom) and n.module == 'cassandra.murmur3' and [a.name for a in n.names] == ['murmur3']]
    chk.judge(len(imp) == 1, 'C08.token', (META, 'import', imp[0].lineno if imp else 0), 'murmur3 comes from cassandra.murmur3 (C extension or _murmur3)', 'murmur3 source changed', nontrivial=False)
    tail_ = [st for st in pm_cur.tree.body if isinstance(st, ast.Try)]
    ok = len(tail_) == 1 and 'from cassandra.cmurmur3 import murmur3' in src(tail_[0]) and any('murmur3 = _murmur3' in src(h) for h in tail_[0].handlers)
    chk.judge(ok, 'C08.token', (MURMUR, 'murmur3', 0), 'murmur3 = C extension if importable, else _murmur3', 'implementation selection changed', nontrivial=False)
    md = meta.func('MD5Token.hash_fn')
    rets = [n for n in body_walk(md) if isinstance(n, ast.Return)]
    from ..sem import resolve as _resolve
    ok = False
    if len(rets) == 1:
        rv = _resolve(md, rets[0].value)
        # abs(varint_unpack(md5(<key bytes>).digest())) with temporaries followed; <key bytes> is the key itself (re-assigned to its UTF-8 encoding when it is a str) or the same choice as an expression
        def _peel(e, name):
            return e.args[0] if isinstance(e, ast.Call) and src(e.func) == name and len(e.args) == 1 and not e.keywords else None
        a1 = _peel(rv, 'abs')
        a2 = _peel(_resolve(md, a1), 'varint_unpack') if a1 is not None else None
        a2 = _resolve(md, a2) if a2 is not None else None
        if isinstance(a2, ast.Call) and isinstance(a2.func, ast.Attribute) and a2.func.attr == 'digest' and not a2.args:
            h_ = _resolve(md, a2.func.value)
            karg = _peel(h_, 'md5')
            if karg is not None:
                karg = _resolve(md, karg)
                if isinstance(karg, ast.Name) and karg.id == 'key':
                    enc = [st for st in body_walk(md) if isinstance(st, ast.If) and src(st.test) == 'isinstance(key, str)' and len(st.body) == 1 and src(st.body[0]) == "key = key.encode('UTF-8')" and not st.orelse]
                    ok = len(enc) == 1
                elif isinstance(karg, ast.IfExp):
                    ok = src(karg.test) == 'isinstance(key, str)' and src(karg.body) == "key.encode('UTF-8')" and src(karg.orelse) == 'key'
    imps = [n for n in ast.walk(meta.tree) if isinstance(n, ast.ImportFrom) and ((n.module == 'hashlib' and 'md5' in [a.name for a in n.names]) or (n.module == 'cassandra.marshal' and 'varint_unpack' in [a.name for a in n.names]))]
    chk.judge(ok and len(imps) == 2, 'C08.token', md, 'MD5Token: abs(signed big-endian integer of the MD5 digest)', 'MD5Token.hash_fn changed: %s' % (src(rets[0].value) if rets else None))
    tk = meta.func('Token.hash_fn')
    bcls = meta.cls('BytesToken')
    ok = [src(x) for x in tk.body if not isinstance(x, ast.Expr)] == ['return key'] and not any(isinstance(st, ast.FunctionDef) and st.name in ('hash_fn', 'from_key') for st in bcls.body) and [src(b) for b in bcls.bases] == ['Token']
    fk = meta.func('Token.from_key')
    chk.judge(ok and 'return cls(cls.hash_fn(key))' in src(fk), 'C08.token', bcls, 'BytesToken: the raw key bytes (Token.hash_fn is the identity)', 'BytesToken no longer uses the raw key')
    rb = meta.func('Metadata.rebuild_token_map')
    from ..sem import flow_of, facts_true_at
    pairs = {}
    g_, fl_ = flow_of(rb)
    for n in g_.stmt_nodes():
        if n.kind == 'stmt' and isinstance(n.ast, ast.Assign) and src(n.ast.targets[0]) == 'token_class':
            for k, v in facts_true_at(fl_, n).items():
                e = ast.parse(k, mode='eval').body
                if v and isinstance(e, ast.Call) and src(e.func) == 'partitioner.endswith' and isinstance(e.args[0], ast.Constant):
                    pairs[e.args[0].value] = src(n.ast.value)
    if not pairs:
        # the table as data: for suffix, token_class in ((<suffix>, <class>), ...): if partitioner.endswith(suffix): break   (else: no token map)
        from ..sem import resolve as _res08
        for lp_ in [n for n in body_walk(rb) if isinstance(n, ast.For) and isinstance(n.target, ast.Tuple) and len(n.target.elts) == 2]:
            it_ = _res08(rb, lp_.iter)
            sfx, tcl = src(lp_.target.elts[0]), src(lp_.target.elts[1])
            tests_ = [x for x in ast.walk(lp_) if isinstance(x, ast.If) and src(x.test) == 'partitioner.endswith(%s)' % sfx and any(isinstance(y, ast.Break) for y in x.body)]
            if isinstance(it_, (ast.Tuple, ast.List)) and tests_ and tcl == 'token_class' and all(isinstance(e_, ast.Tuple) and len(e_.elts) == 2 and isinstance(e_.elts[0], ast.Constant) for e_ in it_.elts):
                pairs = dict((e_.elts[0].value, src(e_.elts[1])) for e_ in it_.elts)
    chk.judge(pairs == ref.PARTITIONER_TOKEN, 'C08.token', rb, 'partitioner name -> token class table equals the reference', 'partitioner table is %s' % pairs)
    chk.require('C08.const', 8)
