"""C33 - driver collection types (narrow): paired state of OrderedMap, insertion discipline and accumulator feedback of SortedSet."""
import ast

from ..core import AnalysisError, src, body_walk, walk_no_nested, qual_of, parent

UTIL = 'cassandra/util.py'
MUT = ('append', 'pop', 'insert', 'remove', 'clear', 'extend', 'sort', 'reverse')


def check(chk):
    chk.decides = ('OrderedMap: every method that changes _items changes _index on the same path, index entries are keyed by _serialize_key, deletion renumbers the '
                   'later entries; SortedSet: the only positional insert uses the position returned by _find_insertion and is guarded against equality (no '
                   'duplicates), membership compares the element at that position, in-place operators adopt the items of a SortedSet result, and the '
                   'multi-operand operations feed their accumulator back into each step')
    chk.does_not_decide = 'set / map algebra over arbitrary operation sequences and element types'
    chk.rule('C33.paired', 'OrderedMap methods that mutate _items also mutate _index (and vice versa)')
    chk.rule('C33.key', 'every _index access uses a key produced by _serialize_key')
    chk.rule('C33.insert', 'SortedSet.add inserts at _find_insertion(item) only when the element there differs; append otherwise; __contains__/remove compare the element at that position')
    chk.rule('C33.accumulate', 'union / intersection / difference over several operands apply each step to the accumulated result')
    chk.rule('C33.inplace', 'in-place operators replace _items by the items of the corresponding SortedSet result')
    chk.rule('C33.alias', 'no two containers share one backing list: `<x>._items = <y>._items` only moves the list out of a temporary created in the same function; copies go through list(...)')
    m = chk.repo.mod(UTIL)
    _alias_rule(chk, m)
    _order_rule(chk, m)
    # an element may itself be a tuple: '%r' % element would take it as the argument list
    chk.rule('C33.fmt', 'SortedSet / OrderedMap: a %-format whose right operand is an element / key name wraps it in a tuple')
    nf = 0
    for q, f in m.functions():
        if not (q.startswith('SortedSet.') or q.startswith('OrderedMap')):
            continue
        params = set(a.arg for a in f.args.args) - set(['self'])
        for n in body_walk(f):
            if isinstance(n, ast.BinOp) and isinstance(n.op, ast.Mod) and isinstance(n.left, ast.Constant) and isinstance(n.left.value, str):
                nf += 1
                chk.judge(not (isinstance(n.right, ast.Name) and n.right.id in params), 'C33.fmt', n, '%s: %s' % (q, src(n)[:60]),
                          'a caller-supplied element is the bare right operand of %: a tuple element (frozen tuple / UDT value) makes the formatting fail with TypeError instead of the intended error')
    if nf < 2:
        raise AnalysisError('C33.fmt: %-format sites not found')
    for cname in ('OrderedMap', 'OrderedMapSerializedKey'):
        c = m.cls(cname)
        for f in c.body:
            if not isinstance(f, ast.FunctionDef) or f.name == '__init__':
                continue
            mi = mx = False
            for n in body_walk(f):
                if isinstance(n, ast.Call) and isinstance(n.func, ast.Attribute) and n.func.attr in MUT:
                    if src(n.func.value) == 'self._items':
                        mi = True
                    if src(n.func.value) == 'self._index' and n.func.attr in ('pop', 'clear'):
                        mx = True
                if isinstance(n, (ast.Assign, ast.Delete, ast.AugAssign)):
                    tg = n.targets if not isinstance(n, ast.AugAssign) else [n.target]
                    for t in tg:
                        base = t.value if isinstance(t, ast.Subscript) else t
                        if src(base) == 'self._items':
                            if isinstance(t, ast.Subscript) and isinstance(n, ast.Assign):
                                pass     # replacing the value of an existing entry keeps positions
                            else:
                                mi = True
                        if src(base) == 'self._index':
                            mx = True
            if mi or mx:
                chk.judge(mi == mx, 'C33.paired', f, '%s.%s changes _items and _index together' % (cname, f.name),
                          '%s.%s changes %s without %s: positions recorded in _index no longer match _items' % (cname, f.name, '_items' if mi else '_index', '_index' if mi else '_items'))
    chk.require('C33.paired', 4)
    om = m.cls('OrderedMap')
    for f in om.body:
        if not isinstance(f, ast.FunctionDef):
            continue
        for n in body_walk(f):
            key = None
            if isinstance(n, ast.Subscript) and src(n.value) == 'self._index':
                key = n.slice
            elif isinstance(n, ast.Call) and isinstance(n.func, ast.Attribute) and src(n.func.value) == 'self._index' and n.func.attr in ('get', 'pop') and n.args:
                key = n.args[0]
            if key is not None:
                ok = 'self._serialize_key(' in src(key) or src(key) == 'flat_key'
                if src(key) == 'flat_key':
                    ok = any(isinstance(st, ast.Assign) and src(st.targets[0]) == 'flat_key' and 'self._serialize_key(key)' in src(st.value) for st in body_walk(f))
                chk.judge(ok, 'C33.key', n, 'OrderedMap.%s: _index keyed by the serialized key (%s)' % (f.name, src(key)), 'index accessed with a raw key: unhashable / unequal-but-same-encoding keys break')
    chk.require('C33.key', 4)
    di = m.func('OrderedMap.__delitem__')
    chk.judge('i if i < index else i - 1' in src(di) and 'self._items.pop(index)' in src(di), 'C33.paired', di, '__delitem__ renumbers the entries after the removed position', 'deletion no longer renumbers later entries')
    ins = m.func('OrderedMap._insert')
    s = src(ins)
    from .. import sem as _sem33
    g33, fl33 = _sem33.flow_of(ins)

    def _entry(e):
        e = _sem33.resolve(ins, e)
        return isinstance(e, ast.Tuple) and [src(x) for x in e.elts] == ['key', 'value']
    repl = [n for n in g33.stmt_nodes() if n.kind == 'stmt' and isinstance(n.ast, ast.Assign) and src(n.ast.targets[0]) == 'self._items[i]']
    apps33 = [n for n in g33.stmt_nodes() if n.kind == 'stmt' and isinstance(n.ast, ast.Expr) and isinstance(n.ast.value, ast.Call) and src(n.ast.value.func) == 'self._items.append']
    idx33 = [n for n in g33.stmt_nodes() if n.kind == 'stmt' and isinstance(n.ast, ast.Assign) and src(n.ast.targets[0]) == 'self._index[flat_key]']
    ok33 = len(repl) == 1 and len(apps33) == 1 and len(idx33) == 1 and _entry(repl[0].ast.value) and _entry(apps33[0].ast.value.args[0]) and \
        src(idx33[0].ast.value) == 'len(self._items) - 1' and g33.dominates(apps33[0], idx33[0]) and \
        all(fa.knows('i < 0') is False for fa, _c in fl33.at(repl[0])) and all(fa.knows('i < 0') is True for fa, _c in fl33.at(apps33[0])) and \
        "self._index.get(flat_key, -1)" in s
    chk.judge(ok33, 'C33.paired', ins,
              '_insert: existing key keeps its position; a new key is appended and indexed at the last position', 'insert position bookkeeping changed')
    sk = m.func('OrderedMapSerializedKey._serialize_key')
    chk.judge('self.cass_key_type.serialize(key, self.protocol_version)' in src(sk), 'C33.key', sk, 'map-column keys are identified by their CQL encoding', 'key identity changed')

    # SortedSet
    add = m.func('SortedSet.add')
    inserts = [n for q, f in m.functions() if q.startswith('SortedSet.') for n in body_walk(f) if isinstance(n, ast.Call) and src(n.func) == 'self._items.insert']
    chk.judge(len(inserts) == 1 and qual_of(inserts[0]) == 'SortedSet.add', 'C33.insert', add, 'the only positional insert into _items is in add()', 'positional inserts: %s' % [qual_of(i) for i in inserts])
    s = src(add)
    from ..cfg import CFG, Flow
    g = CFG(add)
    fl = Flow(g, 0, lambda n, c: c)
    nd = [n for n in g.stmt_nodes() if n.kind == 'stmt' and 'self._items.insert(i, item)' in src(n.ast)]
    ok = len(nd) == 1 and all(fa.knows('self._items[i] == item') is False and fa.knows('i < len(self._items)') is True for fa, _ in fl.at(nd[0])) and 'i = self._find_insertion(item)' in s
    chk.judge(ok, 'C33.insert', add, 'insert(i, item) with i = _find_insertion(item), only when _items[i] != item', 'an equal element can be inserted twice or at another position')
    ap = [n for n in g.stmt_nodes() if n.kind == 'stmt' and src(n.ast) == 'self._items.append(item)']
    chk.judge(len(ap) == 1 and all(fa.knows('i < len(self._items)') is False for fa, _ in fl.at(ap[0])), 'C33.insert', add, 'append only when the insertion point is past the end', 'append reachable inside the list')
    co = m.func('SortedSet.__contains__')
    chk.judge('i = self._find_insertion(item)' in src(co) and 'i < len(self._items) and self._items[i] == item' in src(co), 'C33.insert', co, 'membership: element at the insertion point equals item', 'membership test changed')
    rm = m.func('SortedSet.remove')
    grm = CFG(rm)
    flrm = Flow(grm, 0, lambda n, c: c)
    pops = [n for n in grm.stmt_nodes() if n.kind in ('stmt', 'return') and 'self._items.pop(i)' in src(n.ast)]
    okrm = len(pops) == 1 and all(fa.knows('self._items[i] == item') is True and fa.knows('i < len(self._items)') is True for fa, _ in flrm.at(pops[0])) \
        and 'i = self._find_insertion(item)' in src(rm)
    chk.judge(okrm and 'raise KeyError' in src(rm), 'C33.insert', rm, 'remove pops the equal element at the insertion point, else KeyError', 'remove changed')
    # accumulators
    for name in ('intersection', 'difference'):
        f = m.func('SortedSet.%s' % name)
        loops = [n for n in body_walk(f) if isinstance(n, ast.For) and src(n.iter) == 'others']
        good = False
        if len(loops) == 1:
            for st in loops[0].body:
                if isinstance(st, ast.Assign) and isinstance(st.targets[0], ast.Name) and isinstance(st.value, ast.Call) and isinstance(st.value.func, ast.Attribute):
                    acc = st.targets[0].id
                    good = src(st.value.func.value) == acc and [src(a) for a in st.value.args] == [src(loops[0].target)]
                    bad_recv = src(st.value.func.value)
        rets = [n for n in body_walk(f) if isinstance(n, ast.Return)]
        chk.judge(good and len(rets) == 1 and src(rets[0].value) == acc, 'C33.accumulate', f, 'SortedSet.%s: acc = acc.<step>(other) for every operand' % name,
                  'each step is applied to %s instead of the accumulated result: with two or more operands only the last one takes effect' % (bad_recv if loops else '?'))
        init = [st for st in f.body if isinstance(st, ast.Assign) and src(st.value) == 'self.copy()']
        chk.judge(len(init) == 1, 'C33.accumulate', f, 'SortedSet.%s starts from a copy of self' % name, 'accumulator does not start from self')
    un = m.func('SortedSet.union')
    chk.judge('union._items = list(self._items)' in src(un) and 'union.add(item)' in src(un) and 'for other in others' in src(un), 'C33.accumulate', un, 'union adds every element of every operand to a copy of self', 'union changed')
    for name, helper in (('_diff', 'item not in other'), ('_intersect', 'item in other')):
        f = m.func('SortedSet.%s' % name)
        chk.judge('for item in self._items' in src(f) and 'if %s' % helper in src(f), 'C33.accumulate', f, '%s keeps the elements with `%s`' % (name, helper), '%s filter changed' % name)
    for op, res in (('__iand__', 'self._intersect(other)'), ('__ior__', 'self.union(other)'), ('__isub__', 'self._diff(other)'), ('__ixor__', 'self.symmetric_difference(other)')):
        f = m.func('SortedSet.%s' % op)
        a = [st for st in f.body if isinstance(st, ast.Assign)]
        good = len(a) == 2 and src(a[0].value) == res and src(a[1].targets[0]) == 'self._items' and src(a[1].value) == '%s._items' % src(a[0].targets[0]) and src(f.body[-1]) == 'return self'
        chk.judge(good, 'C33.inplace', f, '%s: self._items = (%s)._items; return self' % (op, res), 'in-place operator changed')

    # the index of an ordered map is keyed in that map's own key space (pickle for OrderedMap, CQL encoding for OrderedMapSerializedKey)
    chk.rule('C33.keyspace', 'no OrderedMap method reads _items / _index of another map: entries are taken over through _insert, which re-keys them')
    om = m.cls('OrderedMap')
    foreign = [a for f_ in om.body if isinstance(f_, ast.FunctionDef) for a in ast.walk(f_)
               if isinstance(a, ast.Attribute) and a.attr in ('_items', '_index') and src(a.value) != 'self' and f_.name not in ('__eq__', '__ne__')]
    chk.judge(not foreign, 'C33.keyspace', om, 'OrderedMap touches only its own _items / _index',
              'another map\'s %s is copied (%s): a map decoded from a column keys its index by CQL encoding, a plain OrderedMap by pickle, so the copy looks keys up in the wrong key space'
              % (sorted(set(a.attr for a in foreign)), [src(a) for a in foreign][:2]))



def _order_rule(chk, util):
    """inclusion is a partial order: each of the four rich comparisons is spelled out; deriving them from one another (functools.total_ordering: a > b
    == not a <= b) is wrong for incomparable sets"""
    chk.rule('C33.order', 'SortedSet defines __le__ / __lt__ / __ge__ / __gt__ itself: <= issubset, >= issuperset, < and > additionally compare the sizes; no total_ordering')
    cls = util.cls('SortedSet')
    decos = [src(d) for d in cls.decorator_list]
    defs = dict((st.name, st) for st in cls.body if isinstance(st, ast.FunctionDef))
    missing = [n for n in ('__le__', '__lt__', '__ge__', '__gt__') if n not in defs]
    chk.judge(not missing and not any('total_ordering' in d for d in decos), 'C33.order', cls, 'all four inclusion comparisons are defined explicitly',
              'comparisons %s are not defined%s: for two sets neither of which contains the other a derived `a > b` / `a >= b` answers True' %
              (missing, ' and the class is decorated with total_ordering' if any('total_ordering' in d for d in decos) else ''))
    want = {'__le__': ('issubset', False), '__ge__': ('issuperset', False), '__lt__': ('issubset', True), '__gt__': ('issuperset', True)}
    for name, (meth, strict) in want.items():
        f = defs.get(name)
        if f is None:
            continue
        rets = [r for r in body_walk(f) if isinstance(r, ast.Return) and r.value is not None]
        txt = ' '.join(src(r.value) for r in rets)
        uses = ('self.%s(other)' % meth) in txt
        sized = any(isinstance(x, ast.Compare) and 'len(' in src(x) for r in rets for x in ast.walk(r.value))
        chk.judge(uses and (sized or not strict), 'C33.order', f, 'SortedSet.%s: %s%s' % (name, meth, ' and a size comparison' if strict else ''),
                  'SortedSet.%s no longer tests inclusion with %s%s' % (name, meth, ' plus a strict size comparison' if strict else ''))


def _alias_rule(chk, util):
    n = 0
    for cname in ('SortedSet', 'OrderedMap'):
        for q, f in util.functions():
            if not q.startswith(cname + '.'):
                continue
            params = set(a.arg for a in f.args.args)
            fresh = set()
            for st in body_walk(f):
                if isinstance(st, ast.Assign) and isinstance(st.targets[0], ast.Name) and isinstance(st.value, ast.Call):
                    fresh.add(st.targets[0].id)
            for st in body_walk(f):
                val = None
                what = None
                if isinstance(st, ast.Assign) and any(isinstance(t, ast.Attribute) and t.attr == '_items' for t in st.targets):
                    val, what = st.value, src(st.targets[0])
                elif isinstance(st, ast.Return) and st.value is not None and q.split('.')[-1] not in ('__iter__', '__reversed__'):
                    val, what = st.value, 'return'
                if val is None or not (isinstance(val, ast.Attribute) and val.attr == '_items' and isinstance(val.value, ast.Name)):
                    continue
                n += 1
                owner = val.value.id
                ok = owner in fresh and owner not in params
                chk.judge(ok, 'C33.alias', st, '%s: %s <- %s._items (a temporary built in this method)' % (q, what, owner),
                          '%s hands the backing list of `%s` to another container without copying: mutating one of them in place changes the other' % (q, owner))
    if n < 4:
        raise AnalysisError('C33.alias: expected at least 4 list hand-overs (the in-place operators), found %d' % n)
